#!/venv/bin/python
"""Regenerates MANIFEST.json from the table below (kept valid at all times)."""
import json
import os

HERE = os.path.dirname(os.path.abspath(__file__))
PY = '/venv/bin/python'

CLAIMS = {
    'C05': dict(
        text='Static typestate / guard-dominance analysis of every tpc_begin, '
             'tpc_abort and tpc_finish of the bundled storages over a CFG with '
             'exception edges: the commit lock is released on every exit the '
             'class promises, never leaked between acquire and owner '
             'registration, and a call for a foreign transaction has no '
             'effect.  Decides these structural clauses for all paths '
             '(including failure paths no test takes), not byte-equality of '
             'the storage before/after.',
        technique='typestate + guard dominance over an ast-built CFG with '
                  'exception edges (interprocedural by inlining resolved '
                  'callees)',
        ref='DESIGN.md section 3, C05'),
}

CLAIMS['C01'] = dict(
    text='Static must-pass / ordering analysis of the file storage commit '
         'protocol on all paths including exception edges: status write -> '
         'flush -> fsync before anything is published or the commit returns; '
         'the voted header carries the checkpoint status and finish '
         'overwrites exactly that byte; vote writes header/records/length/'
         'flush in order and truncates on a failed write; nothing but vote/'
         'finish/abort/pack/open touches the data file; the open-time scan '
         'never indexes a checkpointed or short transaction.  Decides this '
         'protocol structure, not that every torn byte offset is handled.',
    technique='must-pass-through and ordering automata over an inlined CFG '
              'with exception edges; call-graph confinement; struct-format '
              'constant evaluation',
    ref='DESIGN.md section 3, C01')
CLAIMS['C03'] = dict(
    text='Static guard-dominance and provenance analysis of every store path '
         'of the three bundled storages and of Connection.commit: a serial '
         'comparison (both orderings) dominates staging, a differing serial '
         'stages only resolved data or raises, the commit lock serialises '
         '2PC and is never taken under the storage lock, read dependencies '
         'are verified inside the commit and never dropped revocably.  '
         'Decides these clauses for all paths; not serial-replay equivalence '
         'of final values.',
    technique='guard dominance + def-use provenance + three-ordering '
              'evaluation of comparisons over an ast-built CFG',
    ref='DESIGN.md section 3, C03')

def _c(pid, text, technique):
    CLAIMS[pid] = dict(text=text, technique=technique,
                       ref='DESIGN.md section 3, ' + pid)


_c('C04', 'Narrow structural claim: a clock-derived tid is made later than '
   'the previous one on every path and becomes the new basis; all encoders/'
   'decoders of the on-disk headers agree on format, length, arity and field '
   'conversions; the before-bound is strict (evaluated under the ordering '
   'record tid = bound); index/position/last-tid are published only under '
   'the storage lock (and the pool writer side); reopening restores them '
   'from the scan; every helper the query classes use exists.  Does not '
   'decide that returned bytes equal what was stored.',
   'taint/provenance dataflow, struct-format table agreement, three-ordering '
   'evaluation of comparisons, lockset analysis, definedness over the static '
   'MRO')
_c('C09', 'Static guard-dominance with light path sensitivity over the '
   'inlined open/close paths: every file-system mutation reachable from a '
   'read-only open or close is excluded on the read-only branch; every write '
   'API refuses first; no failure while validating the saved index escapes '
   '(exception-edge reachability), the index is used only when accepted and '
   'the file is always scanned from the saved position; the index is written '
   'to a temporary name and renamed.  Does not decide equality of state with '
   'a full scan for every stale index.',
   'guard dominance with flag correlation, exception-edge reachability, '
   'def-use provenance over an inlined CFG')
_c('C12', 'Static alias/ownership, ordering and confinement analysis of the '
   'savepoint machinery: captured and retained savepoint state is a fresh '
   'copy, rollback steps happen in the required order, the savepoint store '
   'only reads from the real storage, is closed on every commit/abort path, '
   'stores are redirected before the first save, and everything it writes is '
   'addressed through state reset() restores.  Does not decide value-level '
   'equality of object states after rollback.',
   'alias (fresh-copy) rules, event-order automata over the CFG, who-may-call '
   'confinement, interprocedural provenance')
_c('C13', 'Static must-pass / ordering / provenance analysis of the blob '
   'paths on all exits including exception edges: abort always cleans and '
   'finish always forgets, record before file, dirty-list entry before the '
   'file exists, committed files opened read-only, post-pack removal only of '
   'listed files naming (oid, tid), a handed-over working file is consumed or '
   'removed on every exit.  Does not decide byte equality of blob contents.',
   'must-pass-through and ordering automata with exception edges, provenance '
   'of file names, ownership typestate of the working file')
_c('C17', 'Narrow structural claim: restore/tpc_begin role agreement at every '
   'copy site, strict progress of the recovery scan loop (sign abstract '
   'interpretation with branch refinement) and EOF exit of the copy loop, '
   'UndoError confinement to the undo API (exception-effect reachability), '
   'begin/finish-or-abort typestate of the recovery loop.  Does not decide '
   'identity of query answers between source and copy.',
   'argument-role matching, sign-domain abstract interpretation, explicit-'
   'raise reachability through handlers, typestate')
_c('C19', 'Narrow structural claim over fsIndex: a prefix bucket is queried '
   'with a key suffix only when it is the bucket of exactly that prefix '
   '(path-sensitive, with guard facts), deletion removes empty buckets, save '
   'and load agree on the stream shape, all splits are 6+2 bytes.  Does not '
   'decide agreement with a sorted dict over all operation sequences.',
   'path-sensitive guard-fact analysis, stream-shape automaton, constant '
   'table agreement')
_c('C20', 'Static confinement, lockset and three-ordering analysis of the id '
   'counter: written only by allocation / guarded raise / constructor and '
   'only under the storage lock; every store or restore of an id above the '
   'counter raises it on every normal path (branch evaluated under oid > '
   'counter); reopen takes it from the index maximum; the demo storage '
   'issues an id only after the issued-set test and a miss in both layers; '
   'connection-side ids always come from new_oid.  Does not enumerate '
   'schedules of concurrent allocators.',
   'who-may-write confinement, lockset, ordering-evaluated branch pruning, '
   'exception-path typestate, provenance')

_c('C02', 'Static ordering, lockset, provenance and lock-order analysis of '
   'the snapshot machinery: every finish calls the invalidation callback '
   'with the new tid under the lock that excludes loads and before the data '
   'is loadable; wrappers/adapters forward it and invalidate first; the '
   'snapshot bound is exactly what loads use, set only at a boundary, '
   'atomically with draining, as max(storage tid, invalidated tid)+1; '
   'instance state and the shared file handle are only touched under their '
   'locks; every boundary applies invalidations to the cache; the pool\'s '
   'reader/writer admission is mutually announced; the lock-order graph is '
   'acyclic (storage lock <-> pool only under the commit-lock gate).  Speaks '
   'about all interleavings through locksets without running one; does not '
   'decide value equality with a model.',
   'must-precede ordering + lockset + lock-order graph + provenance over an '
   'inlined CFG with exception edges')
_c('C06', 'Narrow structural claim on undo: read-only and identity guards '
   'dominate, the status check dominates every staged undo record, pending '
   'failures are checked after the loop and raise, with differing later data '
   'the only non-raising exit returns the resolver\'s merge (flag-sensitive '
   'exploration), resolver roles at the undo call site, undone oids are what '
   'the adapter invalidates, undo stages only to the temporary file and the '
   'dirty blob list.  Does not decide that the state after undo equals the '
   'state before the undone transaction.',
   'guard dominance with flag propagation, post-dominance of the failure '
   'check, provenance of resolver arguments, confinement')
_c('C07', 'Narrow structural claim on pack: reachability runs index build, '
   'root scan from z64 and the from-the-future pass; every later record '
   'pointing before the pack position marks its target on every path and '
   'extra roots are traversed; a record is skipped only under "not '
   'reachable"; every post-pack-time record is copied with its own oid/tid; '
   'packed headers get status p; pack guards; mapping storage keeps the '
   'newest revision and sweeps from the root; reference-extraction table '
   'agreement.  Does not decide equality of loads before/after pack.',
   'must-pass-through and path-typestate over loop bodies, guard dominance')
_c('C08', 'Static typestate and lockset analysis of the pack hand-over and '
   'swap on all paths including exception edges (with typed-handler '
   'filtering by explicit raise sets): the packer\'s locked flag mirrors the '
   'commit lock at every fallible point, exceptional exits release it, a '
   'returned position means "held" and None "never acquired"; the swap steps '
   'run under pool writer side + storage lock + commit lock, released '
   'exactly once; the pack flag is tested-and-set in one critical section '
   'and reset on every exit; failure cleanup; no rename of the live name '
   '(known finding F12).  Does not enumerate schedules or crash offsets.',
   'flag-correlated typestate, lockset, exception-edge reachability')
_c('C10', 'Static provenance analysis of conflict resolution: the resolver '
   'receives (old, committed, new) in these roles inside tryToResolveConflict '
   'and at all three call sites; the returned bytes are the re-pickle of the '
   'resolver result with the original class metadata and every other exit '
   'raises ConflictError; resolved oids are recorded, cleared at begin, '
   'returned by every vote and ghostified by the connection.  Does not '
   'decide that unpickle/re-pickle preserves every reference (table '
   'agreement in C14 covers the formats).',
   'def-use provenance of call arguments and return values, exit analysis')
_c('C11', 'Static ownership/typestate analysis with exception edges: an '
   'object given an owner is recorded where abort finds it or disowned '
   'before anything can fail (Connection._add, the writer queue, the object '
   'being stored); abort/tpc_abort/tpc_finish end in the common cleanup; '
   'finish marks modified and created objects clean with the storage\'s tid; '
   'tpc_abort steps; disown always removes owner and oid together; close '
   'refuses while joined; an oid grant is followed by queueing.  Does not '
   'decide attribute values of objects after each boundary.',
   'ownership typestate on all exits including exception edges, must-pass-'
   'through, pairing')
_c('C14', 'Narrow structural claim: the reference shapes the writer emits '
   '(tags, arity, field order) agree with the tables of the object reader, '
   'the conflict-resolution reader and the reference extractors; every '
   'consumer normalises text oids; persistent_id never answers by-value for '
   'a persistent object; references resolve through the cache and new '
   'ghosts are registered; extraction keeps tuple/bare and skips exactly '
   'list-shaped references.  Does not decide graph isomorphism.',
   'writer/reader table agreement evaluated from the syntax tree, path '
   'exploration of the shape tests')
_c('C15', 'Static provenance and confinement analysis: the historical '
   'adapter loads strictly before a bound set once, reports no '
   'invalidations, forwards no writing method and exposes only raising '
   'stubs; Connection._commit refuses a historical connection before any '
   'store; at/before are normalised to one exclusive bound and a future '
   'bound is refused; the strict bound of loadBefore (C04.R3).  Does not '
   'decide equality with the model state at the bound.',
   'provenance, constant evaluation of the forwarded-method tables, guard '
   'dominance')
_c('C16', 'Static confinement and provenance analysis of DemoStorage: only '
   'reading methods are ever invoked on the base, 2PC and stores go to the '
   'changes storage, the serial check uses the merged lookup, the base is '
   'asked only after the changes layer, new_oid probes issued-set and both '
   'layers, and no layer-sensitive operation is copied verbatim from the '
   'changes storage (known finding F17: undo).  Does not decide revision-'
   'interval arithmetic of merged reads.',
   'who-may-call confinement over resolved receivers, ordering, provenance')
_c('C18', 'Narrow structural claim on repozo: the copied length derives from '
   'getSize() of a read-only storage, never the raw size; backup files are '
   'synced before renaming and recovery goes through a .part file; the .dat '
   'line records exactly the copied range and checksum; verify compares '
   'size always and checksum unless quick and every mismatch raises; '
   'incrementals only on the matching-prefix branch.  Does not decide byte '
   'identity of recovered files.',
   'def-use provenance, event-order automata, argument agreement, guard '
   'dominance')

NOT_YET = {}


def main():
    props = [json.loads(l) for l in open(os.path.join(HERE,
                                                      'properties.jsonl'))]
    checks = []
    na = []
    for p in props:
        pid = p['id']
        c = CLAIMS.get(pid)
        if c is None:
            na.append({'property_id': pid,
                       'reason': NOT_YET.get(
                           pid, 'static rules for this property are designed '
                           '(DESIGN.md section 3) but not yet implemented; '
                           'nothing is claimed until they exist')})
            continue
        checks.append({
            'property_id': pid,
            'quick_cmd': '%s -m zverif check %s --tier quick' % (PY, pid),
            'thorough_cmd': '%s -m zverif check %s --tier thorough' % (PY, pid),
            'evidence_file': '/verif/evidence/%s.json' % pid,
            'replay_cmd_template': PY + ' -m zverif replay {path}',
            'engine': 'zverif',
            'level_claimed': {'category': 'other', 'text': c['text'],
                              'design_ref': c['ref']},
            'level_note': 'Trusted base: CPython ast module; the source model '
                          'of DESIGN.md section 2.8 (no monkey-patching beyond '
                          'visible module-level assignments, opaque storages '
                          'honour IStorage, any call may raise except a short '
                          'non-raising list).  Decides the structural clauses '
                          'named in DESIGN.md, not the behaviour as a whole.',
            'technique': c['technique'],
        })
    m = {
        'version': 1,
        'setup_cmd': PY + ' -m compileall -q zverif',
        'hooks': {'guard': 'ZODB_VERIF',
                  'enable': 'none needed: the checks never execute ZODB; they '
                            'parse /repo/src on every run',
                  'baseline_off_cmd': 'cd /repo && /venv/bin/python -m pytest '
                                      '-q -p no:cacheprovider --timeout=900',
                  'source_commits': [],
                  'add_only': True},
        'engines': [{'name': 'zverif', 'path': '/verif/zverif',
                     'serves_properties': sorted(CLAIMS),
                     'kind_free_text': 'repository-specific static analysis: '
                     'ast source model with static MRO and callee resolution, '
                     'hand-built CFG with exception edges, path exploration '
                     'over finite abstract states (typestate, must-pass, '
                     'ordering, guard dominance), locksets, provenance'}],
        'checks': checks,
        'not_applicable': na,
        'notes': 'All checks are static (DESIGN.md).  Genuine defects found '
                 'are listed in /verif/known_findings.json (fixed ones as '
                 '`fix:` commits in /repo).',
    }
    with open(os.path.join(HERE, 'MANIFEST.json'), 'w') as f:
        json.dump(m, f, indent=1)
        f.write('\n')


if __name__ == '__main__':
    main()
