#!/venv/bin/python
"""Regenerates MANIFEST.json from the table below (kept valid at all times)."""
import json
import os

HERE = os.path.dirname(os.path.abspath(__file__))
PY = '/venv/bin/python'

CLAIMS = {
    'C05': dict(
        text='Static typestate / guard-dominance analysis of every tpc_begin, '
             'tpc_abort and tpc_finish of the bundled storages over a CFG with '
             'exception edges: the commit lock is released on every exit the '
             'class promises, never leaked between acquire and owner '
             'registration, and a call for a foreign transaction has no '
             'effect.  Decides these structural clauses for all paths '
             '(including failure paths no test takes), not byte-equality of '
             'the storage before/after.',
        technique='typestate + guard dominance over an ast-built CFG with '
                  'exception edges (interprocedural by inlining resolved '
                  'callees)',
        ref='DESIGN.md section 3, C05'),
}

CLAIMS['C01'] = dict(
    text='Static must-pass / ordering analysis of the file storage commit '
         'protocol on all paths including exception edges: status write -> '
         'flush -> fsync before anything is published or the commit returns; '
         'the voted header carries the checkpoint status and finish '
         'overwrites exactly that byte; vote writes header/records/length/'
         'flush in order and truncates on a failed write; nothing but vote/'
         'finish/abort/pack/open touches the data file; the open-time scan '
         'never indexes a checkpointed or short transaction.  Decides this '
         'protocol structure, not that every torn byte offset is handled.',
    technique='must-pass-through and ordering automata over an inlined CFG '
              'with exception edges; call-graph confinement; struct-format '
              'constant evaluation',
    ref='DESIGN.md section 3, C01')
CLAIMS['C03'] = dict(
    text='Static guard-dominance and provenance analysis of every store path '
         'of the three bundled storages and of Connection.commit: a serial '
         'comparison (both orderings) dominates staging, a differing serial '
         'stages only resolved data or raises, the commit lock serialises '
         '2PC and is never taken under the storage lock, read dependencies '
         'are verified inside the commit and never dropped revocably.  '
         'Decides these clauses for all paths; not serial-replay equivalence '
         'of final values.',
    technique='guard dominance + def-use provenance + three-ordering '
              'evaluation of comparisons over an ast-built CFG',
    ref='DESIGN.md section 3, C03')

NOT_YET = {}


def main():
    props = [json.loads(l) for l in open(os.path.join(HERE,
                                                      'properties.jsonl'))]
    checks = []
    na = []
    for p in props:
        pid = p['id']
        c = CLAIMS.get(pid)
        if c is None:
            na.append({'property_id': pid,
                       'reason': NOT_YET.get(
                           pid, 'static rules for this property are designed '
                           '(DESIGN.md section 3) but not yet implemented; '
                           'nothing is claimed until they exist')})
            continue
        checks.append({
            'property_id': pid,
            'quick_cmd': '%s -m zverif check %s --tier quick' % (PY, pid),
            'thorough_cmd': '%s -m zverif check %s --tier thorough' % (PY, pid),
            'evidence_file': '/verif/evidence/%s.json' % pid,
            'replay_cmd_template': PY + ' -m zverif replay {path}',
            'engine': 'zverif',
            'level_claimed': {'category': 'other', 'text': c['text'],
                              'design_ref': c['ref']},
            'level_note': 'Trusted base: CPython ast module; the source model '
                          'of DESIGN.md section 2.8 (no monkey-patching beyond '
                          'visible module-level assignments, opaque storages '
                          'honour IStorage, any call may raise except a short '
                          'non-raising list).  Decides the structural clauses '
                          'named in DESIGN.md, not the behaviour as a whole.',
            'technique': c['technique'],
        })
    m = {
        'version': 1,
        'setup_cmd': PY + ' -m compileall -q zverif',
        'hooks': {'guard': 'ZODB_VERIF',
                  'enable': 'none needed: the checks never execute ZODB; they '
                            'parse /repo/src on every run',
                  'baseline_off_cmd': 'cd /repo && /venv/bin/python -m pytest '
                                      '-q -p no:cacheprovider --timeout=900',
                  'source_commits': [],
                  'add_only': True},
        'engines': [{'name': 'zverif', 'path': '/verif/zverif',
                     'serves_properties': sorted(CLAIMS),
                     'kind_free_text': 'repository-specific static analysis: '
                     'ast source model with static MRO and callee resolution, '
                     'hand-built CFG with exception edges, path exploration '
                     'over finite abstract states (typestate, must-pass, '
                     'ordering, guard dominance), locksets, provenance'}],
        'checks': checks,
        'not_applicable': na,
        'notes': 'All checks are static (DESIGN.md).  Genuine defects found '
                 'are listed in /verif/known_findings.json (fixed ones as '
                 '`fix:` commits in /repo).',
    }
    with open(os.path.join(HERE, 'MANIFEST.json'), 'w') as f:
        json.dump(m, f, indent=1)
        f.write('\n')


if __name__ == '__main__':
    main()
