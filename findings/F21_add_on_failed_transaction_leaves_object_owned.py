import transaction, ZODB
from ZODB.MappingStorage import MappingStorage
from persistent import Persistent
class P(Persistent): pass
class Bad(Persistent):
    def __getstate__(self): raise RuntimeError("boom")
db = ZODB.DB(MappingStorage())
tm = transaction.TransactionManager(); conn = db.open(tm)
conn.root()['bad'] = Bad()
try: tm.commit()
except RuntimeError: print("commit failed (not yet aborted)")
new = P(); new.v = 42
try:
    conn.add(new)
except Exception as e:
    print("add refused:", type(e).__name__)
print("but the object is now owned: jar is conn:", new._p_jar is conn, "oid:", new._p_oid)
tm.abort()
conn.add(new)                       # silently does nothing now
conn.root()['x'] = new
tm.commit(); print("commit ok")
c2 = db.open(transaction.TransactionManager())
try: print("other connection reads:", c2.root()['x'].v)
except Exception as e: print("OTHER CONNECTION FAILS:", type(e).__name__, e)
