import os, shutil, threading
shutil.rmtree("d7", ignore_errors=True); os.mkdir("d7")
import transaction, ZODB
from ZODB.DemoStorage import DemoStorage
from ZODB.FileStorage import FileStorage
from ZODB.MappingStorage import MappingStorage
demo = DemoStorage(base=MappingStorage(), changes=FileStorage('d7/changes.fs'))
db = ZODB.DB(demo)
tm = transaction.TransactionManager(); conn = db.open(tm)
conn.root()['x'] = 1
tm.get().note('d' * 70000)       # over-long description
try:
    tm.commit()
except Exception as e:
    print("commit failed as expected:", type(e).__name__, e)
tm.abort()
print("demo commit lock still held:", demo._commit_lock.locked(), "changes commit lock held:", demo.changes._commit_lock.locked())
conn.root()['x'] = 2
done = []
def go():
    try:
        tm2 = transaction.TransactionManager(); c2 = db.open(tm2); c2.root()['y']=1; tm2.commit(); done.append(1)
    except Exception as e: done.append(e)
th = threading.Thread(target=go, daemon=True); th.start(); th.join(3)
print("next transaction completed:", done)
# same on plain FileStorage
fs = FileStorage('d7/plain.fs'); db2 = ZODB.DB(fs); tm3 = transaction.TransactionManager(); c3 = db2.open(tm3)
c3.root()['x']=1; tm3.get().note('d'*70000)
try: tm3.commit()
except Exception as e: print("plain FS:", type(e).__name__)
tm3.abort(); print("plain FS lock held:", fs._commit_lock.locked())
