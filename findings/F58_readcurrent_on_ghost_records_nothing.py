"""F58: Connection.readCurrent() on an object that has not been loaded yet (a
ghost) records nothing: a ghost's serial is z64, which readCurrent takes for
"new object".  The transaction then commits although the object it declared
a dependency on was changed -- or un-created -- meanwhile.  (C03: "objects a
transaction declared it depends on being current: if one of them changed,
the commit fails".)"""
import sys

import transaction
from persistent.mapping import PersistentMapping

import ZODB
from ZODB.MappingStorage import MappingStorage
from ZODB.POSException import ReadConflictError

db = ZODB.DB(MappingStorage())
tm0 = transaction.TransactionManager()
c = db.open(tm0)
c.root()['x'] = PersistentMapping(v=0)
c.root()['y'] = PersistentMapping(v=0)
tm0.commit()                            # (c stays open: `a` is a fresh connection)

tmA = transaction.TransactionManager()
a = db.open(tmA)
x = a.root()['x']
assert x._p_changed is None             # not loaded yet
a.readCurrent(x)                        # "x must not change under me"
a.root()['y']['v'] = 1

tmB = transaction.TransactionManager()
b = db.open(tmB)
b.root()['x']['v'] = 100                # x changes meanwhile
tmB.commit()

try:
    tmA.commit()
except ReadConflictError:
    print('commit refused: the object depended on has changed')
    print('ok')
    sys.exit(0)
print('FAIL: readCurrent() on a ghost recorded nothing; the commit '
      'succeeded although the object was changed by another transaction')
sys.exit(1)
