import os, shutil, gc
shutil.rmtree("d16", ignore_errors=True); os.mkdir("d16")
import transaction, ZODB
from ZODB.FileStorage import FileStorage
from ZODB.blob import Blob
from ZODB.POSException import ConflictError
fs = FileStorage('d16/Data.fs', blob_dir='d16/blobs'); db = ZODB.DB(fs)
tm = transaction.TransactionManager(); c = db.open(tm); c.root()['b'] = Blob(b'v0'); tm.commit()
tm2 = transaction.TransactionManager(); c2 = db.open(tm2)
with c.root()['b'].open('w') as f: f.write(b'from conn 1')
with c2.root()['b'].open('w') as f: f.write(b'from conn 2')
tm2.commit()
print("tmp before failing commit:", os.listdir('d16/blobs/tmp'))
try:
    tm.commit()
except ConflictError:
    print("conflict"); tm.abort()
gc.collect()
print("tmp after failed commit + abort:", os.listdir('d16/blobs/tmp'))
with c.root()['b'].open('r') as f: print("conn1 reads:", f.read())
