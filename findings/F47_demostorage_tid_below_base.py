"""F47 (C16/C04): the changes layer of a demo storage generates its
transaction ids without knowing the base.  When the base's last transaction
is later than the clock (clock skew, a base stamped ahead), the first commit
through the demo storage gets an id BELOW the base's last one:
lastTransaction() goes backwards and new snapshots no longer include the
base's newest revisions.

History: base whose last transaction (adding root['late']) is stamped in
the future; DemoStorage(base); one commit through it.

Expected: ids keep increasing across the layers and root['late'] stays
visible.  Exit 1 otherwise.
"""
import sys

import transaction

import ZODB
from ZODB.Connection import TransactionMetaData
from ZODB.DemoStorage import DemoStorage
from ZODB.MappingStorage import MappingStorage
from ZODB.utils import p64, u64


def main():
    base = MappingStorage()
    db = ZODB.DB(base)
    conn = db.open()
    conn.root()['early'] = 1
    transaction.commit()
    # a transaction stamped ahead of the clock
    future = p64(u64(base.lastTransaction()) + (1 << 48))
    root_data, serial = base.load(p64(0))
    conn.root()['late'] = 2
    from ZODB.serialize import ObjectWriter
    data = ObjectWriter(conn.root()).serialize(conn.root())
    transaction.abort()
    t = TransactionMetaData()
    base.tpc_begin(t, future)
    base.store(p64(0), serial, data, '', t)
    base.tpc_vote(t)
    base.tpc_finish(t)
    conn.close()
    db.close = lambda: None

    demo = DemoStorage(base=base)
    db2 = ZODB.DB(demo)
    c = db2.open()
    before = sorted(c.root())
    last_before = demo.lastTransaction()
    c.root()['mine'] = 3
    transaction.commit()
    last_after = demo.lastTransaction()
    c.close()
    c = db2.open()
    after = sorted(c.root())
    c.close()
    print('before the commit: %s, after: %s' % (before, after))
    print('lastTransaction went from %d to %d' % (u64(last_before),
                                                  u64(last_after)))
    bad = []
    if last_after <= last_before:
        bad.append('lastTransaction() did not increase')
    if 'late' not in after or 'mine' not in after:
        bad.append('a new snapshot shows %s' % after)
    for b in bad:
        print('F47:', b)
    if bad:
        return 1
    print('ok')
    return 0


if __name__ == '__main__':
    sys.exit(main())
