"""F30 (C09): an index saved BEFORE a pack is accepted after the pack when
the file has grown back to the saved position and the last transaction
looks the same: the index check (_check_sanity) compares the positions of
the records of the last transaction only.

History: root; 4 equal-size revisions of A; create C; 4 more equal-size
revisions of A; close (index saved at P_old; a copy is kept).  Reopen, pack,
commit equal-size revisions of A until the file size is P_old again; close.
Put the kept (pre-pack) index back and open.

Expected: the same state as a full scan (C loads).  Exit 1 if the stale
index is used and C cannot be loaded.
"""
import os
import shutil
import sys
import tempfile
import time

import transaction

import ZODB
from ZODB.FileStorage import FileStorage
from persistent.mapping import PersistentMapping


def main():
    tmp = tempfile.mkdtemp(prefix='f30')
    try:
        path = os.path.join(tmp, 'Data.fs')
        db = ZODB.DB(FileStorage(path))
        conn = db.open()
        root = conn.root()
        root['A'] = PersistentMapping()
        transaction.commit()
        n = [0]

        def rev():
            n[0] += 1
            root['A']['v'] = '%06d' % n[0]
            transaction.commit()
        def size():
            return os.path.getsize(path)

        for i in range(4):
            rev()
        root['C'] = PersistentMapping({'c': 'x' * 40})
        transaction.commit()
        # calibrate: size of a transaction that rewrites C with a payload
        # of length L is c0 + L; of one that rewrites A it is S
        s0 = size()
        root['C']['c'] = 'y' * 10
        transaction.commit()
        s1 = size()
        root['C']['c'] = 'y' * 20
        transaction.commit()
        s2 = size()
        c0 = (s1 - s0) - 10
        assert (s2 - s1) - 20 == c0
        for i in range(4):
            rev()
        S = size()
        rev()
        S = size() - S
        db.close()
        p_old = size()
        shutil.copy(path + '.index', path + '.index.kept')

        db = ZODB.DB(FileStorage(path))
        conn = db.open()
        root = conn.root()
        time.sleep(0.01)
        db.pack(time.time())
        gap = p_old - size()
        assert gap > 0
        # gap = (c0 + L) + k * S with a small payload L and k >= 1
        k = (gap - c0) // S
        L = gap - c0 - k * S
        while L < 1:
            k -= 1
            L += S
        assert k >= 1, (gap, c0, S)
        root['C']['c'] = 'z' * L
        transaction.commit()
        for i in range(k):
            rev()
        now = size()
        db.close()
        if now != p_old:
            print('could not construct the coincidence (%d vs %d)' % (
                now, p_old))
            return 2
        shutil.copy(path + '.index.kept', path + '.index')

        fs = FileStorage(path)
        used = getattr(fs, '_used_index', None)
        try:
            db = ZODB.DB(fs)
            conn = db.open()
            c = conn.root()['C']['c']
            ok = set(c) == {'z'}
            err = None
            db.close()
        except Exception as e:
            ok, err = False, '%s: %s' % (type(e).__name__, e)
            fs.close()
        print('stale index used: %s; C loads: %s %s' % (used, ok, err or ''))
        if not ok:
            print('F30: a pre-pack index was accepted; the database does not '
                  'show the state a full scan shows')
            return 1
        print('ok')
        return 0
    finally:
        shutil.rmtree(tmp, ignore_errors=True)


if __name__ == '__main__':
    sys.exit(main())
