"""F66 (completes F59): copyTransactionsFrom() whose tpc_begin in the
destination fails AFTER the destination has taken its commit lock -- a
FileStorage rejects over-long transaction metadata in _begin -- leaves the
destination inside the transaction: the next tpc_begin blocks for ever.
(C05: a transaction that does not finish blocks no one.)"""
import os
import shutil
import sys
import tempfile
import threading

from ZODB.Connection import TransactionMetaData
from ZODB.FileStorage import FileStorage
from ZODB.MappingStorage import MappingStorage
from ZODB.tests.MinPO import MinPO
from ZODB.tests.StorageTestBase import zodb_pickle
from ZODB.utils import z64


def run(blobs):
    d = tempfile.mkdtemp()
    try:
        src = MappingStorage()
        t = TransactionMetaData(description='x' * 70000)   # too long for a
        src.tpc_begin(t)                                    # file storage
        src.store(z64, z64, zodb_pickle(MinPO(1)), '', t)
        src.tpc_vote(t)
        src.tpc_finish(t)
        kw = dict(blob_dir=os.path.join(d, 'blobs')) if blobs else {}
        dst = FileStorage(os.path.join(d, 'dst.fs'), **kw)
        try:
            dst.copyTransactionsFrom(src)
        except Exception as e:
            print('copy failed:', type(e).__name__, str(e)[:40])
        done = []

        def later():
            t2 = TransactionMetaData()
            dst.tpc_begin(t2)
            dst.tpc_abort(t2)
            done.append(1)
        th = threading.Thread(target=later, daemon=True)
        th.start()
        th.join(5)
        if not done:
            print('FAIL (%s): the destination still holds its commit lock' %
                  ('blobs' if blobs else 'no blobs'))
        return bool(done)
    finally:
        shutil.rmtree(d, ignore_errors=True)


bad = [b for b in (False, True) if not run(b)]
if bad:
    os._exit(1)
print('ok')
