"""F35 (C01/C04/C09): the open-time scan reports, as the last transaction,
the id of a transaction it did NOT accept: an unfinished (checkpointed or
cut short) transaction at the end of the file, or the first transaction at
or after `stop`.

History: T1, T2 committed; T3 voted but never finished; the file is copied
at that moment (a crash image) and opened -- read-only and writable.

Expected: lastTransaction() is T2's id in both cases.  Exit 1 otherwise.
"""
import os
import shutil
import sys
import tempfile

from ZODB.Connection import TransactionMetaData
from ZODB.FileStorage import FileStorage
from ZODB.utils import p64, z64


def commit(fs, oid, data, finish=True):
    t = TransactionMetaData()
    fs.tpc_begin(t)
    try:
        serial = fs.getTid(oid)
    except Exception:
        serial = z64
    fs.store(oid, serial, data, '', t)
    fs.tpc_vote(t)
    if finish:
        fs.tpc_finish(t)
    return t


def main():
    tmp = tempfile.mkdtemp(prefix='f35')
    try:
        path = os.path.join(tmp, 'Data.fs')
        fs = FileStorage(path)
        commit(fs, p64(1), b'a' * 30)
        commit(fs, p64(1), b'b' * 30)
        t2 = fs.lastTransaction()
        t = commit(fs, p64(1), b'c' * 30, finish=False)
        fs._file.flush()
        image = os.path.join(tmp, 'Crash.fs')
        shutil.copy(path, image)
        fs.tpc_abort(t)
        fs.close()
        bad = []
        ro = FileStorage(image, read_only=True)
        if ro.lastTransaction() != t2:
            bad.append('read-only open: lastTransaction() is %r, the last '
                       'committed transaction is %r' % (
                           ro.lastTransaction(), t2))
        ro.close()
        rw = FileStorage(image)
        if rw.lastTransaction() != t2:
            bad.append('writable open (tail truncated): lastTransaction() '
                       'is %r, not %r' % (rw.lastTransaction(), t2))
        rw.close()
        again = FileStorage(image)
        if not again._used_index:
            bad.append('the index saved by that session is not used by the '
                       'next open')
        again.close()
        for b in bad:
            print('F35:', b)
        if bad:
            return 1
        print('ok')
        return 0
    finally:
        shutil.rmtree(tmp, ignore_errors=True)


if __name__ == '__main__':
    sys.exit(main())
