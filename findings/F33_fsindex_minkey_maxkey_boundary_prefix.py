"""F33 (C19): fsIndex.minKey(key) / maxKey(key) at the boundary prefixes.

minKey: the index contains prefix ff*6 and the query has that prefix with a
suffix larger than every suffix under it: the fallback computes
prefix_plus_one(ff*6), which wraps to 00*6, and the SMALLEST key of the
whole index is returned instead of ValueError (no key >= query).

maxKey: prefix 00*6 is present and the query suffix is smaller than every
suffix under it: prefix_minus_one(00*6) raises struct.error instead of
ValueError (no key <= query).

Expected: ValueError in both cases (as an ordered map does).  Exit 1
otherwise.
"""
import sys

from ZODB.fsIndex import fsIndex
from ZODB.utils import p64


def main():
    bad = []
    idx = fsIndex()
    idx[p64(5)] = 10
    idx[b'\xff' * 6 + b'\0\5'] = 20
    q = b'\xff' * 6 + b'\0\7'
    try:
        r = idx.minKey(q)
        bad.append('minKey(%r) returned %r, smaller than the query' % (q, r))
    except ValueError:
        pass
    except Exception as e:
        bad.append('minKey raised %s' % type(e).__name__)
    idx = fsIndex()
    idx[p64(5)] = 10
    try:
        r = idx.maxKey(p64(1))
        bad.append('maxKey(p64(1)) returned %r' % (r,))
    except ValueError:
        pass
    except Exception as e:
        bad.append('maxKey(p64(1)) raised %s: %s' % (type(e).__name__, e))
    # sanity: ordinary cases still answer
    idx = fsIndex()
    for i in (5, 70000, 2 ** 40):
        idx[p64(i)] = i
    assert idx.minKey(p64(6)) == p64(70000)
    assert idx.maxKey(p64(69999)) == p64(5)
    for b in bad:
        print('F33:', b)
    if bad:
        return 1
    print('ok')
    return 0


if __name__ == '__main__':
    sys.exit(main())
