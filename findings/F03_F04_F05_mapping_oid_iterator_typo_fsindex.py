from ZODB.MappingStorage import MappingStorage
from ZODB.Connection import TransactionMetaData
from ZODB.utils import z64, p64
import zodbpickle.pickle as pk
rec = pk.dumps(dict,3)+pk.dumps({},3)
s = MappingStorage()
t = TransactionMetaData(); s.tpc_begin(t); s.store(p64(5), z64, rec, '', t); s.tpc_vote(t); s.tpc_finish(t)
print("C20 MappingStorage: new_oid after storing oid 5 ->", [s.new_oid() for _ in range(6)])
# F4
from ZODB.FileStorage import FileStorage
from ZODB.FileStorage.FileStorage import FileIterator
fs = FileStorage('d3/Data.fs')
tids=[]
for i in range(3):
    t = TransactionMetaData(); fs.tpc_begin(t); fs.store(p64(i+1), z64, rec, '', t); fs.tpc_vote(t); tids.append(fs.tpc_finish(t))
# begin a 4th and stop mid-vote: simulate by appending a partial header
with open('d3/Data.fs','ab') as f: f.write(b'\x04'*30)
try:
    it = FileIterator('d3/Data.fs', start=tids[1])
    print([x.tid == tids[1] for x in [next(it)]])
except Exception as e:
    print("F4:", type(e).__name__, e)
# F5 fsIndex.minKey with absent prefix
from ZODB.fsIndex import fsIndex
idx = fsIndex()
k = b'\0'*5+b'\x02'+b'\0\x01'
idx[k]=5
q = b'\0'*5+b'\x01'+b'\xff\xff'
try:
    print("minKey:", idx.minKey(q), "expected", k)
except Exception as e:
    print("F5 minKey:", type(e).__name__, e, "expected", k)
idx2 = fsIndex(); k2=b'\0'*5+b'\x02'+b'\xff\xf0'; idx2[k2]=7
q2 = b'\0'*5+b'\x03'+b'\0\0'
try:
    print("maxKey:", idx2.maxKey(q2), "expected", k2)
except Exception as e:
    print("F5 maxKey:", type(e).__name__, e, "expected", k2)
# wrong answer variant: two prefixes
idx3 = fsIndex(); a=b'\0'*5+b'\x02'+b'\0\x01'; b=b'\0'*5+b'\x03'+b'\0\x00'; idx3[a]=1; idx3[b]=2
print("minKey wrong answer:", idx3.minKey(b'\0'*5+b'\x01'+b'\x00\x05'), "expected", a)
