"""F41 (C04/C17): iterating a file storage that contains a transaction with
status 'u' (an undone transaction of an old source, restored with its
status) fails with UnboundLocalError: FileIterator.__next__ builds its
result only for other statuses and then returns it.

Expected: iteration (and a copy) of such a file works; the undone
transaction is skipped, as the open-time scan skips it.  Exit 1 otherwise.
"""
import os
import shutil
import sys
import tempfile

from ZODB.Connection import TransactionMetaData
from ZODB.FileStorage import FileStorage
from ZODB.utils import p64, u64, z64


def main():
    tmp = tempfile.mkdtemp(prefix='f41')
    try:
        fs = FileStorage(os.path.join(tmp, 'Data.fs'))
        t = TransactionMetaData()
        fs.tpc_begin(t)
        fs.store(p64(1), z64, b'x' * 30, '', t)
        fs.tpc_vote(t)
        fs.tpc_finish(t)
        t1 = fs.lastTransaction()
        utid = p64(u64(t1) + 1000)
        t = TransactionMetaData()
        fs.tpc_begin(t, utid, 'u')
        fs.restore(p64(2), utid, b'y' * 30, '', None, t)
        fs.tpc_vote(t)
        fs.tpc_finish(t)
        t = TransactionMetaData()
        fs.tpc_begin(t)
        fs.store(p64(1), fs.getTid(p64(1)), b'z' * 30, '', t)
        fs.tpc_vote(t)
        fs.tpc_finish(t)
        t3 = fs.lastTransaction()
        try:
            tids = [txn.tid for txn in fs.iterator()]
        except Exception as e:
            print('F41: iteration failed: %s: %s' % (type(e).__name__, e))
            return 1
        finally:
            fs.close()
        print('iterated:', [u64(x) - u64(t1) for x in tids])
        if tids != [t1, t3]:
            print('F41: unexpected transactions')
            return 1
        print('ok')
        return 0
    finally:
        shutil.rmtree(tmp, ignore_errors=True)


if __name__ == '__main__':
    sys.exit(main())
