"""F70: after a pack of a demo storage whose changes are a FileStorage, a
reader whose snapshot is older than the pack time silently reads the BASE's
state of an object whose old revision the pack removed from the changes:
the changes answer "nothing before that point", and the demo storage takes
that for "not changed yet, ask the base".  A plain FileStorage makes such a
reader fail with a (retryable) ReadConflictError.  (C08: readers never see a
wrong state because of a pack; an older snapshot may get a conflict error.)"""
import os
import shutil
import sys
import tempfile
import time

import transaction
from persistent.mapping import PersistentMapping

import ZODB
from ZODB.DemoStorage import DemoStorage
from ZODB.FileStorage import FileStorage
from ZODB.POSException import POSKeyError
from ZODB.POSException import ReadConflictError

d = tempfile.mkdtemp()
try:
    base = FileStorage(os.path.join(d, 'base.fs'))
    db = ZODB.DB(base)
    c = db.open()
    c.root()['k'] = PersistentMapping(v=0)
    c.root()['other'] = PersistentMapping(v=0)
    transaction.commit()
    db.close()
    base = FileStorage(os.path.join(d, 'base.fs'), read_only=True)
    demo = DemoStorage(base=base,
                       changes=FileStorage(os.path.join(d, 'changes.fs')))
    db = ZODB.DB(demo)
    tm1, tm2 = transaction.TransactionManager(), \
        transaction.TransactionManager()
    w = db.open(tm1)
    w.root()['k']['v'] = 1
    w.root()['other']['v'] = 1
    tm1.commit()                                  # T1
    r = db.open(tm2)
    assert r.root()['other']['v'] == 1            # reader's snapshot: T1
    w.root()['k']['v'] = 2
    tm1.commit()                                  # T2
    time.sleep(0.01)
    db.pack(time.time())
    try:
        got = r.root()['k']['v']                  # k was not loaded before
    except (ReadConflictError, POSKeyError) as e:
        print('reader with the old snapshot: %s (retryable)' %
              type(e).__name__)
        print('ok')
        sys.exit(0)
    print('reader with the snapshot of T1 reads k == %r (T1 wrote 1; the '
          'base has 0)' % got)
    if got != 1:
        print('FAIL: the base\'s state is served for a revision the pack '
              'removed')
        sys.exit(1)
    print('ok')
finally:
    shutil.rmtree(d, ignore_errors=True)
