"""F29 (C17): the record iterator ends a transaction silently at a damaged
data record, so fsrecover (without -p) outputs a transaction that has only
the records before the damage -- a transaction that is not in the input.

History: T1 creates a, b, c (one transaction, four records with the root).
The header of the third data record of T1 is overwritten with NULs; the
transaction header and both length fields stay intact.

Expected: the recovered file holds T1 in full or not at all.  Exit 1 if it
holds a T1 with fewer records.
"""
import io
import os
import shutil
import sys
import tempfile
from contextlib import redirect_stdout

import transaction

import ZODB
from ZODB import fsrecover
from ZODB.FileStorage import FileStorage
from ZODB.FileStorage.format import DATA_HDR_LEN
from persistent.mapping import PersistentMapping


def records(path):
    fs = FileStorage(path, read_only=True)
    try:
        return [(t.tid, [r.oid for r in t]) for t in fs.iterator()]
    finally:
        fs.close()


def main():
    tmp = tempfile.mkdtemp(prefix='f29')
    try:
        src = os.path.join(tmp, 'Data.fs')
        db = ZODB.DB(FileStorage(src))
        conn = db.open()
        root = conn.root()
        for k in 'abc':
            root[k] = PersistentMapping({'k': k * 50})
        transaction.get().note('T1')
        transaction.commit()
        root['a']['k'] = 'later'
        transaction.get().note('T2')
        transaction.commit()
        db.close()
        before = records(src)
        t1 = before[1]
        assert len(t1[1]) == 4, t1
        # position of the third data record of T1
        fs = FileStorage(src, read_only=True)
        it = fs.iterator()
        next(it)
        txn = next(it)
        recs = list(txn)
        pos3 = recs[2].pos
        fs.close()
        with open(src, 'r+b') as f:
            f.seek(pos3)
            f.write(b'\0' * DATA_HDR_LEN)
        out = os.path.join(tmp, 'Recovered.fs')
        buf = io.StringIO()
        with redirect_stdout(buf):
            fsrecover.recover(src, out, verbose=0, partial=False, force=True)
        after = records(out)
        got = dict(after).get(t1[0])
        print('T1 in the input: %d records; in the output: %s' % (
            len(t1[1]), 'absent' if got is None else '%d records' % len(got)))
        if got is not None and len(got) != len(t1[1]):
            print('F29: recovery produced a transaction that is not in the '
                  'input (records silently dropped, normal status)')
            return 1
        print('ok')
        return 0
    finally:
        shutil.rmtree(tmp, ignore_errors=True)


if __name__ == '__main__':
    sys.exit(main())
