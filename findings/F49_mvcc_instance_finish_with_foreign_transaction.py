"""F49 (C05): MVCCAdapterInstance.tpc_finish() forgets the set of modified
oids BEFORE the storage has accepted the call.  A tpc_finish with a
transaction other than the one being committed is rejected by the storage
(StorageTransactionError) -- but not without effect: the next store() of
the transaction in progress writes its record and then fails with
AttributeError.

Expected: after the rejected call the transaction in progress can go on
(store, vote, finish).  Exit 1 otherwise.
"""
import sys

import ZODB
from ZODB.Connection import TransactionMetaData
from ZODB.MappingStorage import MappingStorage
from ZODB.POSException import StorageTransactionError
from ZODB.utils import p64, z64


def main():
    db = ZODB.DB(MappingStorage())
    inst = db._mvcc_storage.new_instance()
    inst.poll_invalidations()
    t1, t2 = TransactionMetaData(), TransactionMetaData()
    inst.tpc_begin(t1)
    try:
        inst.tpc_finish(t2)
        print('F49: the foreign tpc_finish was not rejected')
        return 1
    except StorageTransactionError:
        pass
    try:
        inst.store(p64(7), z64, b'data', '', t1)
        inst.tpc_vote(t1)
        inst.tpc_finish(t1)
    except Exception as e:
        print('F49: after the rejected call the transaction in progress '
              'fails: %s: %s' % (type(e).__name__, e))
        try:
            inst.tpc_abort(t1)
        except Exception:
            pass
        return 1
    print('ok')
    return 0


if __name__ == '__main__':
    sys.exit(main())
