import os, shutil
shutil.rmtree("d17", ignore_errors=True); os.mkdir("d17")
import transaction, ZODB
from ZODB.FileStorage import FileStorage
from ZODB.DemoStorage import DemoStorage
from persistent.mapping import PersistentMapping as PM
base = FileStorage('d17/base.fs'); db = ZODB.DB(base)
tm = transaction.TransactionManager(); c = db.open(tm); c.root()['o'] = PM(v='base'); tm.commit(); db.close()
base = FileStorage('d17/base.fs', read_only=True)
demo = DemoStorage(base=base, changes=FileStorage('d17/changes.fs'))
db = ZODB.DB(demo); tm = transaction.TransactionManager(); c = db.open(tm)
c.root()['o']['v'] = 'changed'; tm.commit()
print("after change:", c.root()['o']['v'])
db.undo(db.undoLog(0, 1)[0]['id'], tm.get()); tm.commit(); tm.begin()
print("after undo:", c.root()['o']['v'])
try:
    c.root()['o']['v'] = 'again'; tm.commit(); print("write after undo ok:", c.root()['o']['v'])
except Exception as e:
    print("WRITE AFTER UNDO FAILS:", type(e).__name__, str(e)[:150])
