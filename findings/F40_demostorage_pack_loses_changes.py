"""F40 (C16/C07): packing a demo storage that has a populated base (and the
default, temporary changes storage) garbage-collects the changes layer on
its own: the sweep follows a reference into the base, fails with KeyError,
and by then has already moved the objects it visited -- among them the
changed root -- out of the changes.  Committed changes are lost.

History: base with root -> a; DemoStorage(base=base); commit root['b'] = 2,
then root['b'] = 3; pack.

Expected: after the pack (successful or refused) root['b'] == 3 and the
base is untouched.  Exit 1 otherwise.
"""
import sys
import time

import transaction

import ZODB
from ZODB.DemoStorage import DemoStorage
from ZODB.MappingStorage import MappingStorage
from persistent.mapping import PersistentMapping


def main():
    base = MappingStorage()
    db = ZODB.DB(base)
    conn = db.open()
    conn.root()['a'] = PersistentMapping()
    transaction.commit()
    conn.close()
    base_before = [(t.tid, sorted((r.oid, r.data) for r in t))
                   for t in base.iterator()]

    demo = DemoStorage(base=base)
    db2 = ZODB.DB(demo)
    conn = db2.open()
    root = conn.root()
    root['b'] = 2
    transaction.commit()
    root['b'] = 3
    transaction.commit()
    err = None
    try:
        db2.pack(time.time() + 1)
    except Exception as e:
        err = '%s: %s' % (type(e).__name__, e)
    conn.cacheMinimize()
    conn.sync()
    got = dict(conn.root())
    base_after = [(t.tid, sorted((r.oid, r.data) for r in t))
                  for t in base.iterator()]
    print('pack: %s; root after the pack: %s' % (err or 'done',
                                                 sorted(got)))
    bad = []
    if got.get('b') != 3:
        bad.append('the committed change root[\'b\'] = 3 is gone')
    if 'a' not in got:
        bad.append('root[\'a\'] is gone')
    if base_before != base_after:
        bad.append('the base changed')
    for b in bad:
        print('F40:', b)
    return 1 if bad else (print('ok') or 0)


if __name__ == '__main__':
    sys.exit(main())
