"""F76 (refines F70): after a pack of a demo storage at time P, the FIRST
change of a base object made later than P made every historical read of that
object at a point not later than P answer "nothing": the guard that keeps a
reader from being served the base's state for a revision the pack removed
could not tell that case from an object the pack never touched.  (C15/C16: a
historical read gives the state at the chosen point -- here the base's
revision, valid until the first change.)"""
import os
import shutil
import sys
import tempfile
import time

import transaction
from persistent.mapping import PersistentMapping

import ZODB
from ZODB.DemoStorage import DemoStorage
from ZODB.FileStorage import FileStorage

d = tempfile.mkdtemp()
try:
    base = FileStorage(os.path.join(d, 'base.fs'))
    db = ZODB.DB(base)
    c = db.open()
    c.root()['o'] = PersistentMapping(v=0)
    c.root()['p'] = PersistentMapping(v=0)
    transaction.commit()
    db.close()
    base = FileStorage(os.path.join(d, 'base.fs'), read_only=True)
    demo = DemoStorage(base=base,
                       changes=FileStorage(os.path.join(d, 'changes.fs')))
    db = ZODB.DB(demo)
    c = db.open()
    c.root()['p']['v'] = 1
    transaction.commit()
    c.root()['p']['v'] = 2
    transaction.commit()
    time.sleep(0.01)
    point = demo.lastTransaction()         # a historical point before the pack
    db.pack(time.time())
    time.sleep(0.01)
    c.root()['o']['v'] = 5                 # first change of `o`: after the pack
    transaction.commit()
    h = db.open(at=point)
    try:
        got = h.root()['o']['v']
    except Exception as e:
        got = '%s: %s' % (type(e).__name__, str(e)[:50])
    print('historical read of `o` at a point before the pack: %r' % (got,))
    if got != 0:
        print('FAIL: the base\'s revision (v == 0, valid until the first '
              'change) is not served')
        sys.exit(1)
    print('ok')
finally:
    shutil.rmtree(d, ignore_errors=True)
