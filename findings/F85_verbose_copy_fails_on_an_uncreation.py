"""F85: ZODB.BaseStorage.copy(source, dest, verbose=1) -- the function behind
BaseStorage.copyTransactionsFrom(other, verbose=1) -- fails on the first
un-creation record of the source: the progress line printed len(r.data), and
the record of an un-creation (the undo of an object's creation, a
deleteObject) has no data.  The copy stops after a prefix with TypeError.
(C17: copying reproduces ... records, un-creations ...)  Reported by the C17
seeding agent of round 10."""
import io
import os
import shutil
import sys
import tempfile
from contextlib import redirect_stdout

import transaction

import ZODB
from ZODB.BaseStorage import copy
from ZODB.FileStorage import FileStorage
from persistent.mapping import PersistentMapping

d = tempfile.mkdtemp()
try:
    src = FileStorage(os.path.join(d, 's.fs'))
    db = ZODB.DB(src)
    c = db.open()
    c.root()['a'] = 1
    transaction.commit()
    c.root()['m'] = PersistentMapping()
    transaction.commit()
    db.undo(db.undoLog(0, 1)[0]['id'])      # un-creates the mapping
    transaction.commit()
    c.root()['b'] = 2
    transaction.commit()
    n = len(list(src.iterator()))
    dst = FileStorage(os.path.join(d, 'd.fs'))
    try:
        with redirect_stdout(io.StringIO()):
            copy(src, dst, verbose=1)
    except TypeError as e:
        print('the verbose copy failed: TypeError: %s' % e)
    m = len(list(dst.iterator()))
    print('%d transactions in the source, %d in the copy' % (n, m))
    db.close()
    dst.close()
    if m != n:
        print('F85: the copy stopped at the un-creation')
        sys.exit(1)
finally:
    shutil.rmtree(d)
