"""F55: pack treats the records of an undone transaction (status 'u', as
copied from an old database with tpc_begin(t, tid, 'u')) as current.
Before the pack time the packer's index takes the undone record for the
object's current one and copies it as packed: the pack changes the object's
state.  After the pack time copyOne enters the records in the new index
although neither the running storage nor the open-time scan index them.
(C07: packing never changes what is observable.)"""
import os
import shutil
import sys
import tempfile
import time

from ZODB.Connection import TransactionMetaData
from ZODB.FileStorage import FileStorage
from ZODB.serialize import referencesf
from ZODB.tests.MinPO import MinPO
from ZODB.tests.StorageTestBase import zodb_pickle, zodb_unpickle
from ZODB.utils import z64


def commit(fs, stores, status=' '):
    t = TransactionMetaData()
    fs.tpc_begin(t, None, status)
    for oid, serial, v in stores:
        fs.store(oid, serial, zodb_pickle(MinPO(v)), '', t)
    fs.tpc_vote(t)
    return fs.tpc_finish(t)


def value(fs, oid):
    return zodb_unpickle(fs.load(oid, '')[0]).value


def run(undone_before_pack_time):
    d = tempfile.mkdtemp()
    try:
        p = os.path.join(d, 'Data.fs')
        fs = FileStorage(p)
        A = fs.new_oid()
        G = fs.new_oid()
        t0 = commit(fs, [(G, z64, 'g0')])
        t1 = commit(fs, [(A, z64, 'a1'), (G, t0, 'g1')])   # g0: for the pack
        if not undone_before_pack_time:
            time.sleep(0.01)
            packtime = time.time()
            time.sleep(0.01)
        commit(fs, [(A, t1, 'a2-undone')], status='u')
        if undone_before_pack_time:
            time.sleep(0.01)
            packtime = time.time()
            time.sleep(0.01)
        B = fs.new_oid()
        commit(fs, [(B, z64, 'b1')])
        before = value(fs, A)
        fs.pack(packtime, referencesf, gc=False)
        after = value(fs, A)
        fs.close()
        fs = FileStorage(p, read_only=True)         # index saved by the pack
        reopened = value(fs, A)
        fs.close()
        os.remove(p + '.index')
        fs = FileStorage(p, read_only=True)
        scanned = value(fs, A)
        fs.close()
        return before, after, reopened, scanned
    finally:
        shutil.rmtree(d, ignore_errors=True)


bad = 0
for flag in (True, False):
    r = run(flag)
    print('undone transaction %s the pack time: A before pack %r, after %r, '
          'reopened with the index %r, scanned %r' % (
              ('before' if flag else 'after',) + r))
    if len(set(r)) != 1:
        bad += 1
if bad:
    print('FAIL: the pack changed the state of A')
    sys.exit(1)
print('ok')
