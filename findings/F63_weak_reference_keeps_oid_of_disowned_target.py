"""F63: a weak reference to an object that is new in a transaction keeps the
oid the writer gave that object even when the transaction is aborted and the
object disowned.  When both are added again and committed, the object gets a
fresh oid while the weak reference is stored with the dead one: it is
dangling for every other connection (and after a restart), although it
resolves in the connection that wrote it.  (C14: object graphs round-trip;
C11: an object that was new in an aborted transaction can be added again
later.)"""
import sys

import transaction
from persistent.mapping import PersistentMapping as PM
from persistent.wref import WeakRef

import ZODB
from ZODB.MappingStorage import MappingStorage

db = ZODB.DB(MappingStorage())
tm = transaction.TransactionManager()
c = db.open(tm)
root = c.root()
t = PM(name='target')
w = WeakRef(t)
root['t'] = t
root['w'] = w
tm.savepoint()          # the writer gives t an oid and w remembers it
tm.abort()              # t is disowned ...
assert t._p_oid is None and t._p_jar is None
root['t'] = t           # ... and added again, together with w
root['w'] = w
tm.commit()
here = root['w']()
tm2 = transaction.TransactionManager()
c2 = db.open(tm2)
there = c2.root()['w']()
print('in the writing connection the weak reference gives: %r' % (here,))
print('in another connection it gives                    : %r' % (there,))
print('oid of the target %r, oid stored in the weak reference %r' % (
    t._p_oid, w.oid))
if there is None or there._p_oid != t._p_oid:
    print('FAIL: the weak reference was stored with a dead oid')
    sys.exit(1)
print('ok')
