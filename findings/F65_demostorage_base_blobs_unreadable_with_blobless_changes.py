"""F65: a demo storage with an explicit changes storage that has no blob
support (a MappingStorage, a FileStorage without blob directory) cannot read
the blobs of its base: loadBlob / openCommittedBlobFile raise AttributeError
(the changes storage has no such method) instead of reading from the base.
(C16: a demo storage reads as changes-over-base.)"""
import os
import shutil
import sys
import tempfile

import transaction

import ZODB
from ZODB.blob import Blob
from ZODB.DemoStorage import DemoStorage
from ZODB.FileStorage import FileStorage
from ZODB.MappingStorage import MappingStorage

d = tempfile.mkdtemp()
try:
    p = os.path.join(d, 'Data.fs')
    db = ZODB.DB(FileStorage(p, blob_dir=os.path.join(d, 'blobs')))
    c = db.open()
    c.root()['b'] = Blob(b'blob bytes of the base')
    transaction.commit()
    db.close()
    base = FileStorage(p, blob_dir=os.path.join(d, 'blobs'), read_only=True)
    bad = 0
    for name, changes in (('MappingStorage', MappingStorage()),
                          ('FileStorage without blob_dir',
                           FileStorage(os.path.join(d, 'changes.fs')))):
        demo = DemoStorage(base=base, changes=changes)
        db = ZODB.DB(demo)
        c = db.open()
        try:
            with c.root()['b'].open() as f:
                got = f.read()
            ok = got == b'blob bytes of the base'
            what = repr(got)
        except Exception as e:
            ok = False
            what = '%s: %s' % (type(e).__name__, e)
        print('changes = %s: %s' % (name, what))
        bad += not ok
        c.close()
        changes.close()
    base.close()
    if bad:
        print('FAIL: the blob of the base cannot be read through the demo '
              'storage')
        sys.exit(1)
    print('ok')
finally:
    shutil.rmtree(d, ignore_errors=True)
