"""F50 (C08/C02): FilePool.get() gives its file back in two steps outside
the pool's condition: it takes the file off the list of checked-out files
and THEN appends it to the list of pooled files.  A pack whose write side
was waiting for readers proceeds in between (no file is out), empties the
pool, swaps the data file -- and the reader then pools its handle, which is
open on the OLD file.  Later loads read the old file at new offsets.

Schedule (forced with a list subclass, no sleeps): reader R finishes a
load(); between the two steps the pack runs to completion; R continues;
then every object is loaded.

Expected: all loads return the committed data.  Exit 1 otherwise.
"""
import os
import shutil
import sys
import tempfile
import threading
import time

import transaction

import ZODB
from ZODB.FileStorage import FileStorage
from ZODB.utils import p64
from persistent.mapping import PersistentMapping

TIMEOUT = 20


class OutList(list):
    hook = None

    def remove(self, x):
        list.remove(self, x)
        if OutList.hook is not None:
            h, OutList.hook = OutList.hook, None
            h()


def main():
    tmp = tempfile.mkdtemp(prefix='f50')
    try:
        fs = FileStorage(os.path.join(tmp, 'Data.fs'))
        db = ZODB.DB(fs)
        conn = db.open()
        root = conn.root()
        for i in range(20):
            root['o%d' % i] = PersistentMapping({'v': 'x' * 100 + str(i)})
            transaction.commit()
        for i in range(20):                  # garbage for the pack to drop
            root['o%d' % i]['w'] = i
            transaction.commit()
        expected = {}
        for i in range(20):
            oid = root['o%d' % i]._p_oid
            expected[oid] = fs.load(oid)[0]
        fs._files._out = OutList(fs._files._out)
        reader_between = threading.Event()
        pack_done = threading.Event()
        errors = []

        def between():
            # give the pack the chance to run inside the window (with the
            # window closed it cannot: it then runs afterwards)
            reader_between.set()
            pack_done.wait(2)

        def reader():
            OutList.hook = between
            fs.load(p64(0))

        def packer():
            if not reader_between.wait(TIMEOUT):
                errors.append('reader did not reach the window')
            try:
                db.pack(time.time())
            except Exception as e:
                errors.append('pack: %s: %s' % (type(e).__name__, e))
            pack_done.set()

        ts = [threading.Thread(target=reader), threading.Thread(
            target=packer)]
        for t in ts:
            t.start()
        for t in ts:
            t.join(3 * TIMEOUT)
        bad = []
        for oid, want in expected.items():
            for attempt in range(3):        # go through every pooled handle
                try:
                    got = fs.load(oid)[0]
                except Exception as e:
                    got = '%s: %s' % (type(e).__name__, str(e)[:50])
                if got != want:
                    bad.append((oid, got if isinstance(got, str) else
                                'wrong data'))
                    break
        db.close()
        if errors:
            print('DEMO ERROR', errors)
            return 2
        if bad:
            print('F50: %d of %d objects load wrongly after the pack, e.g. '
                  '%s' % (len(bad), len(expected), bad[0][1]))
            return 1
        print('ok')
        return 0
    finally:
        shutil.rmtree(tmp, ignore_errors=True)


if __name__ == '__main__':
    sys.exit(main())
