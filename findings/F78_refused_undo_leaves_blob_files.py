"""F78: an undo that is refused is not a no-op for the blob directory.
FileStorage._txn_undo_write copied the blob file of each record as it came to
it, *before* it knew whether a later record of the same transaction makes the
whole undo fail (MultipleUndoErrors).  In a storage transaction that goes on
after the refusal (the storage API allows it: the refusal is an exception of
one call) the copies stay:

 (a) a stray blob file without a record;
 (b) with an earlier, successful undo of the same storage transaction that
     touched the same blob: the refused undo has renamed ITS copy over the
     file of the first -- the committed record says one thing, the blob file
     another.

(C06: an undo restores the state or changes nothing; C13: blob data follows
its object record.)  Reported by the C13 seeding agent of round 9."""
import base64
import os
import shutil
import sys
import tempfile

import transaction

import ZODB
from ZODB.blob import Blob
from ZODB.Connection import TransactionMetaData
from ZODB.FileStorage import FileStorage
from ZODB.POSException import UndoError

d = tempfile.mkdtemp()
try:
    st = FileStorage(os.path.join(d, 'd.fs'), blob_dir=os.path.join(d, 'b'))
    db = ZODB.DB(st)
    tm = transaction.TransactionManager()
    c = db.open(tm)
    r = c.root()

    def commit():
        tm.commit()
        return st.lastTransaction()

    r['x'] = Blob(b'A')
    r['z'] = Blob(b'p')
    commit()
    with r['x'].open('w') as f:
        f.write(b'B')
    with r['z'].open('w') as f:
        f.write(b'q')
    t2 = commit()
    with r['x'].open('w') as f:
        f.write(b'C')
    t3 = commit()
    with r['z'].open('w') as f:
        f.write(b'r')
    commit()

    t = TransactionMetaData()
    st.tpc_begin(t)
    st.undo(base64.encodebytes(t3).rstrip(), t)        # x: C -> B
    try:
        st.undo(base64.encodebytes(t2).rstrip(), t)    # refused: z changed
    except UndoError:
        pass
    else:
        print('second undo was not refused: history is not the intended one')
        sys.exit(2)
    st.tpc_vote(t)
    st.tpc_finish(t)
    c2 = db.open(transaction.TransactionManager())
    got = c2.root()['x'].open().read()
    print('x reads %r (its record: the state of T2, b\'B\')' % got)
    db.close()
    if got != b'B':
        print('F78: the refused undo replaced the blob file of the '
              'successful one')
        sys.exit(1)
finally:
    shutil.rmtree(d)
