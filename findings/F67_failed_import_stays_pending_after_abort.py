"""F67: an import that fails (a truncated export file) stays pending in the
connection when the transaction is aborted: Connection.abort() does not
forget it (tpc_abort() does).  The NEXT, unrelated transaction runs the stale
import again at its commit and fails with the import's error.  (C11: after an
abort a connection keeps no uncommitted state; C05: a transaction that does
not finish leaves no trace.)"""
import io
import logging
import sys

import transaction
from persistent.mapping import PersistentMapping

import ZODB
from ZODB.ExportImport import ExportError
from ZODB.MappingStorage import MappingStorage

logging.disable(logging.CRITICAL)     # (the transaction package logs the failed savepoint)
db = ZODB.DB(MappingStorage())
tm = transaction.TransactionManager()
c = db.open(tm)
c.root()['a'] = PersistentMapping(x=1)
tm.commit()
f = io.BytesIO()
c.exportFile(c.root()['a']._p_oid, f)
cut = io.BytesIO(f.getvalue()[:len(f.getvalue()) - 12])   # a torn export file
try:
    c.importFile(cut)
except ExportError as e:
    print('import failed as expected:', e)
else:
    print('import of a truncated file succeeded?')
    sys.exit(2)
tm.abort()
c.root()['b'] = 1                      # an unrelated transaction
try:
    tm.commit()
except ExportError as e:
    print('FAIL: the next transaction\'s commit ran the failed import '
          'again: ExportError: %s' % e)
    sys.exit(1)
print('ok')
