"""F72: closing the primary connection of a multi-database group while only a
SECONDARY connection is joined to the transaction is refused -- but only
after the primary has run its close callbacks, left its transaction manager
and dropped it: the refusal (ConnectionStateError) leaves the primary half
closed and unusable.  (C11: a connection can be closed only outside a
transaction; a refused close must change nothing.)"""
import sys

import transaction

import ZODB
from ZODB.MappingStorage import MappingStorage
from ZODB.POSException import ConnectionStateError

dbs = {}
db1 = ZODB.DB(MappingStorage('1'), databases=dbs, database_name='one')
db2 = ZODB.DB(MappingStorage('2'), databases=dbs, database_name='two')
tm = transaction.TransactionManager()
c1 = db1.open(tm)
c2 = c1.get_connection('two')
c2.root()['x'] = 1                      # only the secondary joins
called = []
c1.onCloseCallback(lambda: called.append(1))
try:
    c1.close()
except ConnectionStateError as e:
    print('close refused:', e)
else:
    print('close of a group with a joined connection was accepted')
    sys.exit(2)
problems = []
if called:
    problems.append('the close callbacks have run')
if c1.transaction_manager is None:
    problems.append('the primary has lost its transaction manager')
try:
    tm.commit()
    c1.root()['y'] = 2                  # the primary is still a connection
    tm.commit()
except Exception as e:
    problems.append('the primary is unusable: %s: %s' % (
        type(e).__name__, e))
if problems:
    print('FAIL: the refused close left its mark: ' + '; '.join(problems))
    sys.exit(1)
c1.close()
print('ok')
