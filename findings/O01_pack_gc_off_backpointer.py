import os, shutil, sys, time
shutil.rmtree("d13", ignore_errors=True); os.mkdir("d13")
import transaction, ZODB
from ZODB.FileStorage import FileStorage
from persistent.mapping import PersistentMapping as PM
gc = sys.argv[1] == '1'
fs = FileStorage('d13/Data.fs', pack_gc=gc); db = ZODB.DB(fs)
tm = transaction.TransactionManager(); c = db.open(tm)
c.root()['x'] = PM(); tm.commit()
c.root()['x']['v'] = 'A'; tm.commit()
c.root()['x']['v'] = 'B'; tm.commit()
time.sleep(0.01); T = time.time(); time.sleep(0.01)
db.undo(db.undoLog(0,1)[0]['id'], tm.get()); tm.commit()
tm.begin()
print("before pack v =", c.root()['x']['v'])
try:
    db.pack(T)
    print("pack ok")
except Exception as e:
    print("PACK FAILS:", type(e).__name__, e)
c2 = db.open(transaction.TransactionManager()); print("after pack v =", c2.root()['x']['v'])
fs.close(); fs = FileStorage('d13/Data.fs'); db = ZODB.DB(fs); c3 = db.open(transaction.TransactionManager()); print("after reopen v =", c3.root()['x']['v'])
