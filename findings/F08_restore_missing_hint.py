import os, shutil
shutil.rmtree("d8", ignore_errors=True); os.mkdir("d8")
import transaction, ZODB
from ZODB.FileStorage import FileStorage
from ZODB.FileStorage.FileStorage import FileIterator
from persistent.mapping import PersistentMapping as PM
src = FileStorage('d8/src.fs'); db = ZODB.DB(src)
tm = transaction.TransactionManager(); c = db.open(tm)
c.root()['o'] = PM(); tm.commit()
c.root()['o']['a'] = 1; tm.commit()
tid2 = src.lastTransaction()
c.root()['o']['a'] = 2; tm.commit()
tid3 = src.lastTransaction()
db.undo(db.undoLog(0,1)[0]['id'], tm.get()); tm.commit()   # undo tid3 -> backpointer to tid2 record
tids = [t.tid for t in src.iterator()]
print(len(tids), "txns")
# copy only the range starting at tid3 into a fresh storage
dst = FileStorage('d8/dst.fs')
try:
    dst.copyTransactionsFrom(FileIterator('d8/src.fs', start=tid3))
    print("range copy ok; dst txns:", len(list(dst.iterator())))
except Exception as e:
    print("RANGE COPY FAILS:", type(e).__name__, e)
