import transaction, ZODB
from ZODB.MappingStorage import MappingStorage
from ZODB.POSException import ConflictError
from persistent import Persistent
class P(Persistent): pass
db = ZODB.DB(MappingStorage())
tm = transaction.TransactionManager(); conn = db.open(tm)
conn.root()['a'] = P(); tm.commit()
# concurrent writer
tm2 = transaction.TransactionManager(); c2 = db.open(tm2)
a1 = conn.root()['a']; a2 = c2.root()['a']
new = P(); new.v = 42          # created once, reused on retry
a1.child = new
a2.other = 1; tm2.commit()     # makes a1's commit conflict
try:
    tm.commit()
except ConflictError as e:
    print("commit failed: ConflictError"); tm.abort()
print("after failed commit: new owned by conn:", new._p_jar is conn, "oid:", new._p_oid)
a1.child = new                  # retry with the same new object
tm.commit(); print("retry commit ok")
c3 = db.open(transaction.TransactionManager())
try:
    print("other connection reads child.v:", c3.root()['a'].child.v)
except Exception as e:
    print("OTHER CONNECTION FAILS:", type(e).__name__, e)
