import os, shutil
shutil.rmtree("d15", ignore_errors=True); os.mkdir("d15")
import transaction, ZODB
from ZODB.FileStorage import FileStorage
from ZODB.blob import Blob
fs = FileStorage('d15/Data.fs', blob_dir='d15/blobs'); db = ZODB.DB(fs)
tm = transaction.TransactionManager(); c = db.open(tm); c.root()['b'] = Blob(b'x'); tm.commit(); db.close()
shutil.rmtree('d15/blobs/tmp')   # e.g. an operator cleaned the temp area; committed blobs untouched
def snap():
    out = []
    for p, d, f in os.walk('d15'):
        out += [os.path.join(p, x) for x in d + f]
    return sorted(out)
before = snap()
ro = FileStorage('d15/Data.fs', read_only=True, blob_dir='d15/blobs'); ro.close()
after = snap()
print("created by read-only open:", sorted(set(after) - set(before)))
ro2 = FileStorage('d15/Data.fs', read_only=True, blob_dir='d15/other_blobs'); ro2.close()
print("created by read-only open with absent blob dir:", sorted(set(snap()) - set(after)))
