"""F75: the undo log and undo() do not see a database's first transaction when
it is as short as a transaction can be (no records and fewer than 4 bytes of
user, description and extension: 31 bytes, ending at position 35):
UndoSearch.finished() gives up below position 39, _txn_find() stops walking
back there.  iterator() reports the transaction; undoLog() never does,
however many transactions follow, and undo() of its id says "Invalid
transaction id".  (C06: for all choices of the transaction to undo; C04: the
storage answers from the committed history.)"""
import os
import shutil
import sys
import tempfile
from base64 import encodebytes

from ZODB.Connection import TransactionMetaData
from ZODB.FileStorage import FileStorage
from ZODB.POSException import UndoError
from ZODB.tests.MinPO import MinPO
from ZODB.tests.StorageTestBase import zodb_pickle
from ZODB.utils import z64

d = tempfile.mkdtemp()
try:
    fs = FileStorage(os.path.join(d, 'Data.fs'))
    t = TransactionMetaData()
    fs.tpc_begin(t)                      # the first transaction: empty
    fs.tpc_vote(t)
    first = fs.tpc_finish(t)
    t = TransactionMetaData(description='second')
    fs.tpc_begin(t)
    fs.store(fs.new_oid(), z64, zodb_pickle(MinPO(1)), '', t)
    fs.tpc_vote(t)
    fs.tpc_finish(t)
    iterated = [x.tid for x in fs.iterator()]
    logged = [e['id'] for e in fs.undoLog(0, 10)]
    print('iterator(): %d transactions; undoLog(): %d entries' % (
        len(iterated), len(logged)))
    ok = encodebytes(first).rstrip() in logged
    t = TransactionMetaData()
    fs.tpc_begin(t)
    try:
        fs.undo(encodebytes(first).rstrip(), t)
        print('undo of the first transaction: accepted (nothing to undo)')
    except UndoError as e:
        print('undo of the first transaction: UndoError: %s' % e)
        ok = False
    fs.tpc_abort(t)
    fs.close()
    if not ok:
        print('FAIL: the first transaction is invisible to the undo log')
        sys.exit(1)
    print('ok')
finally:
    shutil.rmtree(d, ignore_errors=True)
