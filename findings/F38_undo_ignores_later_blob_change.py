"""F38 (C06/C13): undo does not notice a later change of a blob.  All
records of a blob object hold the same pickle (the bytes live in the blob
files), so "is the current data equal to the data being undone?" is always
yes, and undoing an earlier transaction silently discards later ones.

History: T1 blob = 'one', T2 'two', T3 'three'; undo T2.

Expected: UndoError and nothing changed (the blob still reads 'three').
Exit 1 if the undo goes through.
"""
import os
import shutil
import sys
import tempfile

import transaction

import ZODB
from ZODB.blob import Blob
from ZODB.FileStorage import FileStorage
from ZODB.POSException import UndoError


def main():
    tmp = tempfile.mkdtemp(prefix='f38')
    try:
        fs = FileStorage(os.path.join(tmp, 'Data.fs'),
                         blob_dir=os.path.join(tmp, 'blobs'))
        db = ZODB.DB(fs)
        conn = db.open()
        root = conn.root()
        root['b'] = Blob(b'one')
        transaction.get().note('T1')
        transaction.commit()
        for data, note in ((b'two', 'T2'), (b'three', 'T3')):
            with root['b'].open('w') as f:
                f.write(data)
            transaction.get().note(note)
            transaction.commit()
        tid = [d['id'] for d in db.undoLog(0, 9) if d['description'] == 'T2']
        refused = False
        try:
            db.undo(tid[0])
            transaction.commit()
        except UndoError:
            refused = True
            transaction.abort()
        conn.sync()
        with root['b'].open() as f:
            now = f.read()
        print('undo of T2 refused: %s; the blob reads %r' % (refused, now))
        # an undo that IS possible still works: undo T3, then T2
        ok2 = True
        if refused:
            for note in ('T3', 'T2'):
                tid = [d['id'] for d in db.undoLog(0, 9)
                       if d['description'] == note]
                db.undo(tid[0])
                transaction.commit()
            conn.sync()
            with root['b'].open() as f:
                ok2 = f.read() == b'one'
            print('undo of T3 then T2 gives %r' % (b'one' if ok2 else b'?'))
        db.close()
        if not refused or now != b'three' or not ok2:
            print('F38: T3\'s change of the blob was silently discarded')
            return 1
        print('ok')
        return 0
    finally:
        shutil.rmtree(tmp, ignore_errors=True)


if __name__ == '__main__':
    sys.exit(main())
