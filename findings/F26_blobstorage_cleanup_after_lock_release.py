"""F26 (C13.R9): the blob wrapper storage (BlobStorage over a storage without
blob support) cleans up its list of dirty blob files AFTER the wrapped
storage's tpc_abort / tpc_finish has released the commit lock.  A second
thread that was waiting in tpc_begin can store a blob in between; the first
thread's cleanup then

  * (abort)  removes the SECOND transaction's blob file: it commits a blob
             record without a file -- the blob is lost;
  * (finish) forgets the second transaction's entry: if that one aborts, its
             file stays in the blob directory for ever.

The schedule is forced with events (no sleeps decide the outcome).
Run in an empty scratch directory."""
import os
import threading

import transaction

import ZODB.blob
import ZODB.MappingStorage
import ZODB.utils
from ZODB.Connection import TransactionMetaData as TMD  # noqa

base = ZODB.MappingStorage.MappingStorage()
os.mkdir('blobs')
bs = ZODB.blob.BlobStorage('blobs', base)


def blobfile(name, data):
    with open(name, 'wb') as f:
        f.write(data)
    return os.path.abspath(name)


record = (b'cZODB.blob\nBlob\nq\x01.N.')      # pickle of a Blob record
oid1 = bs.new_oid()
oid2 = bs.new_oid()

t1 = transaction.TransactionManager().begin()
t2 = transaction.TransactionManager().begin()
m1, m2 = TMD(), TMD()

# T1: begin + storeBlob, then abort ...
bs.tpc_begin(m1)
bs.storeBlob(oid1, ZODB.utils.z64, record, blobfile('b1', b'one'), '', m1)

t2_stored = threading.Event()
t1_may_clean = threading.Event()
orig_abort = base.tpc_abort


def slow_abort(txn):
    orig_abort(txn)               # releases the commit lock
    if txn is m1:
        # ... and right here, before the wrapper's blob cleanup, T2 runs
        t2_stored.wait(10)


base.tpc_abort = slow_abort


def second():
    bs.tpc_begin(m2)              # blocks until T1's abort released the lock
    bs.storeBlob(oid2, ZODB.utils.z64, record, blobfile('b2', b'two'), '', m2)
    t2_stored.set()
    t1_may_clean.wait(10)         # let T1 finish its cleanup
    bs.tpc_vote(m2)
    bs.tpc_finish(m2)


th = threading.Thread(target=second)
th.start()
bs.tpc_abort(m1)                  # wrapped abort, T2 stores, THEN blob cleanup
t1_may_clean.set()
th.join(20)

tid = base.lastTransaction()
path = bs.fshelper.getBlobFilename(oid2, tid)
print('T2 committed', ZODB.utils.tid_repr(tid), 'blob file exists:',
      os.path.exists(path))
if not os.path.exists(path):
    print('DEFECT: the committed blob revision has no file (removed by the '
          'cleanup of the OTHER, aborted transaction)')
    raise SystemExit(1)
print('OK')
