"""F39 (C17): a MappingStorage cannot be the source of a copy: the records
its iterator yields lack `extension_bytes`, which the destination's
tpc_begin reads (IStorageTransactionMetaData).

Expected: copyTransactionsFrom(MappingStorage) reproduces the history.
Exit 1 otherwise.
"""
import os
import shutil
import sys
import tempfile

import transaction

import ZODB
from ZODB.FileStorage import FileStorage
from ZODB.MappingStorage import MappingStorage


def main():
    tmp = tempfile.mkdtemp(prefix='f39')
    try:
        ms = MappingStorage()
        db = ZODB.DB(ms)
        conn = db.open()
        conn.root()['a'] = 1
        transaction.get().note('hello')
        transaction.get().setExtendedInfo('k', 'v')
        transaction.commit()
        fs = FileStorage(os.path.join(tmp, 'copy.fs'))
        try:
            fs.copyTransactionsFrom(ms)
        except Exception as e:
            print('F39: copy failed: %s: %s' % (type(e).__name__, e))
            return 1
        src = [(t.tid, t.user, t.description, t.extension,
                sorted((r.oid, r.data) for r in t)) for t in ms.iterator()]
        dst = [(t.tid, t.user, t.description, t.extension,
                sorted((r.oid, r.data) for r in t)) for t in fs.iterator()]
        fs.close()
        if src != dst:
            print('F39: histories differ')
            return 1
        print('ok')
        return 0
    finally:
        shutil.rmtree(tmp, ignore_errors=True)


if __name__ == '__main__':
    sys.exit(main())
