"""F54: a failed FileStorage.undo() leaves the undo records it had already
written in the transaction buffer.  If the caller catches the UndoError and
goes on with the same transaction, those records are committed to the file
although they are not in the index: the running storage (and an open with
the saved index) shows the object, a scan of the data file shows it
un-created.  (C06: "the undo fails with an undo error and nothing is
changed".)"""
import os
import shutil
import sys
import tempfile
from base64 import encodebytes

from ZODB.Connection import TransactionMetaData
from ZODB.FileStorage import FileStorage
from ZODB.POSException import POSKeyError, UndoError
from ZODB.tests.MinPO import MinPO
from ZODB.tests.StorageTestBase import zodb_pickle
from ZODB.utils import z64


def commit(fs, stores):
    t = TransactionMetaData()
    fs.tpc_begin(t)
    for oid, serial, v in stores:
        fs.store(oid, serial, zodb_pickle(MinPO(v)), '', t)
    fs.tpc_vote(t)
    return fs.tpc_finish(t)


def alive(fs, oid):
    try:
        fs.load(oid, '')
        return True
    except POSKeyError:
        return False


d = tempfile.mkdtemp()
try:
    p = os.path.join(d, 'Data.fs')
    fs = FileStorage(p)
    A, B, C = fs.new_oid(), fs.new_oid(), fs.new_oid()
    t1 = commit(fs, [(A, z64, 'a1'), (B, z64, 'b1')])   # creates A and B
    t2 = commit(fs, [(B, t1, 'b2')])                    # changes B
    t = TransactionMetaData()
    fs.tpc_begin(t)
    try:
        fs.undo(encodebytes(t1).rstrip(), t)            # B cannot be un-created
    except UndoError as e:
        print('undo refused:', type(e).__name__)
    else:
        print('undo unexpectedly succeeded')
        sys.exit(2)
    fs.store(C, z64, zodb_pickle(MinPO('c1')), '', t)   # same transaction goes on
    fs.tpc_vote(t)
    fs.tpc_finish(t)
    running = alive(fs, A)
    fs.close()
    os.remove(p + '.index')
    fs = FileStorage(p, read_only=True)                 # full scan
    scanned = alive(fs, A)
    fs.close()
    print('A exists -- running storage: %s, scan of the data file: %s' % (
        running, scanned))
    if running != scanned or not scanned:
        print('FAIL: the refused undo left an un-creation record of A in '
              'the committed transaction')
        sys.exit(1)
    print('ok')
finally:
    shutil.rmtree(d, ignore_errors=True)
