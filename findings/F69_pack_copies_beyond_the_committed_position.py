"""F69: pack copies what lies in the data file BEYOND the committed end.  A
transaction that was voted and never finished can leave its (complete,
checkpoint-flagged) record there -- its finish failed in the caller's
callback, or the clean-up of its abort failed before the truncate.  The
packer, once it holds the commit lock, took the physical end of the file for
the end of the data: it copied that record and entered it in the index of the
packed file.  The never-committed revision becomes the object's current
state; a reopen without the index truncates the file at that record and
loses everything committed after the pack.  (C07: a pack changes nothing
observable; C01: every transaction whose commit returned is present.)"""
import os
import shutil
import sys
import tempfile
import time

from ZODB.Connection import TransactionMetaData
from ZODB.FileStorage import FileStorage
from ZODB.serialize import referencesf
from ZODB.tests.MinPO import MinPO
from ZODB.tests.StorageTestBase import zodb_pickle, zodb_unpickle
from ZODB.utils import z64


def commit(fs, stores, f=None):
    t = TransactionMetaData()
    fs.tpc_begin(t)
    for oid, serial, v in stores:
        fs.store(oid, serial, zodb_pickle(MinPO(v)), '', t)
    fs.tpc_vote(t)
    try:
        return fs.tpc_finish(t, f)
    except RuntimeError:
        fs.tpc_abort(t)
        return None


def value(fs, oid):
    return zodb_unpickle(fs.load(oid, '')[0]).value


def boom(tid):
    raise RuntimeError('the caller\'s finish callback failed')


d = tempfile.mkdtemp()
try:
    p = os.path.join(d, 'Data.fs')
    fs = FileStorage(p)
    A, B = fs.new_oid(), fs.new_oid()
    t1 = commit(fs, [(A, z64, 'a1'), (B, z64, 'b1')])
    t2 = commit(fs, [(A, t1, 'a2')])
    time.sleep(0.01)
    pack_time = time.time()
    time.sleep(0.01)
    t3 = commit(fs, [(A, t2, 'a3')])
    assert commit(fs, [(B, t1, 'b-never-committed')], boom) is None
    before = value(fs, B)
    fs.pack(pack_time, referencesf, gc=False)
    after = value(fs, B)
    t5 = commit(fs, [(A, t3, 'a5')])
    fs.close()
    os.remove(p + '.index')
    fs = FileStorage(p)
    reopened_a, reopened_b = value(fs, A), value(fs, B)
    fs.close()
    print('B before the pack %r, after the pack %r, after a reopen %r' % (
        before, after, reopened_b))
    print('A after the reopen %r (last commit wrote a5)' % reopened_a)
    if not (before == after == reopened_b == 'b1' and reopened_a == 'a5'):
        print('FAIL: the pack made a never-committed record part of the '
              'database')
        sys.exit(1)
    print('ok')
finally:
    shutil.rmtree(d, ignore_errors=True)
