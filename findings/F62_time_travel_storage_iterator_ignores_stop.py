"""F62: the iterator of a time-travel FileStorage (read_only=True, stop=tid)
ignores the storage's stop bound: the storage itself ends before `stop`
(lastTransaction(), loads), but iterator() -- and therefore
copyTransactionsFrom(such a storage) -- goes on to the end of the file.
(C17: copying a storage reproduces ITS history; C15/C09: a time-travel open
shows the state before `stop` only.)"""
import os
import shutil
import sys
import tempfile

import transaction

import ZODB
from ZODB.FileStorage import FileStorage

d = tempfile.mkdtemp()
try:
    p = os.path.join(d, 'Data.fs')
    db = ZODB.DB(FileStorage(p))
    c = db.open()
    tids = []
    for i in range(4):
        c.root()[i] = i
        transaction.commit()
        tids.append(db.storage.lastTransaction())
    db.close()
    tt = FileStorage(p, read_only=True, stop=tids[2])
    seen = [t.tid for t in tt.iterator()]
    last = tt.lastTransaction()
    dst = FileStorage(os.path.join(d, 'copy.fs'))
    dst.copyTransactionsFrom(tt)
    copied = dst.lastTransaction()
    dst.close()
    bounded = [t.tid for t in tt.iterator(None, tids[0])]
    tt.close()
    print('time-travel storage: last transaction #%d; iterator yields %d '
          'transactions; a copy of it ends at #%d' % (
              tids.index(last) + 1, len(seen), tids.index(copied) + 1))
    # (the database's creation transaction precedes tids[0])
    if seen[1:] != tids[:2] or copied != tids[1] or bounded[1:] != tids[:1]:
        print('FAIL: the iterator of a time-travel storage goes beyond the '
              'storage\'s stop bound')
        sys.exit(1)
    print('ok')
finally:
    shutil.rmtree(d, ignore_errors=True)
