"""F73: an entry of FileStorage.undoLog() takes the transaction's extension
over the storage's own fields: an extension with the key 'id' (or 'time',
'user_name', 'description', 'size') replaces them.  The 'id' is what undo()
is given: the undo of the transaction picked from the log then fails
("Invalid transaction id") or names ANOTHER transaction.  (C06: undoing the
chosen transaction restores the state before IT.)"""
import sys
from base64 import decodebytes

import transaction

import ZODB
from ZODB.MappingStorage import MappingStorage  # noqa: F401
from ZODB.FileStorage import FileStorage
import os, shutil, tempfile

d = tempfile.mkdtemp()
try:
    db = ZODB.DB(FileStorage(os.path.join(d, 'Data.fs')))
    c = db.open()
    c.root()['x'] = 1
    transaction.get().note('first')
    transaction.commit()
    tid1 = db.storage.lastTransaction()
    c.root()['x'] = 2
    t = transaction.get()
    t.note('second')
    t.setExtendedInfo('id', 'ticket-4711')        # an application's own "id"
    t.setExtendedInfo('time', 'noon')
    transaction.commit()
    tid2 = db.storage.lastTransaction()
    entry = [e for e in db.undoLog(0, 10) if e['description'] == 'second'][0]
    print('undo log entry of the second transaction: id %r, time %r' % (
        entry['id'], entry['time']))
    ok = True
    try:
        ok = decodebytes(entry['id'] + b'\n') == tid2
    except Exception:
        ok = False
    if not ok or not isinstance(entry['time'], float):
        print('FAIL: the extension replaced the entry\'s own id/time; '
              'undo(entry["id"]) cannot name the transaction')
        sys.exit(1)
    db.undo(entry['id'])
    transaction.commit()
    c.sync()
    assert c.root()['x'] == 1
    print('ok')
finally:
    shutil.rmtree(d, ignore_errors=True)
