"""F74: FileStorage.iterator() opens the data file by NAME without the
storage lock.  A pack swaps the files under that lock -- Data.fs is renamed
to Data.fs.old, then Data.fs.pack to Data.fs -- and an iterator asked for
between the two renames fails with FileNotFoundError: a reader error caused
by the pack.  (C08: readers never see any error because of the pack.)"""
import os
import shutil
import sys
import tempfile
import threading
import time

import transaction

import ZODB
from ZODB.FileStorage import FileStorage

d = tempfile.mkdtemp()
try:
    p = os.path.join(d, 'Data.fs')
    fs = FileStorage(p)
    db = ZODB.DB(fs)
    c = db.open()
    for i in range(5):
        c.root()['x'] = i
        transaction.commit()
    n = len(list(fs.iterator()))
    result = []

    def reader():
        try:
            it = fs.iterator()
            result.append(len(list(it)))
        except Exception as e:
            result.append('%s: %s' % (type(e).__name__, e))

    real_rename = os.rename
    threads = []

    def rename(a, b):
        real_rename(a, b)
        if b.endswith('.old'):
            # between the two renames of the swap: somebody asks for an
            # iterator
            th = threading.Thread(target=reader)
            th.start()
            threads.append(th)
            time.sleep(0.5)
    os.rename = rename
    try:
        time.sleep(0.01)
        db.pack(time.time())
    finally:
        os.rename = real_rename
    for th in threads:
        th.join(10)
    print('iterator asked for between the two renames:', result)
    if not result or not isinstance(result[0], int):
        print('FAIL: the reader failed because of the pack')
        sys.exit(1)
    print('ok')
finally:
    shutil.rmtree(d, ignore_errors=True)
