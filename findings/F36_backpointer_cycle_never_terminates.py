"""F36 (C17): a backpointer that does not point backwards makes every chain
walk loop for ever: fsrecover, the storage iterator and
copyTransactionsFrom never terminate on such a damaged file.

History: T1 x=1, T2 x=2, T3 = undo T2 (a backpointer record).  The 8
backpointer bytes of T3's record are overwritten with the record's own
offset.

Expected: the recovery tool terminates (the damaged transaction is skipped).
Exit 1 if it is still running after 10 seconds.
"""
import io
import os
import shutil
import signal
import sys
import tempfile
from contextlib import redirect_stdout

import transaction

import ZODB
from ZODB import fsrecover
from ZODB.FileStorage import FileStorage
from ZODB.FileStorage.format import DATA_HDR_LEN
from ZODB.utils import p64


class Hang(BaseException):
    pass


def alarm(*a):
    raise Hang()


def main():
    tmp = tempfile.mkdtemp(prefix='f36')
    try:
        path = os.path.join(tmp, 'Data.fs')
        db = ZODB.DB(FileStorage(path))
        conn = db.open()
        root = conn.root()
        root['x'] = 1
        transaction.commit()
        root['x'] = 2
        transaction.get().note('T2')
        transaction.commit()
        tid = [d['id'] for d in db.undoLog(0, 5) if d['description'] == 'T2']
        db.undo(tid[0])
        transaction.commit()
        db.close()
        fs = FileStorage(path, read_only=True)
        pos = None
        for txn in fs.iterator():
            for rec in txn:
                pos = rec.pos               # the last record: T3's
        fs.close()
        with open(path, 'r+b') as f:
            f.seek(pos + DATA_HDR_LEN)
            f.write(p64(pos))                  # points at itself
        out = os.path.join(tmp, 'Recovered.fs')
        signal.signal(signal.SIGALRM, alarm)
        signal.alarm(10)
        try:
            with redirect_stdout(io.StringIO()):
                fsrecover.recover(path, out, verbose=0, force=True)
            signal.alarm(0)
        except Hang:
            print('F36: fsrecover was still running after 10 s (a '
                  'backpointer that points at its own record)')
            return 1
        print('ok: the recovery tool terminated')
        return 0
    finally:
        shutil.rmtree(tmp, ignore_errors=True)


if __name__ == '__main__':
    sys.exit(main())
