import os, shutil, time
shutil.rmtree("d12", ignore_errors=True); os.mkdir("d12")
import transaction, ZODB
import sys, ZODB.FileStorage; FSM = sys.modules["ZODB.FileStorage.FileStorage"]
from ZODB.FileStorage import FileStorage
fs = FileStorage('d12/Data.fs'); db = ZODB.DB(fs)
tm = transaction.TransactionManager(); c = db.open(tm)
for i in range(5):
    c.root()['x'] = i; tm.commit()
# crash exactly between the two renames of FileStorage.pack: stop the process after the first one
real_rename = os.rename
class Crash(BaseException): pass
def rename(a, b):
    real_rename(a, b)
    raise Crash()          # the process dies here
FSM.os.rename = rename
try:
    db.pack(time.time())
except Crash:
    print("crashed after rename(Data.fs -> Data.fs.old)")
FSM.os.rename = real_rename
print("directory:", sorted(os.listdir('d12')))
for f in ('d12/Data.fs.lock','d12/Data.fs.tmp'):
    try: os.remove(f)
    except OSError: pass
fs2 = FileStorage('d12/Data.fs')
print("reopened: objects =", len(fs2), " last tid =", fs2.lastTransaction())
