"""F34 (C07): pack with gc loses a reachable object and serves a wrong
revision when, after the pack time, undo records point back to revisions of
an object that was NOT reachable at the pack time.

History: t1 root->x->y; t2 x drops y; t3 root drops x; pack time T;
t4 undo t3 (root points to x again); t5 undo t2 (x points to y again);
pack(T) with gc.

Expected: all states from T on unchanged: now root->x->y; the snapshot
after t4 shows x as of t2 (without y).  Exit 1 otherwise.
"""
import os
import shutil
import sys
import tempfile
import time

import transaction

import ZODB
from ZODB.FileStorage import FileStorage
from ZODB.POSException import POSKeyError
from persistent.mapping import PersistentMapping


def undo_last(db, note):
    tid = [d['id'] for d in db.undoLog(0, 20) if d['description'] == note]
    db.undo(tid[0])
    transaction.get().note('undo ' + note)
    transaction.commit()


def main():
    tmp = tempfile.mkdtemp(prefix='f34')
    try:
        path = os.path.join(tmp, 'Data.fs')
        db = ZODB.DB(FileStorage(path))
        conn = db.open()
        root = conn.root()
        x = root['x'] = PersistentMapping()
        y = x['y'] = PersistentMapping({'v': 'y-data'})
        transaction.get().note('t1')
        transaction.commit()
        del x['y']
        transaction.get().note('t2')
        transaction.commit()
        del root['x']
        transaction.get().note('t3')
        transaction.commit()
        time.sleep(0.01)
        T = time.time()
        time.sleep(0.01)
        undo_last(db, 't3')                                  # t4
        t4 = db.lastTransaction()
        undo_last(db, 't2')                                  # t5
        conn.sync()

        def look(c):
            out = {}
            try:
                xx = c.root()['x']
                out['x-has-y'] = 'y' in xx
                out['x-serial'] = xx._p_serial
                if 'y' in xx:
                    out['y'] = xx['y']['v']
            except POSKeyError as e:
                out['error'] = 'POSKeyError %s' % e
            return out

        before_now = look(conn)
        h = db.open(at=t4)
        before_t4 = look(h)
        h.close()
        db.pack(T)
        conn.cacheMinimize()
        conn.sync()
        after_now = look(conn)
        h = db.open(at=t4)
        h.cacheMinimize()
        after_t4 = look(h)
        h.close()
        db.close()
        print('now   before pack:', before_now)
        print('now   after  pack:', after_now)
        print('at t4 before pack:', before_t4)
        print('at t4 after  pack:', after_t4)
        if before_now != after_now or before_t4 != after_t4:
            print('F34: the pack changed what is observable after the pack '
                  'time')
            return 1
        print('ok')
        return 0
    finally:
        shutil.rmtree(tmp, ignore_errors=True)


if __name__ == '__main__':
    sys.exit(main())
