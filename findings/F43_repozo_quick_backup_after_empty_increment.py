"""F43 (C18): a quick (-Q) backup after an EMPTY increment does not notice a
pack: the checksum of the (empty) last increment range always matches, so
an incremental is appended to the pre-pack base and recovery yields a file
that is not the data file.

History: -B -Q -F; a transaction is voted; -B -Q (writes an empty
increment); the transaction finishes; pack (the file shrinks); commits until
the file is at least as long as before; -B -Q; recover.

Expected: the recovered file equals the data file.  Exit 1 otherwise.
"""
import os
import shutil
import sys
import tempfile
import time

import transaction

import ZODB
from ZODB.FileStorage import FileStorage
from ZODB.scripts import repozo
from persistent.mapping import PersistentMapping


def run(argv):
    try:
        repozo.main(argv)
    except SystemExit as e:
        if e.code:
            raise


def main():
    tmp = tempfile.mkdtemp(prefix='f43')
    try:
        path = os.path.join(tmp, 'Data.fs')
        repo = os.path.join(tmp, 'repo')
        os.mkdir(repo)
        db = ZODB.DB(FileStorage(path))
        conn = db.open()
        root = conn.root()
        for i in range(10):
            root['x'] = PersistentMapping({'v': 'a' * 200 + str(i)})
            transaction.commit()
        run(['-B', '-Q', '-F', '-r', repo, '-f', path])
        time.sleep(1.1)
        # a transaction voted but not finished while the next backup runs
        tm = transaction.TransactionManager()
        c2 = db.open(tm)
        c2.root()['y'] = 1
        txn = tm.get()
        c2.tpc_begin(txn)
        c2.commit(txn)
        c2.tpc_vote(txn)
        run(['-B', '-Q', '-r', repo, '-f', path])          # empty increment
        c2.tpc_finish(txn)
        time.sleep(1.1)
        size_before = os.path.getsize(path)
        conn.sync()
        db.pack(time.time())
        assert os.path.getsize(path) < size_before
        n = 0
        while os.path.getsize(path) < size_before + 500:
            root['z%d' % n] = PersistentMapping({'v': 'b' * 300})
            transaction.commit()
            n += 1
        run(['-B', '-Q', '-r', repo, '-f', path])
        db.close()
        out = os.path.join(tmp, 'Recovered.fs')
        run(['-R', '-r', repo, '-o', out])
        with open(path, 'rb') as f:
            want = f.read()
        with open(out, 'rb') as f:
            got = f.read()
        files = sorted(x for x in os.listdir(repo))
        print('repository:', [x[-10:] for x in files])
        if got != want:
            print('F43: the recovered file (%d bytes) is not the data file '
                  '(%d bytes)' % (len(got), len(want)))
            return 1
        print('ok')
        return 0
    finally:
        shutil.rmtree(tmp, ignore_errors=True)


if __name__ == '__main__':
    sys.exit(main())
