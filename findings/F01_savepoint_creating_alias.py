import transaction, ZODB
from ZODB.MappingStorage import MappingStorage
from persistent.mapping import PersistentMapping as PM
db = ZODB.DB(MappingStorage())
tm = transaction.TransactionManager()
conn = db.open(tm)
root = conn.root()
root['a'] = PM(); tm.commit()
root['a']['x'] = 1
sp1 = tm.savepoint()
root['a']['x'] = 2
sp1.rollback()
new = PM(); new['v'] = 42
root['n'] = new
sp2 = tm.savepoint()
print("after sp2: new oid/jar", new._p_oid, new._p_jar is conn)
sp1.rollback()
print("after 2nd rollback to sp1: new oid/jar", new._p_oid, getattr(new, '_p_jar', None) is conn, "changed", new._p_changed)
try:
    print("new['v']", new['v'])
except Exception as e:
    print("ACCESS FAILS:", type(e).__name__, e)
print('n' in root)
