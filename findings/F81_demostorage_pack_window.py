"""F81: while (and right after) a demo storage packs its changes, a reader
older than the pack time is handed the base's revision.  DemoStorage.pack
remembered the pack time (_packed_to, which makes loadBefore answer "nothing"
instead of falling back to the base, F70/F76) only AFTER changes.pack() had
returned: a load between the moment the pack removed the reader's revision
from the changes and that assignment found nothing in the changes, saw a
pack time still unraised, and returned the base's older state -- a wrong
state, silently, not a conflict.  (C08: a pack under concurrent readers; C16,
C02: one consistent snapshot.)  Reported by the C02 and C08 seeding agents of
round 9.  The schedule is forced by wrapping the changes storage's pack."""
import os
import shutil
import sys
import tempfile
import time

from ZODB.Connection import TransactionMetaData
from ZODB.DemoStorage import DemoStorage
from ZODB.FileStorage import FileStorage
from ZODB.MappingStorage import MappingStorage
from ZODB.serialize import referencesf
from ZODB.tests.MinPO import MinPO
from ZODB.tests.StorageTestBase import zodb_pickle
from ZODB.tests.StorageTestBase import zodb_unpickle
from ZODB.utils import load_current
from ZODB.utils import z64


def commit(st, value):
    t = TransactionMetaData()
    st.tpc_begin(t)
    try:
        old = load_current(st, z64)[1]
    except KeyError:
        old = z64
    st.store(z64, old, zodb_pickle(MinPO(value)), '', t)
    st.tpc_vote(t)
    return st.tpc_finish(t)


d = tempfile.mkdtemp()
try:
    base = MappingStorage()
    commit(base, 'base')
    time.sleep(0.05)
    changes = FileStorage(os.path.join(d, 'c.fs'))
    demo = DemoStorage(base=base, changes=changes)
    commit(demo, 'c1')
    c2 = commit(demo, 'c2')
    commit(demo, 'c3')
    time.sleep(0.05)
    seen = []
    orig = changes.pack

    def pack(*a, **kw):
        r = orig(*a, **kw)
        # "another thread" loads right after the changes were packed
        x = demo.loadBefore(z64, c2)
        seen.append(x and zodb_unpickle(x[0]).value)
        return r

    changes.pack = pack
    before = zodb_unpickle(demo.loadBefore(z64, c2)[0]).value
    demo.pack(time.time(), referencesf)
    print('the state before c2: %r before the pack; %r in the window '
          '(must be %r or None)' % (before, seen[0], before))
    demo.close()
    if seen[0] not in (before, None):
        print('F81: the reader was handed the base\'s revision')
        sys.exit(1)
finally:
    shutil.rmtree(d, ignore_errors=True)
