import os, sys, shutil; shutil.rmtree("d4", ignore_errors=True); os.mkdir("d4")
from ZODB.FileStorage import FileStorage
from ZODB.Connection import TransactionMetaData
from ZODB.utils import z64, p64
import zodbpickle.pickle as pk
rec = pk.dumps(dict,3)+pk.dumps({},3)
assert rec.endswith(b'.')
fs = FileStorage('d4/Data.fs')
for i in range(3):
    t = TransactionMetaData(); fs.tpc_begin(t); fs.store(p64(i+1), z64, rec, '', t); fs.tpc_vote(t); fs.tpc_finish(t)
fs.close()
sz = os.path.getsize('d4/Data.fs')
cut = int(sys.argv[1])
with open('d4/Data.fs','r+b') as f: f.truncate(sz-cut)
import ZODB.fsrecover
ZODB.fsrecover.recover('d4/Data.fs','d4/out.fs', force=True)
print("DONE")
