import transaction, ZODB
from ZODB.MappingStorage import MappingStorage
from ZODB.POSException import ReadConflictError, ConflictError
from persistent.mapping import PersistentMapping as PM
def run(with_savepoint):
    db = ZODB.DB(MappingStorage())
    tm = transaction.TransactionManager(); c1 = db.open(tm)
    c1.root()['a'] = PM(); c1.root()['b'] = PM(); tm.commit()
    tm2 = transaction.TransactionManager(); c2 = db.open(tm2)
    a1, b1 = c1.root()['a'], c1.root()['b']
    c1.readCurrent(a1)                 # the transaction depends on `a` being current
    if with_savepoint:
        sp0 = tm.savepoint()
        a1['tmp'] = 1
        sp1 = tm.savepoint()           # stores `a` in the savepoint store
        sp0.rollback()                 # the change to `a` is gone; the dependency should remain
    b1['derived_from_a'] = len(a1)
    c2.root()['a']['x'] = 1; tm2.commit()   # `a` changes concurrently
    try:
        tm.commit(); return "COMMITTED (dependency on `a` not verified)"
    except ConflictError as e:
        tm.abort(); return type(e).__name__ + " (commit refused: correct)"
print("without savepoint:", run(False))
print("with savepoint+rollback:", run(True))
