import transaction, ZODB
from ZODB.MappingStorage import MappingStorage
from persistent import Persistent
class P(Persistent):
    fail = True
    def __getstate__(self):
        if P.fail:
            raise RuntimeError("transient failure while serializing")
        return Persistent.__getstate__(self)
db = ZODB.DB(MappingStorage())
tm = transaction.TransactionManager(); conn = db.open(tm)
obj = P(); obj.v = 42
conn.root()['a'] = obj
try:
    tm.commit()
except Exception as e:
    print("commit failed:", type(e).__name__, e); tm.abort()
print("after failed commit: owned by conn:", obj._p_jar is conn, "oid:", obj._p_oid, "changed:", obj._p_changed)
P.fail = False
conn.root()['a'] = obj       # retry
tm.commit(); print("retry commit ok")
c2 = db.open(transaction.TransactionManager())
try:
    print("other connection reads:", c2.root()['a'].v)
except Exception as e:
    print("OTHER CONNECTION FAILS:", type(e).__name__, e)
