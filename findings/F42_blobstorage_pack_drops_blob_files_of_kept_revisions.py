"""F42 (C07/C13/C15): BlobStorage over a storage without undo support
(MappingStorage) keeps, at a pack, only the NEWEST blob file of each object
-- whatever the pack time.  The wrapped storage keeps every revision from
the one current at the pack time on, so snapshots at or after the pack time
lose their blob bytes.

History: T1 blob = v1; pack time P; T2 v2; T3 v3; pack(P).

Expected: historical connections at T1 (state current at P) and at T2 still
read v1 / v2.  Exit 1 otherwise.
"""
import os
import shutil
import sys
import tempfile
import time

import transaction

import ZODB
from ZODB.blob import Blob
from ZODB.blob import BlobStorage
from ZODB.MappingStorage import MappingStorage


def main():
    tmp = tempfile.mkdtemp(prefix='f42')
    try:
        bs = BlobStorage(os.path.join(tmp, 'blobs'), MappingStorage())
        db = ZODB.DB(bs)
        conn = db.open()
        root = conn.root()
        root['b'] = Blob(b'v1')
        transaction.commit()
        t1 = db.lastTransaction()
        time.sleep(0.01)
        P = time.time()
        time.sleep(0.01)
        tids = [t1]
        for v in (b'v2', b'v3'):
            with root['b'].open('w') as f:
                f.write(v)
            transaction.commit()
            tids.append(db.lastTransaction())
        db.pack(P)
        bad = []
        for tid, want in zip(tids, (b'v1', b'v2', b'v3')):
            h = db.open(at=tid)
            try:
                with h.root()['b'].open() as f:
                    got = f.read()
            except Exception as e:
                got = '%s: %s' % (type(e).__name__, str(e)[:60])
            h.close()
            print('snapshot at T%d: %r' % (tids.index(tid) + 1, got))
            if got != want:
                bad.append(tid)
        db.close()
        if bad:
            print('F42: snapshots not older than the pack time lost their '
                  'blob bytes')
            return 1
        print('ok')
        return 0
    finally:
        shutil.rmtree(tmp, ignore_errors=True)


if __name__ == '__main__':
    sys.exit(main())
