"""F79: a new object loses its state when the savepoint (or the commit-time
store) that has just stored it fails in a transaction that already has a
savepoint.  Connection.abort() discarded the savepoint data -- which
invalidates everything the savepoint storage holds, among it what the failed
call had just stored -- before it disowned the objects recorded as created:
the new object ended as a ghost without a database.  Its state is gone for
the application that still holds it, and adding it again fails at commit
(POSKeyError).  Same effect as F71, other path.  (C11: an object that was new
in an aborted transaction keeps its state and can be added again.)
Reported by the C11 seeding agent of round 9 (found by its random model
test)."""
import sys

import transaction
from persistent import Persistent

import ZODB


class P(Persistent):
    def __init__(self, v=None):
        self.v = v


class Unpicklable(Persistent):
    def __getstate__(self):
        raise RuntimeError('unpicklable')


db = ZODB.DB(None)
tm = transaction.TransactionManager()
conn = db.open(tm)
root = conn.root()
root['a'] = P(0)
tm.commit()
root['x'] = 1
tm.savepoint()                  # the transaction has savepoint data now
n = P(5)
root['a'].n = n                 # registered first: n is stored ...
root['zz'] = Unpicklable()      # ... before the root fails
try:
    tm.commit()
except RuntimeError:
    pass
else:
    print('the commit did not fail: history is not the intended one')
    sys.exit(2)
tm.abort()
print('n after the abort: jar %r oid %r state %r' % (
    n._p_jar, n._p_oid, n.__dict__))
bad = n.__dict__ != {'v': 5}
root['n'] = n
try:
    tm.commit()
except Exception as e:
    print('adding it again fails: %s: %s' % (type(e).__name__, e))
    tm.abort()
    bad = True
db.close()
if bad:
    print('F79: the new object lost its state')
    sys.exit(1)
