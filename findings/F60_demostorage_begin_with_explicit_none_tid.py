"""F60 (completes F47): the later-than-base adjustment of
DemoStorage.tpc_begin was made only when no id argument was passed at all.
Callers that pass the id explicitly as None -- tpc_begin(txn, None),
tpc_begin(txn, tid=None), as a ZEO server does -- skipped it: with a base whose last transaction is ahead of the clock the
commit got an id below the base's last.  (C16/C04: ids of commits through a
demo storage are later than every transaction of both layers.)"""
import sys
import time

from ZODB.Connection import TransactionMetaData
from ZODB.DemoStorage import DemoStorage
from ZODB.MappingStorage import MappingStorage
from ZODB.tests.MinPO import MinPO
from ZODB.tests.StorageTestBase import zodb_pickle
from ZODB.TimeStamp import TimeStamp
from ZODB.utils import z64

# a base stamped one hour ahead of the clock
t = time.time() + 3600
ahead = TimeStamp(*time.gmtime(t)[:5] + (t % 60,)).raw()
base = MappingStorage()
tx = TransactionMetaData()
base.tpc_begin(tx, ahead)
base.store(z64, z64, zodb_pickle(MinPO(0)), '', tx)
base.tpc_vote(tx)
base.tpc_finish(tx)

bad = 0
for how, call in (('tpc_begin(txn)', lambda s, t: s.tpc_begin(t)),
                  ('tpc_begin(txn, None)', lambda s, t: s.tpc_begin(t, None)),
                  ('tpc_begin(txn, tid=None)',
                   lambda s, t: s.tpc_begin(t, tid=None))):
    demo = DemoStorage(base=base)
    tx = TransactionMetaData()
    call(demo, tx)
    oid = demo.new_oid()
    demo.store(oid, z64, zodb_pickle(MinPO(1)), '', tx)
    demo.tpc_vote(tx)
    tid = demo.tpc_finish(tx)
    ok = tid > ahead
    print('%-28s id %s the base\'s last transaction' % (
        how, 'after' if ok else 'BEFORE'))
    bad += not ok
if bad:
    print('FAIL')
    sys.exit(1)
print('ok')
