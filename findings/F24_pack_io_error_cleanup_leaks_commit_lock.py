"""F24 (C08.R1): an I/O error during the locked phase of a pack, followed by
a failure of the cleanup itself (closing the blob removal list: its buffered
data cannot be flushed on a full disk either), leaves the commit lock held:
every later commit blocks for ever.

Both faults are injected where ENOSPC would hit: the flush of the .pack file
at the end of pack(), and the close of the `.removed` list.
Run in an empty scratch directory."""
import errno
import os
import time

import transaction

import ZODB
import ZODB.blob
import ZODB.FileStorage
from ZODB.FileStorage import fspack

fs = ZODB.FileStorage.FileStorage('data.fs', blob_dir='blobs')
db = ZODB.DB(fs)
conn = db.open()
root = conn.root()
root['b'] = ZODB.blob.Blob(b'one')
transaction.commit()
root['b'] = ZODB.blob.Blob(b'two')      # first blob becomes garbage
transaction.commit()
time.sleep(0.01)


class FullDisk:
    """File wrapper whose close() fails like a flush on a full disk."""

    def __init__(self, f):
        self.f = f

    def write(self, data):
        return self.f.write(data)

    def close(self):
        self.f.close()
        raise OSError(errno.ENOSPC, 'No space left on device')


orig_copyRest = fspack.FileStoragePacker.copyRest
orig_init = fspack.FileStoragePacker.__init__


def init(self, *a, **kw):
    orig_init(self, *a, **kw)
    self.blob_removed = FullDisk(self.blob_removed)


def copyRest(self, ipos):
    # we are inside the phase that holds the commit lock
    assert self.locked
    raise OSError(errno.ENOSPC, 'No space left on device')


fspack.FileStoragePacker.__init__ = init
fspack.FileStoragePacker.copyRest = copyRest

# a transaction after the pack time, so that copyRest is reached
packtime = time.time()
time.sleep(0.01)
root['x'] = 1
transaction.commit()

try:
    db.pack(packtime)
except OSError as e:
    print('pack failed as expected:', e)

fspack.FileStoragePacker.__init__ = orig_init
fspack.FileStoragePacker.copyRest = orig_copyRest

free = fs._commit_lock.acquire(False)
if free:
    fs._commit_lock.release()
    print('OK: commit lock is free after the failed pack')
else:
    print('DEFECT: the commit lock is still held after the failed pack; '
          'the next commit would block for ever')
    raise SystemExit(1)
