"""F61: repozo verification passes although the newest full backup file is
missing, when an older full backup is still in the repository: find_files()
walks back to the older full backup, do_verify() reads THAT chain's .dat
file, which lists neither the missing file nor the newer increments -- and
says nothing.  Recovery then concatenates the old chain with the increments
of the new one.  (C18: full verification fails whenever any backup file is
missing.)"""
import os
import shutil
import sys
import tempfile
import time

import transaction

import ZODB
from ZODB.FileStorage import FileStorage
from ZODB.scripts import repozo

d = tempfile.mkdtemp()
try:
    fs = os.path.join(d, 'Data.fs')
    repo = os.path.join(d, 'repo')
    os.mkdir(repo)
    db = ZODB.DB(FileStorage(fs))
    c = db.open()

    clock = [time.mktime((2020, 1, 1, 0, 0, 0, 0, 0, 0))]
    real_gmtime = time.gmtime
    repozo.time.gmtime = lambda *a: real_gmtime(clock[0]) if not a \
        else real_gmtime(*a)

    def backup(*flags):
        clock[0] += 60
        repozo.main(['-B', '-r', repo, '-f', fs] + list(flags))

    def commit(i):
        c.root()[i] = 'x' * 100
        transaction.commit()

    commit(1)
    backup('-F')            # full T1
    commit(2)
    backup()                # increment T2
    commit(3)
    backup('-F')            # full T3
    commit(4)
    backup()                # increment T4
    db.close()
    fulls = sorted(f for f in os.listdir(repo) if f.endswith('.fs'))
    assert len(fulls) == 2, os.listdir(repo)
    os.remove(os.path.join(repo, fulls[-1]))     # the newest full is lost
    failed = []
    for flags in ([], ['-Q']):
        try:
            repozo.main(['-V', '-r', repo] + flags)
        except SystemExit as e:
            if e.code:
                failed.append(str(e.code))
    print('verification failures:', failed or 'none')
    if len(failed) != 2:
        print('FAIL: verification passes although a full backup file is '
              'missing')
        sys.exit(1)
    print('ok')
finally:
    repozo.time.gmtime = time.gmtime
    shutil.rmtree(d, ignore_errors=True)
