"""F53: a time-travel open (read_only=True, stop=<tid>) ignores `stop` when an
index file exists: the saved index is taken as it is, so the storage shows
transactions at and after `stop`; without the index file the same open stops
where it should.  (C09: the index is only a cache -- opening with it yields
the same state as a full scan.)"""
import os
import shutil
import sys
import tempfile

import transaction
from persistent.mapping import PersistentMapping

import ZODB
from ZODB.FileStorage import FileStorage

d = tempfile.mkdtemp()
try:
    p = os.path.join(d, 'Data.fs')
    db = ZODB.DB(FileStorage(p))
    tids = []
    c = db.open()
    for i in range(4):
        c.root()['k%d' % i] = PersistentMapping(i=i)
        transaction.commit()
        tids.append(db.storage.lastTransaction())
    db.close()                              # saves the index
    assert os.path.exists(p + '.index')

    def state(fs):
        return (len(fs), fs.lastTransaction())

    fs = FileStorage(p, read_only=True, stop=tids[2])
    with_index = state(fs)
    fs.close()
    os.remove(p + '.index')
    fs = FileStorage(p, read_only=True, stop=tids[2])
    scan = state(fs)
    fs.close()
    print('time-travel open with the index file:', with_index)
    print('time-travel open, full scan         :', scan)
    if with_index != scan:
        print('FAIL: the index file changes what a time-travel open shows')
        sys.exit(1)
    print('ok')
finally:
    shutil.rmtree(d, ignore_errors=True)
