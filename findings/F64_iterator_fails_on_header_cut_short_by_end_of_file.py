"""F64: the transaction iterator fails on a data file that ends in the
middle of a transaction HEADER (fewer than 23 bytes of it): it raises
CorruptedDataError, while it simply stops when the file ends in the middle
of a transaction's data -- and while the open-time scan takes both for the
unfinished transaction at the end that they are.  A read-only open of such a
file works (C09), but iterating or copying that storage does not.  (C17:
copying a storage reproduces its history; C01: a crash leaves a prefix.)"""
import os
import shutil
import sys
import tempfile

import transaction

import ZODB
from ZODB.FileStorage import FileStorage

d = tempfile.mkdtemp()
try:
    p = os.path.join(d, 'Data.fs')
    db = ZODB.DB(FileStorage(p))
    c = db.open()
    for i in range(3):
        c.root()[i] = i
        transaction.commit()
    n = len(list(db.storage.iterator()))
    db.close()
    os.remove(p + '.index')
    size = os.path.getsize(p)
    bad = []
    for torn in (1, 8, 22, 23, 40):
        # a crash while the next transaction was being written: `torn`
        # bytes of it made it to the file
        with open(p, 'r+b') as f:
            f.truncate(size)
            f.seek(size)
            f.write((b'\x7f\xff' + b'\0' * 14 + b'c' + b'\0' * 6 +
                     b'x' * 40)[:torn])
        src = FileStorage(p, read_only=True)
        try:
            got = len(list(src.iterator()))
            dst = FileStorage(os.path.join(d, 'copy%d.fs' % torn))
            dst.copyTransactionsFrom(src)
            copied = len(list(dst.iterator()))
            dst.close()
            what = '%d transactions iterated, %d copied' % (got, copied)
            ok = got == copied == n
        except Exception as e:
            what = '%s: %s' % (type(e).__name__, str(e)[:60])
            ok = False
        src.close()
        print('file ends after %2d bytes of the next transaction: %s' % (
            torn, what))
        if not ok:
            bad.append(torn)
    if bad:
        print('FAIL for torn tails of', bad, 'bytes')
        sys.exit(1)
    print('ok')
finally:
    shutil.rmtree(d, ignore_errors=True)
