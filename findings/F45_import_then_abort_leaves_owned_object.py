"""F45 (C11): objects created by importFile() are not recorded as created
by the transaction.  After an abort the object importFile() returned keeps
its id and its connection (as a ghost whose record is gone); linking it
into the database later commits a dangling reference.

Expected: after the abort the imported object belongs to no database, and
no dangling reference to it can be committed (a never-loaded object has no
state to store again, so re-linking it may fail at commit -- it must not
succeed and leave other connections with POSKeyError).  Exit 1 otherwise.
"""
import io
import sys

import transaction

import ZODB
from ZODB.MappingStorage import MappingStorage
from ZODB.POSException import POSKeyError
from persistent.mapping import PersistentMapping


def main():
    db = ZODB.DB(MappingStorage())
    conn = db.open()
    root = conn.root()
    root['src'] = PersistentMapping({'v': 1})
    transaction.commit()
    f = io.BytesIO()
    conn.exportFile(root['src']._p_oid, f)
    f.seek(0)
    obj = conn.importFile(f)
    transaction.abort()
    owned = obj._p_jar is not None or obj._p_oid is not None
    print('after the abort the imported object has jar=%r oid=%r' % (
        obj._p_jar, obj._p_oid))
    # link it and commit: another connection must be able to load it
    dangling = False
    try:
        root['copy'] = obj
        transaction.commit()
        c2 = db.open()
        try:
            c2.root()['copy']['v']
        except POSKeyError as e:
            dangling = True
            print('second connection: POSKeyError', e)
        c2.close()
    except Exception as e:
        transaction.abort()
        print('re-linking refused at commit: %s: %s' % (
            type(e).__name__, e))
    db.close()
    if owned or dangling:
        print('F45: the object created by the aborted import still belongs '
              'to the connection')
        return 1
    print('ok')
    return 0


if __name__ == '__main__':
    sys.exit(main())
