"""F57: Connection.readCurrent() records the dependency but does not make the
connection join the transaction.  A transaction that declares a dependency
through one connection and writes only through another connection of the
same multi-database (or writes nothing through that connection) commits
although the object it depends on was changed meanwhile: the dependency is
only checked by a connection that takes part in the commit.  (C03: "The same
holds for objects a transaction declared it depends on being current: if one
of them changed, the commit fails.")"""
import sys

import transaction
from persistent.mapping import PersistentMapping

import ZODB
from ZODB.MappingStorage import MappingStorage
from ZODB.POSException import ReadConflictError

dbs = {}
db1 = ZODB.DB(MappingStorage('1'), databases=dbs, database_name='one')
db2 = ZODB.DB(MappingStorage('2'), databases=dbs, database_name='two')

tm0 = transaction.TransactionManager()
c = db1.open(tm0)
c.root()['x'] = PersistentMapping(v=0)
c.get_connection('two').root()['y'] = PersistentMapping(v=0)
tm0.commit()
c.close()

tmA = transaction.TransactionManager()
a1 = db1.open(tmA)
a2 = a1.get_connection('two')
x = a1.root()['x']
a1.readCurrent(x)                       # y will be derived from x
a2.root()['y']['v'] = x['v'] + 1

tmB = transaction.TransactionManager()
b1 = db1.open(tmB)
b1.root()['x']['v'] = 100               # x changes meanwhile
tmB.commit()

try:
    tmA.commit()
except ReadConflictError:
    print('commit refused: the object depended on has changed')
    print('ok')
    sys.exit(0)
print('FAIL: the commit succeeded although the object declared with '
      'readCurrent() was changed by another transaction')
sys.exit(1)
