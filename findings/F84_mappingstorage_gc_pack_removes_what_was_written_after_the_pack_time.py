"""F84: a garbage-collecting pack of a MappingStorage removes objects that
were written AFTER the pack time when nothing reachable refers to them, and
with them the transactions after the pack time that wrote them.  The sweep
started from the root alone; FileStorage treats everything written after the
pack time as reachable.  (C07: a pack removes only ... objects that were
unreachable at T and are not written afterwards; every transaction after T is
still listed and iterable -- for each packable storage.)  Reported by the C07
seeding agent of round 10 (its random model, and a probe)."""
import sys
import time

import transaction
from persistent.mapping import PersistentMapping

import ZODB
from ZODB.MappingStorage import MappingStorage

storage = MappingStorage()
db = ZODB.DB(storage)
conn = db.open()
root = conn.root()
root['x'] = 1
transaction.commit()
time.sleep(0.05)
packtime = time.time()
time.sleep(0.05)
orphan = PersistentMapping({'o': 1})
conn.add(orphan)                   # stored although nothing refers to it
transaction.commit()
t2 = storage.lastTransaction()
root['x'] = 2
transaction.commit()
before = [(t.tid, sorted(r.oid for r in t)) for t in storage.iterator()
          if t.tid >= t2]
db.pack(packtime)
after = [(t.tid, sorted(r.oid for r in t)) for t in storage.iterator()
         if t.tid >= t2]
print('transactions after the pack time: %d before the pack, %d after it'
      % (len(before), len(after)))
bad = before != after
try:
    storage.loadSerial(orphan._p_oid, t2)
except Exception as e:
    print('the object written after the pack time: %s' % type(e).__name__)
    bad = True
db.close()
if bad:
    print('F84: the pack removed what was written after the pack time')
    sys.exit(1)
