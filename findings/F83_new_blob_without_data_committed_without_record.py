"""F83: a commit that stores a reference to a new blob but no record for it.
A new blob, added, stored by a savepoint, read, then the transaction aborted:
the blob object is disowned but still names the savepoint's file (removed
with the savepoint data) as its committed data.  Added again and committed,
it has no working file; Connection._store_objects_of passed over a blob
without working file -- "nothing changed" -- whether or not the object was
new.  The commit succeeded, the root was stored with the reference, the blob
got no record: every other connection gets POSKeyError for it.  (C13: blob
data follows its object record; C11: new objects reachable from changed ones
are stored together; C14: every stored reference resolves.)  Reported by the
C13 seeding agent of round 9.  The repair refuses the commit (the data went
with the aborted transaction); exit 1 = the dangling reference was
committed."""
import os
import shutil
import sys
import tempfile

import transaction

import ZODB
from ZODB.blob import Blob
from ZODB.FileStorage import FileStorage
from ZODB.POSException import POSKeyError

d = tempfile.mkdtemp()
try:
    st = FileStorage(os.path.join(d, 'd.fs'), blob_dir=os.path.join(d, 'b'))
    db = ZODB.DB(st)
    c = db.open()
    r = c.root()
    r['x'] = 1
    transaction.commit()
    b = Blob(b'hello')
    r['b'] = b
    transaction.savepoint()
    assert b.open().read() == b'hello'
    transaction.abort()
    r['b'] = b
    try:
        transaction.commit()
    except Exception as e:
        print('the commit is refused: %s: %s' % (type(e).__name__, e))
        transaction.abort()
        committed = False
    else:
        committed = True
    c2 = db.open(transaction.TransactionManager())
    bad = False
    if committed:
        try:
            c2.root()['b'].open().read()
        except POSKeyError as e:
            print('committed, and another connection gets POSKeyError %s'
                  % e)
            bad = True
    db.close()
    if bad:
        print('F83: a reference to a new blob was committed without a '
              'record for the blob')
        sys.exit(1)
finally:
    shutil.rmtree(d)
