import os
from ZODB.FileStorage import FileStorage
from ZODB.Connection import TransactionMetaData
from ZODB.utils import z64, p64, mktemp
from ZODB.serialize import ObjectWriter
from ZODB.blob import Blob
import zodbpickle.pickle as pk
fs = FileStorage('d2/Data.fs', blob_dir='d2/blobs')
def blobfiles():
    out=[]
    for p,d,f in os.walk('d2/blobs'):
        if os.path.basename(p)=='tmp' : continue
        out += [os.path.join(p,x) for x in f if x.endswith('.blob')]
    return out
data = pk.dumps(Blob,3)+pk.dumps(None,3)
t = TransactionMetaData()
fs.tpc_begin(t)
oid = fs.new_oid()
tmp = mktemp(dir=fs.temporaryDirectory()); open(tmp,'wb').write(b'blobbytes')
fs.storeBlob(oid, z64, data, tmp, '', t)
print("during txn:", blobfiles(), fs.dirty_oids)
fs.tpc_abort(t)   # abort BEFORE vote
print("after abort-before-vote:", blobfiles(), "dirty:", fs.dirty_oids)
# next txn commits fine; leftover stays
t2 = TransactionMetaData(); fs.tpc_begin(t2); fs.store(fs.new_oid(), z64, pk.dumps(dict,3)+pk.dumps({},3), '', t2); fs.tpc_vote(t2); fs.tpc_finish(t2)
print("after next commit:", blobfiles(), "dirty:", fs.dirty_oids)
# abort AFTER vote works:
t3 = TransactionMetaData(); fs.tpc_begin(t3)
tmp = mktemp(dir=fs.temporaryDirectory()); open(tmp,'wb').write(b'blobbytes3')
fs.storeBlob(oid, z64, data, tmp, '', t3); fs.tpc_vote(t3); fs.tpc_abort(t3)
print("after abort-after-vote:", blobfiles(), "dirty:", fs.dirty_oids)
