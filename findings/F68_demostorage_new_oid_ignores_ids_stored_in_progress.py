"""F68: DemoStorage.new_oid() hands out an id under which the transaction in
progress has already stored a record that the storage did not issue (a
record copied in with its own id): store() remembers such ids only for
tpc_finish, new_oid() does not look at them, and the record is not in the
changes yet.  A store under the "new" id then silently replaces the copied
record.  (C20: never an id ... including records copied in with arbitrary
ids; ids issued during an import are distinct.)"""
import sys

from ZODB.Connection import TransactionMetaData
from ZODB.DemoStorage import DemoStorage
from ZODB.tests.MinPO import MinPO
from ZODB.tests.StorageTestBase import zodb_pickle, zodb_unpickle
from ZODB.utils import p64, z64

demo = DemoStorage()
t = TransactionMetaData()
demo.tpc_begin(t)
foreign = p64(demo._next_oid)            # the id the copy happens to carry
demo.store(foreign, z64, zodb_pickle(MinPO('copied record')), '', t)
new = demo.new_oid()
print('record copied in under %r; new_oid() returns %r' % (foreign, new))
if new == foreign:
    demo.store(new, z64, zodb_pickle(MinPO('new object')), '', t)
    demo.tpc_vote(t)
    demo.tpc_finish(t)
    print('after the commit the id holds: %r' %
          zodb_unpickle(demo.load(foreign, '')[0]).value)
    print('FAIL: the copied record was replaced')
    sys.exit(1)
demo.tpc_abort(t)
print('ok')
