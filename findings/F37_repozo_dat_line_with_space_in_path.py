"""F37 (C18): a repository path that contains white space makes the .dat
lines unparsable (`fn start end md5` is split on white space into more than
four fields): full verification fails on an intact repository, and a quick
backup and recover -w fail the same way.

Expected: verification of an intact repository succeeds.  Exit 1 otherwise.
"""
import os
import shutil
import sys
import tempfile

import transaction

import ZODB
from ZODB.FileStorage import FileStorage
from ZODB.scripts import repozo


def main():
    tmp = tempfile.mkdtemp(prefix='f37')
    try:
        path = os.path.join(tmp, 'Data.fs')
        repo = os.path.join(tmp, 'my backups')
        os.mkdir(repo)
        db = ZODB.DB(FileStorage(path))
        conn = db.open()
        conn.root()['x'] = 1
        transaction.commit()
        repozo.main(['-B', '-F', '-r', repo, '-f', path])
        conn.root()['x'] = 2
        transaction.commit()
        db.close()
        bad = []
        for what, argv in (
                ('verify', ['-V', '-r', repo]),
                ('quick incremental backup', ['-B', '-Q', '-r', repo, '-f',
                                              path]),
                ('verify after the increment', ['-V', '-r', repo])):
            try:
                repozo.main(argv)
            except SystemExit as e:
                if e.code:
                    bad.append('%s: exit %s' % (what, e.code))
            except Exception as e:
                bad.append('%s: %s: %s' % (what, type(e).__name__, e))
        for b in bad:
            print('F37:', b)
        if bad:
            return 1
        print('ok')
        return 0
    finally:
        shutil.rmtree(tmp, ignore_errors=True)


if __name__ == '__main__':
    sys.exit(main())
