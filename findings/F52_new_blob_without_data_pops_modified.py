"""F52: Connection._store_objects_of pops the oid of ANOTHER modified object
from the connection's list of modified oids when a blob that is new in the
transaction, already stored by a savepoint, is registered again without new
data ("not modified": `self._modified.pop()` although nothing was appended
for a new object).  After the successful commit the other object is still
marked changed and carries its old serial (C11: "the connection's objects are
clean and carry that id"); the next change to it fails with a spurious
ConflictError.  With no other modified object the commit itself dies with
IndexError: pop from empty list."""
import os
import shutil
import sys
import tempfile

import transaction
from persistent.mapping import PersistentMapping

import ZODB
import ZODB.blob
from ZODB.FileStorage import FileStorage
from ZODB.POSException import ConflictError


def scenario(with_other):
    d = tempfile.mkdtemp()
    try:
        db = ZODB.DB(FileStorage(os.path.join(d, 'Data.fs'),
                                 blob_dir=os.path.join(d, 'blobs')))
        tm = transaction.TransactionManager()
        c = db.open(tm)
        c.root()['a'] = PersistentMapping(v=1)
        tm.commit()
        a = c.root()['a']
        b = ZODB.blob.Blob()
        c.root()['b'] = b
        with b.open('w') as f:
            f.write(b'blob data')
        tm.savepoint()                 # the blob is stored by the savepoint
        if with_other:
            a['v'] = 2                 # a committed object changes
        b._p_changed = True            # registered again, no new data
        try:
            tm.commit()
        except IndexError as e:
            return 'commit failed: IndexError: %s' % e
        last = db.storage.lastTransaction()
        if with_other and (a._p_changed or a._p_serial != last):
            msg = ('after the commit `a` has _p_changed=%r and serial %r, '
                   'the transaction was %r' % (a._p_changed, a._p_serial,
                                               last))
            a['v'] = 3
            try:
                tm.commit()
            except ConflictError as e:
                msg += '; next change: spurious ConflictError'
                tm.abort()
            return msg
        with c.root()['b'].open() as f:
            assert f.read() == b'blob data'
        db.close()
        return None
    finally:
        shutil.rmtree(d, ignore_errors=True)


bad = 0
for w in (True, False):
    r = scenario(w)
    print('with another modified object' if w else 'blob alone', '->',
          r or 'ok')
    bad += r is not None
sys.exit(1 if bad else 0)
