"""F59: copyTransactionsFrom() that fails in the middle of a transaction (a
record the destination refuses, an I/O error, a damaged source) leaves the
destination storage inside the transaction it had begun: the commit lock
stays held and every later tpc_begin blocks for ever, although the caller got
an exception and no handle on the transaction.  (C05: a transaction that does
not finish leaves no trace and blocks no one.)"""
import os
import shutil
import sys
import tempfile
import threading

import transaction

import ZODB
from ZODB.Connection import TransactionMetaData
from ZODB.FileStorage import FileStorage


def run(blobs):
    d = tempfile.mkdtemp()
    try:
        kw = lambda n: dict(blob_dir=os.path.join(d, n)) if blobs else {}
        src = FileStorage(os.path.join(d, 'src.fs'), **kw('sb'))
        db = ZODB.DB(src)
        c = db.open()
        for i in range(3):
            c.root()[i] = i
            transaction.commit()
        c.close()
        dst = FileStorage(os.path.join(d, 'dst.fs'), **kw('db'))
        calls = [0]
        orig = dst.restore

        def failing(*a, **k):
            calls[0] += 1
            if calls[0] == 2:
                raise OSError('No space left on device (injected)')
            return orig(*a, **k)
        dst.restore = failing
        try:
            dst.copyTransactionsFrom(src)
        except OSError as e:
            print('copy failed as injected:', e)
        dst.restore = orig
        done = []

        def later():
            t = TransactionMetaData()
            dst.tpc_begin(t)
            dst.tpc_abort(t)
            done.append(1)
        th = threading.Thread(target=later, daemon=True)
        th.start()
        th.join(5)
        ok = bool(done)
        if not ok:
            print('FAIL (%s): the destination still holds its commit lock: '
                  'tpc_begin blocks' % ('blobs' if blobs else 'no blobs'))
        db.close()
        return ok
    finally:
        shutil.rmtree(d, ignore_errors=True)


bad = [b for b in (False, True) if not run(b)]
if bad:
    os._exit(1)
print('ok')
