import os, shutil
shutil.rmtree("d19", ignore_errors=True); os.mkdir("d19")
from ZODB.MappingStorage import MappingStorage
from ZODB.blob import BlobStorage, Blob
from ZODB.Connection import TransactionMetaData
from ZODB.utils import z64, mktemp
import zodbpickle.pickle as pk
s = BlobStorage('d19/blobs', MappingStorage())
data = pk.dumps(Blob, 3) + pk.dumps(None, 3)
t1, other = TransactionMetaData(), TransactionMetaData()
s.tpc_begin(t1)
oid = s.new_oid()
tmp = mktemp(dir=s.temporaryDirectory()); open(tmp, 'wb').write(b'blob bytes')
s.storeBlob(oid, z64, data, tmp, '', t1)
s.tpc_abort(other)                     # a call with a transaction other than the one being committed
s.tpc_vote(t1); tid = s.tpc_finish(t1)
print("record committed:", s.load(oid)[1] == tid)
try:
    print("blob file:", s.loadBlob(oid, tid))
except Exception as e:
    print("BLOB FILE MISSING:", type(e).__name__, e)
