"""F25 (C12.R6, C13): a blob stored into the savepoint store and then rolled
back stays visible: TmpStore.loadBlob looks for the savepoint blob file by
name only, and the file of the rolled-back store is still there.  (On the
pinned tree every such file was found; after the F18 repair, which put the
record position into the name, the one written at position 0 still was,
because an oid missing from the index defaulted to position 0.)

committed blob 'old'; join; savepoint sp0; write 'new'; savepoint sp1;
sp0.rollback(); read the blob -> must be 'old'.
Run in an empty scratch directory."""
import transaction

import ZODB
import ZODB.blob
import ZODB.FileStorage

fs = ZODB.FileStorage.FileStorage('data.fs', blob_dir='blobs')
db = ZODB.DB(fs)
conn = db.open()
root = conn.root()
root['b'] = ZODB.blob.Blob(b'old')
transaction.commit()

root._p_changed = True             # join the transaction ...
root._p_changed = False            # ... without anything to store
sp0 = transaction.savepoint()      # nothing of the blob is in it
with root['b'].open('w') as f:
    f.write(b'new')
sp1 = transaction.savepoint()      # blob stored into the savepoint store
sp0.rollback()
with root['b'].open('r') as f:
    got = f.read()
print('blob after rollback to sp0:', got)
transaction.abort()
db.close()
if got != b'old':
    print('DEFECT: the rolled-back blob bytes are still served')
    raise SystemExit(1)
print('OK')
