"""F80: a new object that a savepoint stored and whose state the cache let go
of afterwards -- Connection.savepoint() itself ends with cacheGC(); or
cacheMinimize(), or _p_deactivate() -- was disowned as a ghost by abort, by a
rollback to an earlier savepoint and by a failed commit: its state was gone
for the application that still holds it, and adding it again failed at commit
(POSKeyError).  Needs only a cache smaller than the number of new objects.
(C11: every object that was new in the transaction belongs to no database any
more and can be added again later; C12: the same for a rollback.)
Reported by the C11 and C12 seeding agents of round 9."""
import sys

import transaction
from persistent import Persistent

import ZODB


class P(Persistent):
    def __init__(self, v=None):
        self.v = v


db = ZODB.DB(None, cache_size=5)
tm = transaction.TransactionManager()
conn = db.open(tm)
root = conn.root()
objs = [P(i) for i in range(20)]
root['objs'] = objs
tm.savepoint()                  # stores the 20 objects, then cacheGC()
tm.abort()
empty = [i for i, o in enumerate(objs) if o.__dict__ != {'v': i}]
owned = [i for i, o in enumerate(objs) if o._p_jar is not None]
print('after savepoint + abort: %d of 20 new objects without their state, '
      '%d still owned' % (len(empty), len(owned)))
bad = bool(empty or owned)
root['objs'] = objs
try:
    tm.commit()
except Exception as e:
    print('adding them again fails: %s: %s' % (type(e).__name__, e))
    tm.abort()
    bad = True
else:
    c2 = db.open(transaction.TransactionManager())
    got = [o.v for o in c2.root()['objs']]
    if got != list(range(20)):
        print('another connection reads', got)
        bad = True
db.close()
if bad:
    print('F80: new objects lost their state when they were disowned')
    sys.exit(1)
