"""F32 (C08/C13): the blob sweep of BlobStorage.pack (the wrapper used over
storages without blob support) removes the blob file of a transaction that
is between storeBlob and tpc_finish: the file is already in the blob
directory, its record is not committed yet, so the sweep takes it for
garbage.  The transaction then commits a blob record without a file.

Single-threaded schedule: T begins and stores a blob (file moved into the
blob directory); pack(now) runs; T votes and finishes.

Expected: the committed blob can be read.  Exit 1 if its file is gone.
"""
import os
import shutil
import sys
import tempfile
import time

import transaction

import ZODB
from ZODB.blob import Blob
from ZODB.blob import BlobStorage
from ZODB.MappingStorage import MappingStorage
from ZODB.FileStorage import FileStorage
from ZODB.serialize import referencesf


def run(kind, tmp):
    blob_dir = os.path.join(tmp, kind + '-blobs')
    base = MappingStorage() if kind == 'mapping' else FileStorage(
        os.path.join(tmp, kind + '.fs'))
    bs = BlobStorage(blob_dir, base)
    db = ZODB.DB(bs)
    conn = db.open()
    root = conn.root()
    root['keep'] = 1
    transaction.commit()
    time.sleep(0.01)

    # the commit of T, interrupted between the stores and the vote by a
    # pack of another thread (run inline here)
    tm = transaction.TransactionManager()
    c2 = db.open(tm)
    c2.root()['b'] = Blob(b'bytes of T')
    txn = tm.get()
    c2.tpc_begin(txn)
    c2.commit(txn)
    db.pack(time.time())                    # <-- the other thread
    c2.tpc_vote(txn)
    c2.tpc_finish(txn)
    tm.abort() if False else None

    conn.sync()
    try:
        with conn.root()['b'].open() as f:
            data = f.read()
        ok = data == b'bytes of T'
        err = ''
    except Exception as e:
        ok, err = False, '%s: %s' % (type(e).__name__, e)
    print('%s: blob committed during the pack readable: %s %s' % (
        kind, ok, err))

    # second schedule: T2 rewrites the committed blob, the pack runs, T2
    # is aborted: the committed revision must still have its file
    if ok:
        c2.close()
        c2 = db.open(tm)
        with c2.root()['b'].open('w') as f:
            f.write(b'bytes of T2')
        txn = tm.get()
        c2.tpc_begin(txn)
        c2.commit(txn)
        time.sleep(0.01)
        db.pack(time.time())
        c2.tpc_abort(txn)
        tm.abort()
        conn.sync()
        conn.cacheMinimize()
        try:
            with conn.root()['b'].open() as f:
                data = f.read()
            ok2 = data == b'bytes of T'
            err = ''
        except Exception as e:
            ok2, err = False, '%s: %s' % (type(e).__name__, e)
        print('%s: committed blob readable after a pack during an aborted '
              'rewrite: %s %s' % (kind, ok2, err))
        ok = ok and ok2
    db.close()
    return ok


def main():
    tmp = tempfile.mkdtemp(prefix='f32')
    try:
        # (over a FileStorage the same happens with a second thread: the
        # sweep runs after the wrapped pack has released the commit lock)
        results = [run('mapping', tmp)]
        if not all(results):
            print('F32: the pack removed the blob file of a transaction '
                  'that committed during the pack')
            return 1
        print('ok')
        return 0
    finally:
        shutil.rmtree(tmp, ignore_errors=True)


if __name__ == '__main__':
    sys.exit(main())
