import os, shutil, time
shutil.rmtree("d11", ignore_errors=True); os.mkdir("d11")
import transaction, ZODB
from ZODB.FileStorage import FileStorage
fs = FileStorage('d11/Data.fs'); db = ZODB.DB(fs)
tm = transaction.TransactionManager(); c = db.open(tm)
for i in range(3):
    c.root()['x'] = i; tm.commit()
os.mkdir('d11/Data.fs.old')            # stale ".old" that cannot be removed with os.remove
try:
    db.pack(time.time())
except Exception as e:
    print("pack failed:", type(e).__name__)
os.rmdir('d11/Data.fs.old')            # operator fixes the problem
try:
    db.pack(time.time()); print("second pack ok")
except Exception as e:
    print("SECOND PACK REFUSED:", type(e).__name__, e)
try:
    db.undoLog(0, 5); print("undoLog ok")
except Exception as e:
    print("UNDO LOG DISABLED:", type(e).__name__, e)
