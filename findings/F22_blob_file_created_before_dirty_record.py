import os, shutil, sys
shutil.rmtree("d22", ignore_errors=True); os.mkdir("d22")
from ZODB.FileStorage import FileStorage
from ZODB.blob import Blob
import ZODB.blob
from ZODB.Connection import TransactionMetaData
from ZODB.utils import z64, mktemp
import zodbpickle.pickle as pk
fs = FileStorage('d22/Data.fs', blob_dir='d22/blobs')
data = pk.dumps(Blob, 3) + pk.dumps(None, 3)
def blobfiles():
    out=[]
    for p,d,f in os.walk('d22/blobs'):
        out += [x for x in f if x.endswith('.blob')]
    return out
t = TransactionMetaData(); fs.tpc_begin(t); oid = fs.new_oid()
tmp = mktemp(dir=fs.temporaryDirectory()); open(tmp, 'wb').write(b'bytes')
real_chmod = os.chmod
def failing_chmod(*a, **k): raise OSError(28, "injected failure")
ZODB.blob.os.chmod = failing_chmod          # fault: the chmod after the rename fails
try:
    fs.storeBlob(oid, z64, data, tmp, '', t)
except OSError as e:
    print("storeBlob failed:", e)
ZODB.blob.os.chmod = real_chmod
fs.tpc_abort(t)
print("blob files after abort:", blobfiles(), "dirty:", fs.dirty_oids)
