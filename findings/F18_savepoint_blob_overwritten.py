import os, shutil
shutil.rmtree("d18", ignore_errors=True); os.mkdir("d18")
import transaction, ZODB
from ZODB.FileStorage import FileStorage
from ZODB.blob import Blob
fs = FileStorage('d18/Data.fs', blob_dir='d18/blobs'); db = ZODB.DB(fs)
tm = transaction.TransactionManager(); c = db.open(tm)
b = c.root()['b'] = Blob(b'committed'); tm.commit()
with b.open('w') as f: f.write(b'one')
sp1 = tm.savepoint()
with b.open('r') as f: print("at sp1:", f.read())
with b.open('w') as f: f.write(b'two')
sp2 = tm.savepoint()
with b.open('r') as f: print("at sp2:", f.read())
sp1.rollback()
with b.open('r') as f: print("after rollback to sp1 (expect b'one'):", f.read())
tm.commit()
c2 = db.open(transaction.TransactionManager())
with c2.root()['b'].open('r') as f: print("committed value seen elsewhere (expect b'one'):", f.read())
