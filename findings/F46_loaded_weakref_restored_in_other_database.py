"""F46 (C14): a persistent weak reference loaded from its own database has
no database_name; storing it from an object of ANOTHER database of the
multi-database needs that name (the reference becomes a cross-database one)
and fails with AttributeError in ObjectWriter.persistent_id.

Expected: the graph can be stored and the reference still leads to the same
object.  Exit 1 otherwise.
"""
import sys

import transaction

import ZODB
from ZODB.MappingStorage import MappingStorage
from persistent.mapping import PersistentMapping
from persistent.wref import WeakRef


def main():
    dbs = {}
    db1 = ZODB.DB(MappingStorage(), databases=dbs, database_name='1')
    db2 = ZODB.DB(MappingStorage(), databases=dbs, database_name='2')
    tm = transaction.TransactionManager()
    c1 = db1.open(tm)
    target = c1.root()['target'] = PersistentMapping({'v': 42})
    c1.root()['ref'] = WeakRef(target)
    tm.commit()
    c1.close()

    c1 = db1.open(tm)
    c1.cacheMinimize()
    loaded = c1.root()['ref']           # a WeakRef loaded from storage
    assert loaded()['v'] == 42
    c2 = c1.get_connection('2')
    c2.root()['holder'] = PersistentMapping({'ref': loaded})
    try:
        tm.commit()
    except Exception as e:
        tm.abort()
        print('F46: commit failed: %s: %s' % (type(e).__name__, e))
        return 1
    c1.close()
    c1 = db1.open(tm)
    c2 = c1.get_connection('2')
    got = c2.root()['holder']['ref']()
    ok = got is not None and got['v'] == 42 and \
        got._p_oid == c1.root()['target']._p_oid
    c1.close()
    if not ok:
        print('F46: the re-stored weak reference does not lead to the '
              'target')
        return 1
    print('ok')
    return 0


if __name__ == '__main__':
    sys.exit(main())
