"""F48 (C18): two backups of different kinds taken within the same second
share their file name up to the extension.  A full backup followed by an
incremental in the same second: find_files sorts `T.fs` after `T.deltafs`
and stops at the full backup, so the increment is ignored on recovery (and
`T.index` is overwritten); the recovered file is not the state of the last
backup.

Expected: recovery yields the data file as of the last backup -- or the
second backup is refused (WouldOverwriteFiles), as a second backup of the
SAME kind in that second already is.  Exit 1 otherwise.
"""
import os
import shutil
import sys
import tempfile
import time

import transaction

import ZODB
from ZODB.FileStorage import FileStorage
from ZODB.scripts import repozo


class Options:
    mode = repozo.BACKUP
    date = None
    output = None
    quick = False
    gzip = False
    killold = False
    withverify = False


def main():
    tmp = tempfile.mkdtemp(prefix='f48')
    try:
        path = os.path.join(tmp, 'Data.fs')
        repo = os.path.join(tmp, 'repo')
        os.mkdir(repo)
        db = ZODB.DB(FileStorage(path))
        conn = db.open()
        conn.root()['x'] = 1
        transaction.commit()
        now = time.gmtime()[:6]
        o = Options()
        o.file, o.repository, o.full, o.test_now = path, repo, True, now
        repozo.do_backup(o)
        conn.root()['x'] = 2
        transaction.commit()
        db.close()
        o = Options()
        o.file, o.repository, o.full, o.test_now = path, repo, False, now
        refused = False
        try:
            repozo.do_backup(o)
        except repozo.WouldOverwriteFiles as e:
            refused = True
            print('second backup in the same second refused:', e)
        if not refused:
            r = Options()
            r.mode, r.repository = repozo.RECOVER, repo
            r.output = os.path.join(tmp, 'Recovered.fs')
            r.test_now = tuple(now[:5]) + (now[5] + 1,)
            repozo.do_recover(r)
            with open(path, 'rb') as f:
                want = f.read()
            with open(r.output, 'rb') as f:
                got = f.read()
            if got != want:
                print('F48: recovery ignores the increment taken in the '
                      'same second as its full backup (%d of %d bytes)' % (
                          len(got), len(want)))
                return 1
        print('ok')
        return 0
    finally:
        shutil.rmtree(tmp, ignore_errors=True)


if __name__ == '__main__':
    sys.exit(main())
