import os, shutil
shutil.rmtree("d9", ignore_errors=True); os.mkdir("d9")
from ZODB.FileStorage import FileStorage
from ZODB.Connection import TransactionMetaData
fs = FileStorage('d9/Data.fs')
for i in range(4):
    t = TransactionMetaData(description='x'*30); fs.tpc_begin(t); fs.tpc_vote(t); fs.tpc_finish(t)
print("pos", fs._pos)
fs.close()
try:
    fs = FileStorage('d9/Data.fs'); print("reopen ok, used index:", fs._used_index, "pos", fs._pos); fs.close()
except Exception as e:
    print("REOPEN FAILS:", type(e).__name__, e)
