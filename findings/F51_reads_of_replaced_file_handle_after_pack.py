"""F51 (C08): two readers keep using the data-file handle a pack has
replaced and fail with `ValueError: seek of closed file`:

 (a) lastInvalidations() binds self._file BEFORE it takes the storage lock;
     a pack that completes while it waits for the lock leaves it with the
     closed handle;
 (b) undoLog() gives the storage lock up between batches of 20
     transactions; a pack that completes in such a gap leaves its search
     object with the closed handle (the pack-in-progress flag is tested at
     the start only).

Schedules are forced with a proxy around the storage lock (no sleeps).

Expected: (a) answers; (b) answers or reports UndoError ("disabled for
maintenance", as during a pack).  Exit 1 for any other exception.
"""
import os
import shutil
import sys
import tempfile
import threading
import time

import transaction

import ZODB
from ZODB.FileStorage import FileStorage
from ZODB.POSException import UndoError

TIMEOUT = 20


class LockProxy:
    """the storage lock, with a hook run by one chosen thread just before
    its n-th acquisition"""

    def __init__(self, lock):
        self._l = lock
        self.thread = None
        self.before = None
        self.nth = 1
        self.count = 0

    def acquire(self, *a, **k):
        if threading.get_ident() == self.thread:
            self.count += 1
            if self.count == self.nth and self.before is not None:
                h, self.before = self.before, None
                h()
        return self._l.acquire(*a, **k)

    def release(self):
        return self._l.release()

    def __enter__(self):
        self.acquire()
        return self

    def __exit__(self, *a):
        self.release()


def scenario(fs, db, call, nth):
    proxy = LockProxy(fs._lock)
    fs._lock = proxy
    result = {}
    packed = threading.Event()

    def pack_now():
        # run the pack in another thread and wait for it: this thread does
        # not hold the storage lock here
        def p():
            try:
                db.pack(time.time())
            except Exception as e:
                result['pack'] = '%s: %s' % (type(e).__name__, e)
            packed.set()
        threading.Thread(target=p).start()
        packed.wait(TIMEOUT)

    def reader():
        proxy.thread = threading.get_ident()
        proxy.nth = nth
        proxy.before = pack_now
        try:
            result['value'] = call()
        except Exception as e:
            result['error'] = e

    t = threading.Thread(target=reader)
    t.start()
    t.join(3 * TIMEOUT)
    fs._lock = proxy._l
    return result


def main():
    tmp = tempfile.mkdtemp(prefix='f51')
    bad = []
    try:
        for name, nth in (('lastInvalidations', 1), ('undoLog', 2)):
            path = os.path.join(tmp, name + '.fs')
            fs = FileStorage(path)
            db = ZODB.DB(fs)
            conn = db.open()
            for i in range(60):
                conn.root()['x'] = i
                transaction.commit()
            if name == 'lastInvalidations':
                r = scenario(fs, db, lambda: fs.lastInvalidations(5), nth)
            else:
                r = scenario(fs, db, lambda: fs.undoLog(0, -50), nth)
            err = r.get('error')
            if 'pack' in r:
                print('DEMO ERROR', r['pack'])
                return 2
            if err is None:
                print('%s: answered (%d entries)' % (name, len(r['value'])))
            elif isinstance(err, UndoError):
                print('%s: UndoError (%s)' % (name, err))
            else:
                print('%s: %s: %s' % (name, type(err).__name__, err))
                bad.append(name)
            db.close()
        if bad:
            print('F51: %s failed because of the pack' % ', '.join(bad))
            return 1
        print('ok')
        return 0
    finally:
        shutil.rmtree(tmp, ignore_errors=True)


if __name__ == '__main__':
    sys.exit(main())
