import os, shutil, time
shutil.rmtree("d20", ignore_errors=True); os.mkdir("d20")
import transaction, ZODB
from ZODB.FileStorage import FileStorage
from ZODB.blob import Blob
fs = FileStorage('d20/Data.fs', blob_dir='d20/blobs'); db = ZODB.DB(fs)
tm = transaction.TransactionManager(); c = db.open(tm)
b = c.root()['b'] = Blob(b'first'); tm.commit()
del c.root()['b']; tm.commit()              # unreachable from the root from here on
time.sleep(0.01); T = time.time(); time.sleep(0.01)
with b.open('w') as f: f.write(b'second')   # written again after T and linked again
c.root()['b'] = b; tm.commit()
def blobfiles():
    out=[]
    for p,d,f in os.walk('d20/blobs'):
        out += [x for x in f if x.endswith('.blob')]
    return out
print("blob files before pack:", len(blobfiles()))
db.pack(T)
print("blob files after pack :", len(blobfiles()))
c2 = db.open(transaction.TransactionManager())
try:
    with c2.root()['b'].open('r') as f: print("read after pack:", f.read())
except Exception as e:
    print("READ AFTER PACK FAILS:", type(e).__name__, str(e)[:100])
