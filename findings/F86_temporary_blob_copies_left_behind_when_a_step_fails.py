"""F86: three places create a temporary file in the blob directory (its tmp
subdirectory), fill it and hand it over to the storage -- and left it there
when filling it, or the step before the hand-over, failed:

  * FileStorage._txn_undo_write: the copy of the previous blob bytes for an
    undo (disk full while copying);
  * blob.copyTransactionsFromTo: the CTFT*.tmp copy (the copy, or the
    destination's restore, failing);
  * ExportImport._importDuringCommit: the blob data of an imported record
    (the re-pickling of a damaged record failing).

After the abort the partial file stayed in <blob_dir>/tmp for ever.  (C13:
after an abort or failed commit at any phase no file of that transaction
remains in the blob directory; C05.)  Reported by the C13 agents of rounds 9
and 11 and the C05 agents of rounds 9 and 11.  This script runs the first
history; exit 1 = a file was left behind."""
import errno
import os
import shutil
import sys
import tempfile

import transaction

import ZODB
import ZODB.FileStorage
from ZODB.blob import Blob
from ZODB.FileStorage import FileStorage

FSmod = sys.modules['ZODB.FileStorage.FileStorage']


def listing(top):
    r = []
    for dp, dn, fn in os.walk(top):
        for n in fn:
            p = os.path.join(dp, n)
            r.append((os.path.relpath(p, top), os.path.getsize(p)))
    return sorted(r)


tmp = tempfile.mkdtemp()
try:
    blob_dir = os.path.join(tmp, 'blobs')
    db = ZODB.DB(FileStorage(os.path.join(tmp, 'data.fs'),
                             blob_dir=blob_dir))
    tm = transaction.TransactionManager()
    conn = db.open(tm)
    root = conn.root()
    root['b'] = Blob(b'first version ' * 1000)
    tm.commit()
    with root['b'].open('w') as f:
        f.write(b'second version ' * 1000)
    tm.get().note('second')
    tm.commit()
    second = [i for i in db.undoInfo(0, 10)
              if i['description'] in ('second', b'second')][0]['id']
    before = listing(blob_dir)
    real_cp = FSmod.cp

    def failing_cp(f1, f2, *a, **k):
        f2.write(f1.read(100))
        f2.flush()
        raise OSError(errno.ENOSPC, 'No space left on device (injected)')

    db.undo(second, tm.get())
    FSmod.cp = failing_cp
    try:
        try:
            tm.commit()
        except OSError:
            pass
        else:
            print('the fault was not hit: history is not the intended one')
            sys.exit(2)
    finally:
        FSmod.cp = real_cp
    tm.abort()
    extra = sorted(set(listing(blob_dir)) - set(before))
    print('left behind in the blob directory after the aborted undo: %r'
          % extra)
    db.close()
    if extra:
        print('F86: a partial copy stays in the blob directory')
        sys.exit(1)
finally:
    shutil.rmtree(tmp)
