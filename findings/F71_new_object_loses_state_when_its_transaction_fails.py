"""F71: an object that was new in a transaction loses its state when the
transaction fails after the object was stored: the connection ghostifies it
(as a "modified" object) BEFORE it disowns it.  A ghost without a database
cannot get its state back: the object the application still holds is empty,
and adding it again commits nothing usable (POSKeyError).  Three ways in:
(1) an explicitly added object, stored by a commit that then fails;
(2) a new object stored by a savepoint, then a commit that fails in a later
    phase (another participant vetoes): tpc_abort;
(3) a new object stored by a savepoint and modified again, then abort.
(C11: after an abort or a failed commit every object that was new in the
transaction belongs to no database any more and can be added again later.)"""
import sys

import transaction
from persistent.mapping import PersistentMapping as PM

import ZODB
from ZODB.MappingStorage import MappingStorage


class Unpicklable:
    def __reduce__(self):
        raise TypeError('cannot be pickled')


class Veto:
    """A second participant that vetoes in tpc_vote."""
    def sortKey(self):
        return 'zzz'

    def tpc_begin(self, t):
        pass

    def commit(self, t):
        pass

    def tpc_vote(self, t):
        raise RuntimeError('veto')

    def tpc_abort(self, t):
        pass

    abort = tpc_finish = tpc_abort


def state(n):
    try:
        return dict(n)
    except Exception as e:
        return 'lost (%s: %s)' % (type(e).__name__, e)


def check(label, n, conn, tm):
    ok = n._p_jar is None and n._p_oid is None and state(n) == {'x': 1}
    if ok:
        conn.root()['again'] = n            # add it again, later
        tm.commit()
        c2 = conn.db().open(transaction.TransactionManager())
        ok = dict(c2.root()['again']) == {'x': 1}
        c2.close()
    print('%-55s %s' % (label, 'ok' if ok else
                        'FAIL: jar %r, oid %r, state %r' % (
                            n._p_jar, n._p_oid, state(n))))
    return ok


def case1():
    db = ZODB.DB(MappingStorage())
    tm = transaction.TransactionManager()
    c = db.open(tm)
    n = PM(x=1)
    c.add(n)
    c.root()['bad'] = Unpicklable()
    try:
        tm.commit()
    except TypeError:
        tm.abort()
    return check('(1) added explicitly, commit fails after it was stored',
                 n, c, tm)


def case2():
    db = ZODB.DB(MappingStorage())
    tm = transaction.TransactionManager()
    c = db.open(tm)
    n = PM(x=1)
    c.root()['n'] = n
    tm.savepoint()
    tm.get().join(Veto())
    try:
        tm.commit()
    except RuntimeError:
        tm.abort()
    return check('(2) stored by a savepoint, another participant vetoes',
                 n, c, tm)


def case3():
    db = ZODB.DB(MappingStorage())
    tm = transaction.TransactionManager()
    c = db.open(tm)
    n = PM(x=0)
    c.root()['n'] = n
    tm.savepoint()
    n['x'] = 1                              # modified again: registered
    tm.abort()
    return check('(3) stored by a savepoint, modified again, abort',
                 n, c, tm)


import logging
logging.disable(logging.CRITICAL)
bad = [f.__name__ for f in (case1, case2, case3) if not f()]
if bad:
    sys.exit(1)
print('ok')
