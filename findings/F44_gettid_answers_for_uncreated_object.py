"""F44 (C04): getTid() answers with a transaction id for an object that does
not exist: when the object's current record is a backpointer whose chain
ends in an un-creation record (create, undo, redo, undo), load() and
loadBefore() raise POSKeyError but getTid() follows no chain.

Expected: getTid() raises POSKeyError as load() does.  Exit 1 otherwise.
"""
import os
import shutil
import sys
import tempfile

import transaction

import ZODB
from ZODB.FileStorage import FileStorage
from ZODB.POSException import POSKeyError
from persistent.mapping import PersistentMapping


def undo(db, note, newnote):
    tid = [d['id'] for d in db.undoLog(0, 20) if d['description'] == note]
    db.undo(tid[0])
    transaction.get().note(newnote)
    transaction.commit()


def main():
    tmp = tempfile.mkdtemp(prefix='f44')
    try:
        fs = FileStorage(os.path.join(tmp, 'Data.fs'))
        db = ZODB.DB(fs)
        conn = db.open()
        root = conn.root()
        transaction.get().note('root')
        root['keep'] = 1
        transaction.commit()
        root['x'] = PersistentMapping()
        transaction.get().note('create')
        transaction.commit()
        oid = root['x']._p_oid
        undo(db, 'create', 'undo1')
        undo(db, 'undo1', 'redo')
        undo(db, 'redo', 'undo2')
        answers = {}
        for name, call in (('load', lambda: fs.load(oid)),
                           ('getTid', lambda: fs.getTid(oid))):
            try:
                call()
                answers[name] = 'answers'
            except POSKeyError:
                answers[name] = 'POSKeyError'
        db.close()
        print(answers)
        if answers['load'] != answers['getTid']:
            print('F44: getTid() and load() disagree on whether the object '
                  'exists')
            return 1
        print('ok')
        return 0
    finally:
        shutil.rmtree(tmp, ignore_errors=True)


if __name__ == '__main__':
    sys.exit(main())
