"""F56: undo through the BlobStorage wrapper (BlobStorage(dir, FileStorage)
without the FileStorage's own blob_dir) discards a later blob change.  The
data records of a blob are all alike, so the wrapped storage's "was it
changed later?" test passes, and the wrapper copies the file of the revision
before the undone transaction into the undo revision: the bytes committed by
the LATER transaction are silently lost.  (C06: a later change that is
neither equal nor mergeable makes the undo fail; C03: no lost updates.)  A
FileStorage with its own blob_dir refuses the same undo."""
import os
import shutil
import sys
import tempfile

import transaction

import ZODB
from ZODB.blob import Blob
from ZODB.blob import BlobStorage
from ZODB.FileStorage import FileStorage
from ZODB.POSException import UndoError


def history(db, r):
    r['b'] = Blob(b'v1')
    transaction.get().note('T1')
    transaction.commit()
    for v in (b'v2', b'v3'):
        with r['b'].open('w') as f:
            f.write(v)
        transaction.get().note('T' + v.decode()[1:])
        transaction.commit()
    log = db.undoLog(0, 10)
    return {x['description']: x['id'] for x in log}


def read(c, r):
    c.sync()
    with r['b'].open('r') as f:
        return f.read()


d = tempfile.mkdtemp()
bad = 0
try:
    # 1. an older change undone, a later one not: must be refused
    p = os.path.join(d, 'one')
    os.mkdir(p)
    db = ZODB.DB(BlobStorage(os.path.join(p, 'blobs'),
                             FileStorage(os.path.join(p, 'Data.fs'))))
    c = db.open()
    r = c.root()
    ids = history(db, r)
    db.undo(ids['T2'])
    try:
        transaction.commit()
    except UndoError as e:
        transaction.abort()
        print('undo of T2 alone refused:', str(e).strip())
    else:
        print('undo of T2 alone accepted; blob now %r (T3 wrote b\'v3\')' %
              read(c, r))
        bad += 1
    db.close()
    # 2. both undone in one transaction, latest first: must work
    p = os.path.join(d, 'two')
    os.mkdir(p)
    db = ZODB.DB(BlobStorage(os.path.join(p, 'blobs'),
                             FileStorage(os.path.join(p, 'Data.fs'))))
    c = db.open()
    r = c.root()
    ids = history(db, r)
    db.undoMultiple([ids['T3'], ids['T2']])
    transaction.commit()
    got = read(c, r)
    print('undo of T3 and T2 in one transaction: blob now %r' % got)
    if got != b'v1':
        bad += 1
    # 3. the latest alone
    ids = {x['description']: x['id'] for x in db.undoLog(0, 10)}
    db.close()
finally:
    shutil.rmtree(d, ignore_errors=True)
if bad:
    print('FAIL')
    sys.exit(1)
print('ok')
