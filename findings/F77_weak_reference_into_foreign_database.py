"""F77: a weak reference to an object of a FOREIGN database (not a member of
the referrer's multi-database) is stored without complaint as
['w', (oid, database_name)] -- the weak-reference branch of the writer makes
none of the checks the ordinary branch makes.  When both databases have the
default name, loading the reference looks the oid up in the referrer's OWN
database: it silently resolves to an unrelated object.  An ordinary reference
in the same situation is refused (InvalidObjectReference).  (C14: references
are extracted and restored exactly.)"""
import sys

import transaction
from persistent.mapping import PersistentMapping as PM
from persistent.wref import WeakRef

import ZODB
from ZODB.MappingStorage import MappingStorage
from ZODB.POSException import InvalidObjectReference

dbA = ZODB.DB(MappingStorage())          # two independent databases, both
dbB = ZODB.DB(MappingStorage())          # with the default name 'unnamed'
tmA, tmB = transaction.TransactionManager(), transaction.TransactionManager()
cA, cB = dbA.open(tmA), dbB.open(tmB)
cA.root()['a-1'] = PM(name='a-1')        # oid 1 in A
tmA.commit()
cB.root()['target'] = PM(name='targetB')  # oid 1 in B
tmB.commit()
target = cB.root()['target']
cA.root()['w'] = WeakRef(target)
try:
    tmA.commit()
except InvalidObjectReference as e:
    print('refused:', str(e).split(',')[0][:70])
    print('ok')
    sys.exit(0)
c2 = dbA.open(transaction.TransactionManager())
got = c2.root()['w']()
print('stored; in another connection of A the weak reference gives: %r' %
      (dict(got) if got is not None else None,))
print('FAIL: a weak reference into a foreign database was stored; it '
      'resolves to an object of the referrer\'s own database')
sys.exit(1)
