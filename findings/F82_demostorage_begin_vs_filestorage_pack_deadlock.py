"""F82: a commit through a demo storage whose changes are a FileStorage
dead-locks with a pack of that FileStorage.  The demo storage uses the
changes storage's own storage lock (it copies `_lock`), and
DemoStorage.tpc_begin called changes.tpc_begin() while holding it: that call
waits for the FileStorage's commit lock.  FileStorage.pack() ends by holding
the commit lock and then taking the storage lock.  A commit that begins while
the pack is in its final phase blocks both threads for ever, and with them
every reader that needs the storage lock.  (C08: while a pack runs, other
threads can keep loading and committing.)  Reported by the C02 seeding agent
of round 9; the schedule is forced with two events.

exit 0 = both threads finish; exit 1 = dead-lock."""
import os
import shutil
import tempfile
import threading
import time

import transaction
from persistent.mapping import PersistentMapping

import ZODB
import ZODB.DemoStorage
import ZODB.FileStorage

tmp = tempfile.mkdtemp()
p = os.path.join(tmp, 'Base.fs')
bdb = ZODB.DB(ZODB.FileStorage.FileStorage(p))
with bdb.transaction() as c:
    c.root()['o'] = PersistentMapping(v=0)
bdb.close()
base = ZODB.FileStorage.FileStorage(p, read_only=True)
changes = ZODB.FileStorage.FileStorage(os.path.join(tmp, 'Changes.fs'))
db = ZODB.DB(ZODB.DemoStorage.DemoStorage(base=base, changes=changes))
tm = transaction.TransactionManager()
c = db.open(tm)
for i in range(3):
    c.root()['o']['v'] = i
    tm.commit()
time.sleep(0.01)

packer_has_commit_lock = threading.Event()
writer_in_tpc_begin = threading.Event()
real_packer = changes.packer


def packer(*a, **k):
    r = real_packer(*a, **k)          # returns holding the commit lock
    packer_has_commit_lock.set()
    writer_in_tpc_begin.wait(5)
    time.sleep(0.2)                   # let the writer block on the lock
    return r


changes.packer = packer
real_tpc_begin = changes.tpc_begin


def tpc_begin(*a, **k):
    writer_in_tpc_begin.set()
    return real_tpc_begin(*a, **k)


changes.tpc_begin = tpc_begin


def pack():
    db.pack(time.time())


def write():
    packer_has_commit_lock.wait(5)
    c.root()['o']['v'] = 99
    tm.commit()


ts = [threading.Thread(target=pack, daemon=True),
      threading.Thread(target=write, daemon=True)]
for t in ts:
    t.start()
for t in ts:
    t.join(10)
dead = [t for t in ts if t.is_alive()]
shutil.rmtree(tmp, ignore_errors=True)
if dead:
    print('F82: dead-lock between DemoStorage.tpc_begin and '
          'FileStorage.pack')
    os._exit(1)
print('both threads finished')
