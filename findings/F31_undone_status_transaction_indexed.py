"""F31 (C09/C17): a transaction stored with status 'u' (an undone
transaction of an old source, as copyTransactionsFrom / restore pass it on)
is entered into the live index -- and the index saved at close -- although
the scan of the data file skips such transactions.  The same file shows two
different states depending on whether the saved index is used.

Expected: the object of the 'u' transaction is equally (in)visible in the
running storage, after a reopen with the saved index, and after a reopen
with a full scan.  Exit 1 otherwise.
"""
import os
import shutil
import sys
import tempfile

from ZODB.Connection import TransactionMetaData
from ZODB.FileStorage import FileStorage
from ZODB.POSException import POSKeyError
from ZODB.utils import p64
from ZODB.utils import u64


def visible(fs, oid):
    try:
        fs.load(oid)
        return True
    except POSKeyError:
        return False


def main():
    tmp = tempfile.mkdtemp(prefix='f31')
    try:
        path = os.path.join(tmp, 'Data.fs')
        fs = FileStorage(path)
        oid1, oid2 = p64(1), p64(2)
        t = TransactionMetaData()
        fs.tpc_begin(t)
        fs.store(oid1, b'\0' * 8, b'x' * 30, '', t)
        fs.tpc_vote(t)
        fs.tpc_finish(t)
        # an undone transaction of the source, restored with its status
        t = TransactionMetaData()
        utid = p64(u64(fs.lastTransaction()) + 1000)
        fs.tpc_begin(t, utid, 'u')
        fs.restore(oid2, utid, b'y' * 30, '', None, t)
        fs.tpc_vote(t)
        fs.tpc_finish(t)
        t = TransactionMetaData()
        fs.tpc_begin(t)
        fs.store(oid1, fs.getTid(oid1), b'z' * 30, '', t)
        fs.tpc_vote(t)
        fs.tpc_finish(t)
        live = visible(fs, oid2)
        fs.close()
        fs = FileStorage(path)
        used = fs._used_index
        with_index = visible(fs, oid2)
        fs._is_read_only = True      # do not re-save the index
        fs.close()
        os.remove(path + '.index')
        fs = FileStorage(path)
        scanned = visible(fs, oid2)
        fs.close()
        print('object of the undone transaction visible: running=%s, '
              'reopened with saved index (used=%s)=%s, full scan=%s' % (
                  live, used, with_index, scanned))
        if not (live == with_index == scanned):
            print('F31: the saved index invents a transaction the data '
                  'file does not show')
            return 1
        print('ok')
        return 0
    finally:
        shutil.rmtree(tmp, ignore_errors=True)


if __name__ == '__main__':
    sys.exit(main())
