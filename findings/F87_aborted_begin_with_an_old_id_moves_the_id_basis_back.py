"""F87: a transaction begun with an explicit id from the past -- as a copy or
a restore does -- and then aborted leaves its trace in the storage: the basis
for the ids to come (BaseStorage._ts) was set to the supplied id
unconditionally.  When the last committed id lies ahead of the wall clock (the
clock was set back, or the data were written on a machine whose clock was
ahead) the next ordinary transaction then gets an id BELOW the last committed
one; reopening the file reports "time-stamp reduction".  (C05: an aborted
transaction leaves the storage exactly as it was; C04: transaction ids
strictly increase in commit order even if the clock steps back.)  Reported
by the C05 agents of rounds 6, 9 and 11."""
import os
import shutil
import sys
import tempfile
import time

from ZODB.Connection import TransactionMetaData
from ZODB.FileStorage import FileStorage
from ZODB.TimeStamp import TimeStamp
from ZODB.utils import p64
from ZODB.utils import z64


def ts(t):
    return TimeStamp(*(time.gmtime(t)[:5] + (t % 60,))).raw()


def commit(s, oid, data, tid=None, abort=False):
    t = TransactionMetaData()
    if tid is None:
        s.tpc_begin(t)
    else:
        s.tpc_begin(t, tid)
    if abort:
        s.tpc_abort(t)
        return None
    try:
        serial = s.load(oid)[1]
    except KeyError:
        serial = z64
    s.store(oid, serial, data, '', t)
    s.tpc_vote(t)
    return s.tpc_finish(t)


tmp = tempfile.mkdtemp()
try:
    s = FileStorage(os.path.join(tmp, 'a.fs'))
    future = ts(time.time() + 3600)       # written while the clock was ahead
    old = ts(time.time() - 86400)
    commit(s, p64(1), b'a', tid=future)
    t2 = commit(s, p64(1), b'b')
    assert t2 > future
    commit(s, p64(2), b'x', tid=old, abort=True)      # begun and aborted
    t3 = commit(s, p64(1), b'c')
    print('the commit after the aborted begin got an id %s the last '
          'committed one' % ('later than' if t3 > t2 else 'BELOW'))
    s.close()
    if not t3 > t2:
        print('F87: the aborted begin moved the basis of the ids back')
        sys.exit(1)
finally:
    shutil.rmtree(tmp)
