"""F28 (C06/C07): pack redirects a backpointer into a multi-undo transaction
to the FIRST record of the object in it; FileStorage itself (load, undo,
_data_find) uses the LAST.

History: T1..T3 write x = 1..3; pack time taken; U = undoMultiple([T3, T2])
(two records for x in U: x=2 then x=1); T4 writes x=4; V = undo(T4) (a
backpointer to U's last record, x == 1).  pack(packtime) copies U, T4, V
with copyRest and PackCopier._data_find resolves V's backpointer.

Expected: x == 1 before and after the pack.  Exit 1 if not.
"""
import os
import shutil
import sys
import tempfile
import time

import transaction

import ZODB
from ZODB.FileStorage import FileStorage
from persistent.mapping import PersistentMapping


def main():
    tmp = tempfile.mkdtemp(prefix='f28')
    try:
        fs = FileStorage(os.path.join(tmp, 'Data.fs'))
        db = ZODB.DB(fs)
        conn = db.open()
        root = conn.root()
        root['x'] = PersistentMapping()
        transaction.commit()
        for v in (1, 2, 3):
            root['x']['v'] = v
            transaction.get().note('T%d' % v)
            transaction.commit()
        time.sleep(0.01)
        packtime = time.time()
        time.sleep(0.01)
        log = db.undoLog(0, 10)
        ids = {d['description']: d['id'] for d in log}
        db.undoMultiple([ids['T3'], ids['T2']])
        transaction.get().note('U')
        transaction.commit()
        conn.sync()
        assert root['x']['v'] == 1, root['x']['v']
        root['x']['v'] = 4
        transaction.get().note('T4')
        transaction.commit()
        ids = {d['description']: d['id'] for d in db.undoLog(0, 10)}
        db.undo(ids['T4'])
        transaction.get().note('V')
        transaction.commit()
        conn.sync()
        before = root['x']['v']
        db.pack(packtime)
        conn.cacheMinimize()
        conn.sync()
        after = root['x']['v']
        db.close()
        db = ZODB.DB(FileStorage(os.path.join(tmp, 'Data.fs')))
        reopened = db.open().root()['x']['v']
        db.close()
        print('before pack', before, 'after pack', after, 'reopened',
              reopened)
        if (before, after, reopened) != (1, 1, 1):
            print('F28: pack changed the current state of x')
            return 1
        print('ok')
        return 0
    finally:
        shutil.rmtree(tmp, ignore_errors=True)


if __name__ == '__main__':
    sys.exit(main())
