#!/venv/bin/python
"""Maintenance helper (not used by any check): regenerate the measured
tables of DESIGN.md between their markers from the evidence files, the rule
registry and the kept seeded changes.

    <!-- BEGIN:asbuilt --> ... <!-- END:asbuilt -->
    <!-- BEGIN:rules -->   ... <!-- END:rules -->
    <!-- BEGIN:seeded -->  ... <!-- END:seeded -->
"""
import glob
import json
import os
import re
import sys

sys.path.insert(0, '/verif')
from zverif import engine  # noqa: E402
from zverif import rules  # noqa: E402,F401

PROPS = ['C%02d' % i for i in range(1, 21)]


def asbuilt():
    out = ['| prop | own rules | shared rules (owned by another property) | '
           'rule instances | CFG nodes | (node, state) pairs | quick |',
           '|------|-----------|------------------------------------------|'
           '---------------:|----------:|--------------------:|------:|']
    for p in PROPS:
        d = json.load(open('/verif/evidence/%s.json' % p))
        c = d['coverage']
        own = [r['id'].split('.')[1] for r in c['rules']
               if r['id'].startswith(p + '.')]
        shared = [r['id'] for r in c['rules'] if not r['id'].startswith(p + '.')]
        out.append('| %s | %s | %s | %d | %d | %d | %.1f s |' % (
            p, ' '.join(own), ' '.join(shared) or '–', c['evaluations'],
            c['cfg_nodes'], c['state_pairs'], d['wall_s']))
    return '\n'.join(out)


def rules_table():
    out = ['| rule | also decides | statement (as printed by the check) | '
           'instances today / minimum |',
           '|------|--------------|--------------------------------------|'
           '---------------------------|']
    inst = {}
    for p in PROPS:
        d = json.load(open('/verif/evidence/%s.json' % p))
        for r in d['coverage']['rules']:
            inst[r['id']] = (r['instances'], r['min_instances'])
    regs = engine.RULES if hasattr(engine, 'RULES') else engine.REGISTRY
    for rid in sorted(regs, key=lambda x: (x.split('.')[0],
                                           int(x.split('.R')[1]))):
        rd = regs[rid]
        props = [q for q in (rd.props or []) if q != rid.split('.')[0]]
        i, m = inst.get(rid, ('?', rd.min_instances))
        out.append('| %s | %s | %s | %s / %s |' % (
            rid, ' '.join(props) or '–', ' '.join(rd.title.split()), i, m))
    return '\n'.join(out)


def seeded():
    out = ['| kept change | needs, to manifest | reported by | on arrival |',
           '|-------------|--------------------|-------------|------------|']
    n = {'own': 0, 'other': 0, 'missed': 0}
    per_round = {1: dict(n), 2: dict(n), 3: dict(n), 4: dict(n), 5: dict(n),
                 6: dict(n), 7: dict(n), 8: dict(n), 9: dict(n), 10: dict(n), 11: dict(n), 12: dict(n), 13: dict(n)}
    for p in sorted(glob.glob('/verif/seeded/*/meta.json')):
        d = json.load(open(p))
        name = os.path.basename(os.path.dirname(p))
        h = d.get('history', '')
        rnd = 13 if '(seeded round 13' in h else \
            12 if '(seeded round 12' in h else \
            11 if '(seeded round 11' in h else \
            10 if '(seeded round 10' in h else \
            9 if '(seeded round 9' in h else \
            8 if '(seeded round 8' in h else \
            7 if '(seeded round 7' in h else \
            6 if '(seeded round 6' in h else 5 if 'round 5' in h else \
            4 if 'round 4' in h else \
            3 if 'round 3' in h else 2 if 'round 2' in h else 1
        if h.startswith('MISSED'):
            k, txt = 'missed', 'missed'
        elif 'NOT under' in h or ' only;' in h:
            k, txt = 'other', 'another property\'s check only'
        else:
            k, txt = 'own', 'detected'
        if 'not counted in the round' not in h:
            per_round[rnd][k] += 1
        out.append('| `%s` (round %d) | %s | %s | %s |' % (
            name, rnd, d['needs_to_manifest'],
            ' '.join(d['expected']['rules']), txt))
    tot = []
    for rnd in (1, 2, 3, 4, 5, 6, 7, 8, 9, 10, 11, 12, 13):
        c = per_round[rnd]
        tot.append('round %d: %d changes, %d detected on arrival by the '
                   'property\'s own check, %d only by another property\'s '
                   'check, %d missed' % (rnd, sum(c.values()), c['own'],
                                         c['other'], c['missed']))
    return '\n'.join(out) + '\n\n' + '; '.join(tot) + '.'


def main():
    p = '/verif/DESIGN.md'
    s = open(p).read()
    for key, fn in (('asbuilt', asbuilt), ('rules', rules_table),
                    ('seeded', seeded)):
        a, b = '<!-- BEGIN:%s -->' % key, '<!-- END:%s -->' % key
        if a not in s:
            print('marker missing:', key)
            continue
        i, j = s.index(a) + len(a), s.index(b)
        s = s[:i] + '\n' + fn() + '\n' + s[j:]
    open(p, 'w').write(s)


if __name__ == '__main__':
    main()
