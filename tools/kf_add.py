#!/venv/bin/python
"""Maintenance helper (not used by any check): add an entry to
known_findings.json.
usage: kf_add.py ID PROPERTY RULE STATUS COMMIT MODULE FUNCTION STMT WHAT"""
import json
import sys
fid, prop, rule, status, commit, module, function, stmt, what = sys.argv[1:10]
p = '/verif/known_findings.json'
d = json.load(open(p))
e = {'id': fid, 'property': prop, 'rule': rule, 'status': status}
if commit != '-':
    e['commit'] = commit
e['construct'] = {'module': module, 'function': function, 'stmt': stmt}
if status == 'fixed':
    what = 'fixed: property=%s %s %s' % (prop, commit, what)
e['what'] = what
d['findings'] = [x for x in d['findings'] if not (x['id'] == fid and x['rule'] == rule and x['construct'] == e['construct'])] + [e]
with open(p, 'w') as f:
    f.write('{\n "comment": %s,\n "findings": [\n' % json.dumps(d['comment']))
    f.write(',\n'.join('  ' + json.dumps(x) for x in d['findings']))
    f.write('\n ]\n}\n')
