#!/venv/bin/python
"""Maintenance helper: confirm a seeded change delivered by a sub-agent and
keep it under /verif/seeded/.

usage: keep_seed.py WORKTREE NAME PROPERTY "needs ..." [RULE ...]   (no RULE = not detected)

Confirms, in the scratch worktree: the demo passes on the clean tree; the
patch applies; the pinned suite still passes with it; the demo fails with it;
the tree is restored.  Then records what the checks report for it."""
import json
import os
import shutil
import subprocess
import sys

wt, name, prop, needs = sys.argv[1:5]
rules = sys.argv[5:]
sd = os.path.join(wt, 'seeded', name)
env = dict(os.environ, PYTHONPATH=os.path.join(wt, 'src'))


def run(cmd, **kw):
    return subprocess.run(cmd, cwd=wt, env=env, capture_output=True,
                          text=True, **kw)


run(['git', 'checkout', '--', 'src'])
ran = []
r = run(['/venv/bin/python', os.path.join(sd, 'demo.py')], timeout=180)
ran.append('demo on clean tree: exit %d' % r.returncode)
assert r.returncode == 0, ('demo fails on the clean tree', r.stdout[-500:],
                           r.stderr[-500:])
r = run(['git', 'apply', os.path.join(sd, 'patch.diff')])
assert r.returncode == 0, r.stderr
try:
    r = run(['/venv/bin/python', '-m', 'pytest', '-q', '-p',
             'no:cacheprovider', '--timeout=900'], timeout=900)
    tail = r.stdout.strip().splitlines()[-1]
    ran.append('pinned suite with the change: %s' % tail)
    assert r.returncode == 0 and '137 passed' in tail, tail
    r = run(['/venv/bin/python', os.path.join(sd, 'demo.py')], timeout=180)
    ran.append('demo with the change: exit %d' % r.returncode)
    assert r.returncode != 0, 'demo passes with the change'
    demo_out = (r.stdout + r.stderr).strip().splitlines()[-3:]
finally:
    run(['git', 'checkout', '--', 'src'])
dst = os.path.join('/verif/seeded', '%s-%s' % (prop, name))
assert not os.path.exists(dst), 'a kept change of that name exists: ' + dst
os.makedirs(dst)
for fn in ('patch.diff', 'demo.py', 'notes.md'):
    if os.path.exists(os.path.join(sd, fn)):
        shutil.copy(os.path.join(sd, fn), os.path.join(dst, fn))
r = subprocess.run(['/venv/bin/python', '-m', 'zverif', 'seeded',
                    os.path.join(dst, 'patch.diff')], cwd='/verif',
                   capture_output=True, text=True)
report = [l for l in r.stdout.splitlines() if l.strip()]
meta = {
    'property': prop,
    'source': 'independent sub-agent given only the property text and a '
              'scratch worktree',
    'needs_to_manifest': needs,
    'confirmed': ran,
    'demo_output_with_change': demo_out,
    'checks_report': report,
    'expected': {'detected': bool(rules), 'rules': rules,
                 'properties': sorted({x.split('.')[0] for x in rules} |
                                      {prop})},
}
with open(os.path.join(dst, 'meta.json'), 'w') as f:
    json.dump(meta, f, indent=1)
print(dst, 'kept;', 'detected by ' + ' '.join(rules) if rules
      else 'NOT detected')
for l in report:
    print('   ', l)
