"""Regression of the checks against the kept seeded changes
(/verif/seeded/<id>/patch.diff + meta.json): each patch is applied to a
scratch copy of /repo/src (never to /repo), every property's quick check is
run on the copy, and the result is compared with meta.json's expectation.

    python -m zverif seeded            # all kept changes
    python -m zverif seeded PATCH      # one patch file, print what fires
"""

import io
import json
import os
import shutil
import subprocess
import sys
import tempfile
from concurrent.futures import ProcessPoolExecutor

from . import SRC, VERIF

ALL = ['C%02d' % i for i in range(1, 21)]


def _check(args):
    pid, src = args
    from . import engine
    out = io.StringIO()
    rc = engine.check_property(pid, 'quick', 0, out=out, src=src,
                               write_evidence=False, write_replays=False)
    text = out.getvalue()
    fired = sorted({l.split()[1] for l in text.splitlines()
                    if l.startswith('--- ')})
    return pid, rc, fired, text


def apply_patch(patch, src=SRC):
    d = tempfile.mkdtemp(prefix='zverif-seed-')
    os.makedirs(os.path.join(d, 'src'))
    shutil.copytree(os.path.join(src, 'ZODB'), os.path.join(d, 'src', 'ZODB'),
                    ignore=shutil.ignore_patterns('__pycache__'))
    r = subprocess.run(['git', 'apply', '--whitespace=nowarn',
                        os.path.abspath(patch)], cwd=d, capture_output=True,
                       text=True)
    if r.returncode != 0:
        shutil.rmtree(d, ignore_errors=True)
        raise RuntimeError('patch does not apply: %s' % r.stderr.strip())
    return d


def run_patch(patch, props=None, jobs=16):
    d = apply_patch(patch)
    try:
        src = os.path.join(d, 'src')
        with ProcessPoolExecutor(max_workers=jobs) as ex:
            res = list(ex.map(_check, [(p, src) for p in (props or ALL)]))
    finally:
        shutil.rmtree(d, ignore_errors=True)
    return res


def run_for(pid, out=sys.stdout, jobs=16):
    """Thorough tier of one property: replay the kept seeded changes of that
    property on scratch copies of the CURRENT tree; its own check must
    report each of them.  A patch that no longer applies to the current tree
    is skipped (said so), not failed.  -> (failures, replayed, skipped)"""
    root = os.path.join(VERIF, 'seeded')
    bad = n = skipped = 0
    rows = []
    for name in sorted(os.listdir(root)) if os.path.isdir(root) else []:
        mp = os.path.join(root, name, 'meta.json')
        pp = os.path.join(root, name, 'patch.diff')
        if not (os.path.exists(mp) and os.path.exists(pp)):
            continue
        meta = json.load(open(mp))
        if meta['property'] != pid:
            continue
        try:
            res = run_patch(pp, [pid], jobs=1)
        except RuntimeError:
            skipped += 1
            rows.append({'change': name, 'result': 'patch does not apply to '
                         'the current tree: skipped'})
            continue
        n += 1
        (_, rc, fired, text), = res
        ok = rc == 1 and bool(fired)
        rows.append({'change': name, 'reported_by': fired,
                     'result': 'reported' if ok else 'NOT reported'})
        if not ok:
            bad += 1
            print('SEEDED-FAIL kept change %s is not reported by the check '
                  'of %s (rc=%d)' % (name, pid, rc), file=out)
    print('seeded %s: %d kept changes replayed, %d skipped, %d failures' % (
        pid, n, skipped, bad), file=out)
    p = os.path.join(VERIF, 'evidence', pid + '.json')
    if os.path.exists(p):
        with open(p) as f:
            ev = json.load(f)
        ev['coverage']['seeded_replay'] = {
            'replayed': n, 'skipped': skipped, 'failures': bad,
            'changes': rows}
        with open(p, 'w') as f:
            json.dump(ev, f, indent=1, default=str)
    return bad, n, skipped


def main(argv):
    if argv:
        res = run_patch(argv[0])
        any_ = False
        for pid, rc, fired, text in res:
            if rc != 0:
                any_ = True
                print('%s rc=%d %s' % (pid, rc, ' '.join(fired)))
                if rc == 2 or '-v' in argv:
                    print(text)
                else:
                    for l in text.splitlines():
                        if l.startswith('    at ') or l.startswith(
                                '    construct'):
                            print('   ' + l)
        if not any_:
            print('NOT DETECTED by any check')
        return 0
    root = os.path.join(VERIF, 'seeded')
    bad = 0
    n = 0
    for name in sorted(os.listdir(root)) if os.path.isdir(root) else []:
        mp = os.path.join(root, name, 'meta.json')
        pp = os.path.join(root, name, 'patch.diff')
        if not (os.path.exists(mp) and os.path.exists(pp)):
            continue
        meta = json.load(open(mp))
        n += 1
        exp = meta.get('expected', {})
        props = sorted(set(exp.get('properties', [meta['property']])))
        res = run_patch(pp, props)
        fired = {r for pid, rc, f, t in res for r in f}
        own = {r for pid, rc, f, t in res for r in f
               if pid == meta['property']}
        errs = [pid for pid, rc, f, t in res if rc == 2]
        if exp.get('detected', True):
            want = set(exp.get('rules', []))
            # the change must be reported by the check of the property it
            # breaks, not only by another property's check
            ok = bool(own) and want <= fired and not errs
        else:
            ok = not fired and not errs
        print('%-40s %s fired=%s' % (name, 'ok' if ok else 'MISMATCH',
                                     sorted(fired)))
        if not ok:
            bad += 1
    print('seeded: %d kept changes, %d mismatches' % (n, bad))
    return 2 if bad else 0


if __name__ == '__main__':
    sys.exit(main(sys.argv[1:]))
