"""Breaker variants and benign twins for the checker's self-test.

Each variant is an edit of the analysed source computed on the *current*
tree by exact-once text substitution inside one function (located through the
ast, so the edit follows the function when lines move).  If the anchor text is
no longer present the variant reports an error -- the self-test then fails as
ANALYSIS-ERROR rather than passing vacuously."""

import ast
import os


class Variant:
    def __init__(self, property, id, kind, rule, files=None, error=None):
        self.property = property
        self.id = id
        self.kind = kind        # 'breaker' | 'twin'
        self.rule = rule
        self.files = files or {}
        self.error = error


SPECS = []   # (property, id, kind, rule, relpath, function qualname, old, new)


def breaker(prop, vid, rule, relpath, func, old, new):
    SPECS.append((prop, vid, 'breaker', rule, relpath, func, old, new))


def twin(prop, vid, relpath, func, old, new):
    SPECS.append((prop, vid, 'twin', None, relpath, func, old, new))


def _func_span(tree, qual):
    """(first line, last line) of the function/class `A.b` in a module."""
    parts = qual.split('.')
    body = tree.body
    node = None
    for p in parts:
        node = None
        for n in body:
            if isinstance(n, (ast.FunctionDef, ast.ClassDef,
                              ast.AsyncFunctionDef)) and n.name == p:
                node = n
                break
        if node is None:
            return None
        body = node.body
    first = min([node.lineno] + [d.lineno for d in node.decorator_list])
    return first, node.end_lineno


def apply_edit(src_root, relpath, func, old, new):
    path = os.path.join(src_root, relpath)
    with open(path) as f:
        text = f.read()
    if func is None:
        if text.count(old) != 1:
            raise ValueError('anchor text occurs %d times in %s' % (
                text.count(old), relpath))
        return text.replace(old, new)
    tree = ast.parse(text)
    span = _func_span(tree, func)
    if span is None:
        raise ValueError('function %s not found in %s' % (func, relpath))
    lines = text.splitlines(keepends=True)
    seg = ''.join(lines[span[0] - 1:span[1]])
    if seg.count(old) != 1:
        raise ValueError('anchor text occurs %d times in %s of %s' % (
            seg.count(old), func, relpath))
    seg2 = seg.replace(old, new)
    out = ''.join(lines[:span[0] - 1]) + seg2 + ''.join(lines[span[1]:])
    ast.parse(out)      # the variant must still compile
    return out


def collect(pid, src_root):
    from . import variant_specs  # noqa: F401  (fills SPECS)
    out = []
    for prop, vid, kind, rule, relpath, func, old, new in SPECS:
        if pid and prop != pid:
            continue
        try:
            text = apply_edit(src_root, relpath, func, old, new)
            out.append(Variant(prop, vid, kind, rule, {relpath: text}))
        except (ValueError, SyntaxError, OSError) as e:
            out.append(Variant(prop, vid, kind, rule, error=str(e)))
    return out
