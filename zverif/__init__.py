"""zverif -- static-analysis checks for the ZODB properties C01..C20.

Nothing in this package imports or executes a ZODB module: every verdict is
computed from the syntax tree of /repo's working tree (see /verif/DESIGN.md).
"""

import os

REPO = os.environ.get('ZVERIF_REPO', '/repo')
SRC = os.path.join(REPO, 'src')
VERIF = os.path.dirname(os.path.dirname(os.path.abspath(__file__)))


class AnalysisError(Exception):
    """The analysis itself cannot give a verdict (vanished anchor, vacuous
    rule, parse failure).  Reported as ANALYSIS-ERROR, exit status 2."""
