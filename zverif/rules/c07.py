"""C07 -- packing never changes what is observable at or after the pack time
(narrow: nothing reachable can be skipped by construction)."""

import ast

from ..engine import rule
from ..flow import PRUNE, Violation, cmp_sides, explore, implied_atoms, \
    path_ends, \
    path_is, prov_has, provenance, store_value
from ..model import dotted, walk_local
from ..twopc import FS, MS
from .c05 import has_effect

GC = 'ZODB.FileStorage.fspack.GC'
PACKER = 'ZODB.FileStorage.fspack.FileStoragePacker'


def self_effect(F, node):
    """stores to / calls on the storage itself, or file-system calls"""
    for op in F.ops(node):
        if op.path is None:
            continue
        if op.kind in ('store', 'aug', 'setitem', 'delitem', 'del') and \
                op.path[0] == 'self':
            return True
        if op.kind == 'call' and (op.path[0] == 'self' and len(op.path) >= 2
                                  or op.path[0] in ('@os', '@shutil')):
            if op.path[:3] == ('@os', 'path'):
                continue
            return True
    return node.kind == 'acq'


def calls_self(F, node, name):
    return any(op.kind == 'call' and path_is(op.path, ('self', name))
               for op in F.ops(node))


@rule('C07.R1', 'reachability is computed from the root as of the pack time '
      'and extended by the records written later', min_instances=1)
def r1(R):
    cls = R.prog.cls(GC)
    f = R.method(cls, 'findReachable')
    g, b, F = R.cfg(f, cls, max_depth=0)
    R.instance('GC.findReachable')

    def edge(node, st, lab, tgt):
        done, gc = st
        if node.kind == 'test' and lab in ('T', 'F'):
            for e, truth in implied_atoms(node.ast, lab):
                if dotted(e) == ('self', 'gc'):
                    gc = truth
        if lab != 'e':
            for op in F.ops(node):
                if op.kind == 'call' and op.path and op.path[0] == 'self' \
                        and len(op.path) == 2:
                    if op.path[1] == 'findReachableAtPacktime':
                        a = op.ast.args[0] if op.ast.args else None
                        root_ok = isinstance(a, (ast.List, ast.Tuple)) and \
                            len(a.elts) == 1 and dotted(a.elts[0]) == ('z64',)
                        if not root_ok:
                            return Violation(
                                'the reachability scan does not start from '
                                'the root object (z64)')
                    done = done | {op.path[1]}
        return (frozenset(done), gc)

    def at(node, st):
        done, gc = st
        if node.id == g.exit_return:
            need = {'buildPackIndex'}
            if gc is not False:
                need |= {'findReachableAtPacktime', 'findReachableFromFuture'}
            missing = need - done
            if missing:
                return Violation(
                    'findReachable can finish without %s: objects that are '
                    'reachable at or after the pack time are treated as '
                    'garbage' % ', '.join(sorted(missing)))
        return st

    vs, stats = explore(g, (frozenset(), None), at=at, edge=edge)
    R.count(stats)
    for v in vs:
        R.violation((f.module.relpath, f.qualname, 'reachability passes'),
                    v.message, g, v.path)


@rule('C07.R2', 'every later record whose data lives before the pack '
      'position keeps that data reachable, and what it refers to',
      min_instances=1)
def r2(R):
    cls = R.prog.cls(GC)
    f = R.method(cls, 'findReachableFromFuture')
    g, b, F = R.cfg(f, cls, max_depth=0)
    R.instance('GC.findReachableFromFuture')
    seen = [0]

    def is_back_test(e):
        """dh.back < self.packpos"""
        return any(isinstance(l, ast.Attribute) and l.attr == 'back' and
                   op in (ast.Lt, ast.LtE) and
                   dotted(r) == ('self', 'packpos')
                   for l, op, r in cmp_sides(e))

    def marks(node):
        out = False
        for op in F.ops(node):
            if op.kind == 'setitem' and path_is(op.path, ('self', 'reachable')):
                out = True
            if op.kind == 'call' and op.path and op.path[0] == '%local' and \
                    op.path[-1] == 'append':
                pv = provenance(ast.Name(id=op.path[1], ctx=ast.Load()),
                                node.frame, F)
                if ('path', ('self', 'reach_ex')) in pv or prov_has(
                        pv, 'call', lambda p: p[:2] == ('self', 'reach_ex')):
                    out = True
        return out

    def edge(node, st, lab, tgt):
        if node.kind == 'test' and lab in ('T', 'F'):
            atoms = implied_atoms(node.ast, lab)
            if any(is_back_test(e) and truth for e, truth in atoms):
                seen[0] += 1
                return 'must-mark'
            # `if dh.back not in L` false: already recorded
            for e, truth in atoms:
                if isinstance(e, ast.Compare) and isinstance(
                        e.ops[0], ast.NotIn) and isinstance(
                            e.left, ast.Attribute) and \
                        e.left.attr == 'back' and not truth and \
                        st == 'must-mark':
                    return 'marked'
        if st == 'must-mark' and lab != 'e' and marks(node):
            return 'marked'
        if node.kind == 'loophead' and st == 'marked':
            return 'none'
        return st

    def at(node, st):
        if st == 'must-mark' and (node.kind == 'loophead' or
                                  node.id == g.exit_return):
            return Violation(
                'a record written after the pack time points back to data '
                'before the pack position, and a path through the scan does '
                'not mark that data reachable: the pack drops it and the '
                'later record loses its data')
        return st

    vs, stats = explore(g, 'none', at=at, edge=edge)
    R.count(stats)
    R.require(seen[0] or vs, 'the back-pointer test vanished')
    for v in vs:
        R.violation((f.module.relpath, f.qualname, 'mark back-pointer target'),
                    v.message, g, v.path)
    # extra roots are traversed
    loops = [l for l in walk_local(f.node) if isinstance(l, ast.For) and
             isinstance(l.iter, ast.Name)]
    ok = False
    roots_var = None
    for l in loops:
        src = ast.unparse(l)
        if 'findrefs' in src and 'findReachableAtPacktime' in src:
            pv = provenance(l.iter, g.root, F)
            ok = True
            roots_var = l.iter.id
    # a non-current revision kept for a later back-pointer becomes a root:
    # what IT refers to may be referenced by nothing else
    if roots_var is not None:
        def kept_extra(node):
            """L.append(<target>) with L from self.reach_ex -> target text"""
            for op in F.ops(node):
                if op.kind == 'call' and op.path and op.path[0] == '%local' \
                        and op.path[-1] == 'append' and op.path[1] != \
                        roots_var and op.ast.args:
                    pv2 = provenance(ast.Name(id=op.path[1], ctx=ast.Load()),
                                     node.frame, F)
                    if ('path', ('self', 'reach_ex')) in pv2 or prov_has(
                            pv2, 'call', lambda p: p[:2] == ('self',
                                                             'reach_ex')):
                        return ast.dump(op.ast.args[0])
                # `self.reachable[oid] = dh.back`: the same thing said in
                # the one-revision table (F34)
                if op.kind == 'setitem' and path_is(
                        op.path, ('self', 'reachable')) and isinstance(
                            op.stmt, ast.Assign) and isinstance(
                                op.stmt.value, ast.Attribute) and \
                        op.stmt.value.attr == 'back':
                    return ast.dump(op.stmt.value)
            return None

        def rooted(node):
            for op in F.ops(node):
                if op.kind == 'call' and op.path == ('%local', roots_var,
                                                     'append') and \
                        op.ast.args:
                    return ast.dump(op.ast.args[0])
            return None

        def edge_r(node, st, lab, tgt):
            if lab == 'e':
                return st
            k = kept_extra(node)
            if k is not None:
                return k
            r = rooted(node)
            if r is not None and r == st:
                return None
            return st

        def at_r(node, st):
            if st is not None and node.kind == 'loophead':
                return Violation(
                    'a non-current revision is kept because a later record '
                    'points back to it, but it is not queued as an extra '
                    'root: objects that only this old revision refers to '
                    'are garbage-collected although the later (undo) record '
                    'makes them reachable again')
            return st

        vs_r, stats_r = explore(g, None, at=at_r, edge=edge_r)
        R.count(stats_r)
        for v in vs_r:
            R.violation((f.module.relpath, f.qualname,
                         'kept revision queued as root'), v.message, g,
                        v.path)
    if not ok:
        R.violation((f.module.relpath, f.qualname, 'extra roots'),
                    'the objects referenced by non-current revisions kept '
                    'for later back-pointers are no longer traversed')


@rule('C07.R3', 'while copying, a record is skipped only if it is not '
      'reachable; every record of a later transaction is copied with its '
      'own oid and tid', min_instances=2)
def r3(R):
    cls = R.prog.cls(PACKER)
    f = R.method(cls, 'copyDataRecords')
    g, b, F = R.cfg(f, cls, max_depth=0)
    R.instance('FileStoragePacker.copyDataRecords')
    seen = [0]

    def edge(node, st, lab, tgt):
        if node.kind == 'loophead':
            return 'top'
        if node.kind == 'test' and lab in ('T', 'F'):
            for e, truth in implied_atoms(node.ast, lab):
                if isinstance(e, ast.Call) and dotted(e.func) and \
                        dotted(e.func)[-1] == 'isReachable':
                    seen[0] += 1
                    return 'reachable' if truth else 'unreachable'
        if lab != 'e' and calls_self(F, node, 'writePackedDataRecord'):
            return 'copied'
        return st

    def at(node, st):
        if node.kind == 'loophead' and st == 'reachable':
            return Violation(
                'the copy loop moves on to the next record without copying '
                'one that is reachable: a live revision disappears in the '
                'pack')
        if node.kind == 'loophead' and st == 'top+':
            return st
        return st

    def edge2(node, st, lab, tgt):
        s2 = edge(node, st, lab, tgt)
        return s2

    vs, stats = explore(g, 'none', at=at, edge=edge2)
    R.count(stats)
    R.require(seen[0] or vs, 'isReachable test vanished from the copy loop')
    for v in vs:
        R.violation((f.module.relpath, f.qualname, 'skip only unreachable'),
                    v.message, g, v.path)
    # records never reach the next iteration untested
    def at3(node, st):
        if node.kind == 'loophead' and st == 'top-again':
            return Violation('a record can be passed over without asking '
                             'whether it is reachable')
        return st

    # copyOne: every record is copied, oid/tid unchanged
    f2 = R.method(cls, 'copyOne')
    g2, b2, F2 = R.cfg(f2, cls, max_depth=0)
    R.instance('FileStoragePacker.copyOne')
    hdrs = set()
    for x in walk_local(f2.node):
        if isinstance(x, ast.Assign) and isinstance(x.value, ast.Call) and \
                dotted(x.value.func) == ('self', '_read_data_header') and \
                isinstance(x.targets[0], ast.Name):
            hdrs.add(x.targets[0].id)

    def copy_call(node):
        for op in F2.ops(node):
            if op.kind == 'call' and path_is(op.path,
                                             ('self', '_copier', 'copy')):
                return op
        return None

    def edge4(node, st, lab, tgt):
        if lab == 'e':
            return st
        s = node.ast
        if node.kind == 'stmt' and isinstance(s, ast.Assign) and isinstance(
                s.value, ast.Call) and dotted(s.value.func) == (
                    'self', '_read_data_header'):
            return 'read'
        c = copy_call(node)
        if c is not None:
            a = c.ast.args
            ok = len(a) >= 2 and isinstance(a[0], ast.Attribute) and \
                a[0].attr == 'oid' and isinstance(a[1], ast.Attribute) and \
                a[1].attr == 'tid' and isinstance(a[0].value, ast.Name) and \
                a[0].value.id in hdrs and isinstance(
                    a[1].value, ast.Name) and a[1].value.id == a[0].value.id
            if not ok:
                return Violation('a record of a later transaction is copied '
                                 'under another oid or tid than its own')
            return 'copied'
        return st

    def at4(node, st):
        if st == 'read' and (node.kind == 'loophead' or
                             node.id == g2.exit_return):
            return Violation(
                'a record of a transaction after the pack time is read but '
                'not copied: everything after the pack time must survive '
                'the pack unchanged')
        return st

    vs4, stats4 = explore(g2, 'none', at=at4, edge=edge4)
    R.count(stats4)
    for v in vs4:
        R.violation(v.node if v.node.kind not in ('loophead',) and
                    v.node.id != g2.exit_return else (
                        f2.module.relpath, f2.qualname, 'copy every record'),
                    v.message, g2, v.path)


@rule('C07.R5', 'a transaction copied from before the pack time is marked '
      'packed before its header is written', min_instances=1)
def r5(R):
    cls = R.prog.cls(PACKER)
    f = R.method(cls, 'copyDataRecords')
    g, b, F = R.cfg(f, cls, max_depth=0)
    th = [p for p in f.params if p != 'self'][1]
    R.instance('FileStoragePacker.copyDataRecords header status')
    seen = [0]

    def edge(node, st, lab, tgt):
        if lab == 'e':
            return st
        s = node.ast
        if node.kind == 'stmt' and isinstance(s, ast.Assign) and any(
                isinstance(t, ast.Attribute) and t.attr == 'status' and
                isinstance(t.value, ast.Name) and t.value.id == th
                for t in s.targets):
            if isinstance(s.value, ast.Constant) and s.value.value == 'p':
                return 'packed'
            return 'other'
        return st

    def at(node, st):
        for op in F.ops(node):
            if op.kind == 'call' and path_is(op.path,
                                             ('self', '_tfile', 'write')):
                pv = provenance(op.ast.args[0], node.frame, F) \
                    if op.ast.args else set()
                if ('param', th) in pv:
                    seen[0] += 1
                    if st != 'packed':
                        return Violation(
                            'the header of a pre-pack-time transaction is '
                            'written to the packed file without status "p": '
                            'it looks undoable although its earlier '
                            'revisions are gone')
        return st

    vs, stats = explore(g, 'none', at=at, edge=edge)
    R.count(stats)
    R.require(seen[0] or vs, 'header write not found')
    for v in vs:
        R.violation(v.node, v.message, g, v.path)


@rule('C07.R6', 'pack refuses an invalid time and does nothing on an empty '
      'storage', min_instances=1)
def r6(R):
    cls = R.prog.cls(FS)
    f = R.method(cls, 'pack')
    g, b, F = R.cfg(f, cls, max_depth=0)
    R.instance('FileStorage.pack guards')
    seen = set()

    def edge(node, st, lab, tgt):
        checked = st
        if node.kind == 'test' and lab in ('T', 'F'):
            for e, truth in implied_atoms(node.ast, lab):
                if any(dotted(r) == ('z64',) and isinstance(l, ast.Name)
                       and op in (ast.Eq, ast.NotEq)
                       for l, op, r in cmp_sides(e)):
                    seen.add('time')
                    bad = isinstance(e.ops[0], ast.Eq) == truth
                    return checked | {'time-bad' if bad else 'time-ok'}
                if dotted(e) == ('self', '_index'):
                    seen.add('empty')
                    return checked | {'nonempty' if truth else 'empty'}
        if self_effect(F, node):
            if 'time-ok' not in checked:
                return Violation('pack has an effect before the pack time '
                                 'has been validated')
            if 'nonempty' not in checked:
                return Violation('pack has an effect before it has '
                                 'established that the storage is not empty')
        return checked

    def at(node, st):
        if node.id == g.exit_return and 'time-bad' in st:
            return Violation('pack returns normally for an invalid pack time')
        return st

    vs, stats = explore(g, frozenset(), at=at, edge=edge)
    R.count(stats)
    for missing in {'time', 'empty'} - seen:
        R.violation((f.module.relpath, f.qualname, 'guard: ' + missing),
                    'pack no longer checks for %s' % (
                        'an invalid pack time' if missing == 'time'
                        else 'an empty storage'))
    for v in vs:
        R.violation(v.node if v.node.id != g.exit_return else (
            f.module.relpath, f.qualname, 'invalid time'), v.message, g,
            v.path)


@rule('C07.R7', 'the mapping storage keeps the newest revision not later '
      'than the pack time and sweeps from the root', props=['C08', 'C15', 'C16'],
      min_instances=1)
def r7(R):
    cls = R.prog.cls(MS)
    f = R.method(cls, 'pack')
    g, b, F = R.cfg(f, cls, max_depth=0)
    R.instance('MappingStorage.pack')
    rm = None
    for x in walk_local(f.node):
        if isinstance(x, ast.Assign) and isinstance(x.value, ast.Call) and \
                isinstance(x.value.func, ast.Attribute) and \
                x.value.func.attr == 'keys' and len(x.value.args) == 2 and \
                isinstance(x.targets[0], ast.Name):
            rm = x.targets[0].id
    if rm is None:
        R.violation((f.module.relpath, f.qualname, 'revisions to remove'),
                    'pack no longer selects the revisions up to the pack '
                    'time')
        return

    def edge(node, st, lab, tgt):
        if lab == 'e':
            return st
        s = node.ast
        if node.kind == 'stmt' and isinstance(s, ast.Assign) and any(
                isinstance(t, ast.Name) and t.id == rm for t in s.targets):
            return 'selected'
        for op in F.ops(node):
            if op.kind == 'call' and op.path == ('%local', rm, 'pop') and \
                    not op.ast.args:
                return 'kept-last'
        return st

    def at(node, st):
        if node.kind == 'foriter' and isinstance(node.ast, ast.Name) and \
                node.ast.id == rm and st != 'kept-last':
            return Violation(
                'pack deletes every revision up to the pack time, also the '
                'newest one: the state of the object at the pack time is '
                'lost')
        return st

    vs, stats = explore(g, 'none', at=at, edge=edge)
    R.count(stats)
    for v in vs:
        R.violation(v.node, v.message, g, v.path)
    # the sweep follows the references of EVERY retained revision (a
    # snapshot between the pack time and a later unlinking still needs them)
    ok = False
    for l in walk_local(f.node):
        if isinstance(l, ast.For) and isinstance(l.iter, ast.Call) and \
                isinstance(l.iter.func, ast.Attribute) and \
                l.iter.func.attr in ('values', 'items') and not \
                l.iter.args:
            pv = provenance(l.iter.func.value, g.root, F)
            if ('path', ('self', '_data')) in pv and any(
                    isinstance(c, ast.Call) and isinstance(
                        c.func, ast.Name) and c.func.id == 'referencesf'
                    for c in ast.walk(l)):
                ok = True
    if not ok:
        R.violation((f.module.relpath, f.qualname, 'sweep all revisions'),
                    'the garbage-collection sweep does not extract the '
                    'references of every retained revision of an object: an '
                    'object that was reachable at the pack time and is '
                    'unlinked later is collected, and snapshots in between '
                    'get POSKeyError')
    roots = [x for x in walk_local(f.node) if isinstance(x, ast.Assign) and
             isinstance(x.value, (ast.Set, ast.List)) and
             len(x.value.elts) == 1 and dotted(x.value.elts[0]) and
             dotted(x.value.elts[0])[-1] == 'z64']
    if not roots:
        R.violation((f.module.relpath, f.qualname, 'sweep root'),
                    'the garbage collection sweep no longer starts at the '
                    'root object')
    # ... and at everything written AFTER the pack time (sibling agreement
    # with the file storage's findReachableFromFuture): the work set also
    # receives ids chosen by comparing an object's revisions with the pack
    # time
    rootvars = {t.id for x in roots for t in x.targets
                if isinstance(t, ast.Name)}
    stops = {t.id for x in walk_local(f.node) if isinstance(x, ast.Assign)
             and any(isinstance(c, ast.Call) and dotted(c.func) and
                     dotted(c.func)[-1] in ('TimeStamp', 'raw')
                     for c in ast.walk(x.value))
             for t in x.targets if isinstance(t, ast.Name)}
    future = False
    for t in walk_local(f.node):
        if isinstance(t, ast.If) and any(
                isinstance(c, ast.Compare) and any(
                    isinstance(n, ast.Name) and n.id in stops
                    for n in ast.walk(c)) for c in ast.walk(t.test)) and any(
                isinstance(c, ast.Call) and isinstance(
                    c.func, ast.Attribute) and c.func.attr in (
                        'add', 'update', 'append') and isinstance(
                            c.func.value, ast.Name) and
                c.func.value.id in rootvars
                for s_ in t.body for c in ast.walk(s_)):
            future = True
    if roots and not future:
        R.violation(
            (f.module.relpath, f.qualname, 'sweep roots: written after the '
             'pack time'),
            'the garbage collection sweep of the mapping storage starts '
            'from the root alone: an object that nothing reachable refers '
            'to but that was WRITTEN after the pack time (added explicitly, '
            'or changed by an application that still holds it) is removed '
            '-- and with it the transactions after the pack time that wrote '
            'it disappear from iterator(); the file storage keeps '
            'everything written after the pack time',
            key='written after the pack time not kept by the sweep')


# ------------------------------------------------------------------ C07.R8
@rule('C07.R8', 'every implementation of the backpointer search picks the '
      'LAST record of the object in the target transaction (the one load '
      'uses): FileStorage and the pack copier agree', props=['C06', 'C17', 'C08'],
      min_instances=2)
def r8(R):
    """Sibling agreement (F28).  A transaction that undoes several
    transactions at once holds several records for one oid; the search loop
    over the records of the transaction must therefore run to the end of
    the transaction -- a `return` of a found position from inside the loop
    is a first-match search."""
    n = 0
    for f in R.prog.all_functions():
        if f.name != '_data_find':
            continue
        loops = [w for w in walk_local(f.node) if isinstance(w, ast.While)]
        scan = None
        for w in loops:
            # the scan loop: its body compares a record header's oid with
            # the oid searched for
            for c in ast.walk(w):
                if any(isinstance(l, ast.Attribute) and l.attr == 'oid' and
                       op is ast.Eq for l, op, r in cmp_sides(c)):
                    scan = w
        R.require(scan is not None,
                  '%s has no scan loop comparing h.oid' % f.qualname)
        n += 1
        R.instance('%s scan loop' % f.short)
        bad = []
        for r in ast.walk(scan):
            if isinstance(r, ast.Return) and not (
                    isinstance(r.value, ast.Constant) and not r.value.value):
                bad.append(r)
        # leaving the loop on a match (break) is a first-match search too
        for i_ in ast.walk(scan):
            if isinstance(i_, ast.If) and any(
                    isinstance(l, ast.Attribute) and l.attr == 'oid' and
                    op is ast.Eq
                    for c in ast.walk(i_.test) for l, op, r in cmp_sides(c)):
                for x in i_.body:
                    for y in ast.walk(x):
                        if isinstance(y, ast.Break):
                            bad.append(y)
        for r in bad:
            R.violation(
                (f.module.relpath, f.qualname,
                 ' '.join(ast.unparse(r).split()), r.lineno),
                '%s stops at the FIRST record of the object found in the '
                'transaction; load, undo and the sibling implementation '
                'use the LAST one, so a backpointer into a transaction '
                'that undid several transactions at once is redirected to '
                'an intermediate state' % f.short,
                key='first-match exit from scan loop')
    R.require(n >= 2, 'expected FileStorage._data_find and '
              'PackCopier._data_find')


# ------------------------------------------------------------------ C07.R9
@rule('C07.R9', 'the references of a kept revision are read from the record '
      'that HOLDS its data: the backpointer chain is followed to its end',
      props=['C06'], min_instances=1)
def r9(R):
    cls = R.prog.cls(GC)
    f = R.method(cls, 'findrefs')
    g, b, F = R.cfg(f, cls, max_depth=0)
    R.instance('GC.findrefs')
    seen = [0]

    def edge(node, st, lab, tgt):
        if lab in ('e', 'eb'):
            return st
        a = node.ast
        if node.kind == 'stmt' and isinstance(a, ast.Assign) and any(
                isinstance(t, ast.Name) for t in a.targets) and isinstance(
                    a.value, ast.Call) and dotted(a.value.func) and dotted(
                        a.value.func)[-1] == '_read_data_header':
            return ('unknown', a.targets[0].id)
        if node.kind == 'test' and lab in ('T', 'F') and st[1]:
            for e, truth in implied_atoms(node.ast, lab):
                if isinstance(e, ast.Attribute) and e.attr == 'back' and \
                        isinstance(e.value, ast.Name) and \
                        e.value.id == st[1]:
                    return ('back' if truth else 'end', st[1])
                # a record with data has no backpointer
                if isinstance(e, ast.Attribute) and e.attr == 'plen' and \
                        isinstance(e.value, ast.Name) and \
                        e.value.id == st[1] and truth:
                    return ('end', st[1])
        return st

    def at(node, st):
        for op in F.ops(node):
            if op.kind == 'call' and op.path and op.path[-1] == 'referencesf':
                seen[0] += 1
        if node.kind == 'return' and node.frame.parent is None and \
                st[0] != 'end':
            return Violation(
                'findrefs answers (`%s`) for a record that was not '
                'established to be the end of the backpointer chain (one '
                'step is followed, not the chain): for a revision that '
                'points back through two undo records no references are '
                'found, and the objects it refers to are garbage-collected'
                % ast.unparse(node.ast)[:50])
        return st

    vs, stats = explore(g, ('unknown', None), at=at, edge=edge)
    R.count(stats)
    R.require(seen[0] or vs, 'findrefs no longer calls referencesf')
    for v in vs:
        R.violation(v.node, v.message, g, v.path)


# ----------------------------------------------------------------- C07.R10
@rule('C07.R10', 'the packer, like finish and the open-time scan, does not '
      'take the records of a transaction with status "u" (undone, copied '
      'from an old source with its status) for current ones', props=['C08',
                                                                      'C09'],
      min_instances=2)
def r10(R):
    sites = [(GC, 'buildPackIndex', 'setitem', ('self', 'oid2curpos'),
              'the pack index of current records'),
             (PACKER, 'copyOne', 'call', ('self', 'index', 'update'),
              'the index of the packed file')]
    for cq, meth, kind, path, what in sites:
        cls = R.prog.cls(cq)
        f = R.method(cls, meth)
        g, b, F = R.cfg(f, cls, max_depth=0)
        seen = [0]

        def hit(op, kind=kind, path=path):
            return op.kind == kind and op.path is not None and \
                tuple(op.path) == path

        def edge(node, st, lab, tgt, F=F):
            if node.kind == 'test' and lab in ('T', 'F'):
                for e, truth in implied_atoms(node.ast, lab):
                    if isinstance(e, ast.Compare) and len(e.ops) == 1 and \
                            isinstance(e.ops[0], (ast.Eq, ast.NotEq)) and \
                            isinstance(e.comparators[0], ast.Constant) and \
                            e.comparators[0].value in ('u', b'u') and \
                            isinstance(e.left, ast.Attribute) and \
                            e.left.attr == 'status':
                        is_u = isinstance(e.ops[0], ast.Eq) == truth
                        return 'undone' if is_u else 'not-undone'
            if lab in ('e', 'eb'):
                return st
            for op in F.ops(node):
                # the next transaction header is read: nothing known
                if op.kind == 'call' and op.path and \
                        op.path[-1] == '_read_txn_header':
                    st = 'unknown'
            return st

        def at(node, st, what=what, meth=meth, F=F, seen=seen, hit=hit):
            for op in F.ops(node):
                if hit(op):
                    seen[0] += 1
                    if st != 'not-undone':
                        return Violation(
                            '%s enters records into %s without having '
                            'excluded a transaction of status "u": the '
                            'running storage and the open-time scan do not '
                            'index such records, so the pack makes an '
                            'undone revision the object\'s current state' % (
                                meth, what))
            return st

        vs, stats = explore(g, 'unknown', at=at, edge=edge)
        R.count(stats)
        R.instance('%s.%s' % (cls.name, meth), index_updates=seen[0])
        R.require(seen[0] or vs, '%s no longer updates %s' % (meth, what))
        for v in vs:
            R.violation(v.node, v.message, g, v.path)


# ----------------------------------------------------------------- C07.R11
@rule('C07.R11', 'the storage\'s default for garbage collection stands in '
      'for the gc argument of pack() only when the argument was not given '
      '(is None): an explicit False stays False', props=['C16'],
      min_instances=1)
def r11(R):
    cls = R.prog.cls(FS)
    f = R.method(cls, 'pack')
    if 'gc' not in f.params:
        R.observe('FileStorage.pack takes no gc argument any more')
        return
    g, b, F = R.cfg(f, cls, max_depth=0)
    R.instance('FileStorage.pack')
    seen = [0]

    def edge(node, st, lab, tgt):
        if node.kind == 'test' and lab in ('T', 'F'):
            for e, truth in implied_atoms(node.ast, lab):
                if isinstance(e, ast.Compare) and len(e.ops) == 1 and \
                        isinstance(e.left, ast.Name) and e.left.id == 'gc' \
                        and isinstance(e.comparators[0], ast.Constant) and \
                        e.comparators[0].value is None:
                    return 'none' if isinstance(
                        e.ops[0], ast.Is) == truth else 'given'
        return st

    def at(node, st):
        for op in F.ops(node):
            if op.kind == 'store' and op.path == ('%local', 'gc'):
                v = store_value(op)
                if v is not None and any(
                        isinstance(x, ast.Attribute) and dotted(x) == (
                            'self', '_pack_gc') for x in ast.walk(v)):
                    seen[0] += 1
                    if st != 'none':
                        return Violation(
                            'FileStorage.pack replaces its gc argument by '
                            'the storage\'s default on a path on which the '
                            'argument may have been given as False: a '
                            'caller that must not have garbage collected '
                            '(a demo storage with a base, a multi-database '
                            'whose references come from another database) '
                            'gets a garbage-collecting pack, which removes '
                            'what only those references keep alive')
        return st

    vs, stats = explore(g, 'unknown', at=at, edge=edge)
    R.count(stats)
    for v in vs[:1]:
        R.violation(v.node, v.message, g, v.path,
                    key='explicit gc overridden by the default')


# ----------------------------------------------------------------- C07.R12
@rule('C07.R12', 'the blob files a pack tagged for removal are removed only '
      'by the pack that tagged them, after it has put the packed file in '
      'place: never from a list some earlier pack -- which may have FAILED '
      'before the swap, its records all still there -- left behind',
      props=['C13', 'C08'], min_instances=1)
def r12(R):
    cls = R.prog.cls(FS)
    f = R.method(cls, 'pack')
    g, b, F = R.cfg(f, cls, max_depth=0)
    seen = [0]
    REMOVER = '_remove_blob_files_tagged_for_removal_during_pack'

    # locals initialised to None and tested for it (`pack_result`): the
    # path on which the packer raised does not go on to the swap
    from ..flow import Flags
    nones = {t.id for s_ in walk_local(f.node) if isinstance(s_, ast.Assign)
             and isinstance(s_.value, ast.Constant) and
             s_.value.value is None
             for t in s_.targets if isinstance(t, ast.Name)}
    flags = Flags(F, lambda e, fr: e.id if isinstance(e, ast.Name) and
                  e.id in nones else None)

    def edge(node, st0, lab, tgt):
        st, fl = st0
        fl = flags.learn(node, fl, lab)
        if fl is PRUNE:
            return PRUNE
        if lab in ('e', 'eb'):
            return (st, fl)
        fl = flags.assign(node, fl, lab)
        return (edge1(node, st, lab, tgt), fl)

    def edge1(node, st, lab, tgt):
        for op in F.ops(node):
            if op.kind == 'call' and op.path is not None and (
                    path_is(op.path, ('self', 'packer')) or
                    op.path[-1] == 'packer'):
                st = 'packed'
            if st == 'packed' and op.kind == 'call' and op.path is not None \
                    and op.path[-1] in ('rename', 'replace') and \
                    op.path[0] in ('@os', 'os'):
                st = 'swapped'
        return st

    def at(node, st0):
        st = st0[0]
        for op in F.ops(node):
            if op.kind == 'call' and op.path is not None and \
                    op.path[-1] == REMOVER:
                seen[0] += 1
                if st != 'swapped':
                    return Violation(
                        'FileStorage.pack removes the blob files listed in '
                        '<blobs>/.removed %s: the list may be what an '
                        'EARLIER pack left behind that failed before the '
                        'swap (disk full while copying) -- its data file is '
                        'unchanged, every revision is still there, and the '
                        'blob files of revisions that are current for '
                        'snapshots at or after the new pack time are '
                        'removed' % (
                            'before this pack\'s packer has run' if
                            st == 'start' else
                            'although the packed file was not put in place'))
        return st0

    vs, stats = explore(g, ('start', frozenset()), at=at, edge=edge)
    R.count(stats)
    R.instance('FileStorage.pack', removal_calls=seen[0])
    R.require(seen[0] >= 1 or vs, 'FileStorage.pack no longer removes the '
              'blob files the packer tagged')
    for v in vs[:1]:
        R.violation(v.node, v.message, g, v.path,
                    key='tagged blob files removed without this pack\'s '
                        'swap')
    # and nobody else calls the remover
    for fn in R.prog.all_functions():
        if fn.module.relpath.startswith('ZODB/tests') or fn is f:
            continue
        for c in walk_local(fn.node):
            if isinstance(c, ast.Call) and isinstance(
                    c.func, ast.Attribute) and c.func.attr == REMOVER:
                R.violation(
                    (fn.module.relpath, fn.qualname,
                     ' '.join(ast.unparse(c).split()), c.lineno),
                    '%s calls %s outside FileStorage.pack: the list it '
                    'works off is only meaningful right after the swap of '
                    'the pack that wrote it' % (fn.qualname, REMOVER),
                    key='tagged blob files removed outside pack')
