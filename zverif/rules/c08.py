"""C08 -- packing is safe under concurrent commits and under a crash."""

import ast

from ..engine import rule
from ..flow import PRUNE, Flags, Soft, Violation, cmp_sides, explore, \
    implied_atoms, path_ends, path_is, prov_has, provenance, raising_node, \
    store_value
from ..locks import POOL_WRITE, held_locks, lock_delta, step_held
from ..model import dotted, walk_local
from ..twopc import FS

PACKER = 'ZODB.FileStorage.fspack.FileStoragePacker'


def clock(F, node):
    out = []
    for op in F.ops(node):
        if op.kind == 'call' and op.path is not None:
            if path_ends(op.path, ('_commit_lock', 'acquire')):
                out.append('acq')
            elif path_ends(op.path, ('_commit_lock', 'release')):
                out.append('rel')
    return out


@rule('C08.R1', 'packer hand-over: the `locked` flag mirrors the commit lock '
      'at every point that can fail; an exceptional exit releases it; a '
      'returned position means "lock held", None means "never acquired"',
      min_instances=4)
def r1(R):
    cls = R.prog.cls(PACKER)
    f = R.method(cls, 'pack')
    g, b, F = R.cfg(f, cls, max_depth=3,
                    inline=lambda t, fr: t.func.name in ('copyRest',
                                                         'copyOne'))
    ops = {'acq': 0, 'rel': 0, 'flag': 0}
    o14 = set()

    def flag_store(node):
        for op in F.ops(node):
            if op.kind == 'store' and path_is(op.path, ('self', 'locked')):
                v = store_value(op)
                if isinstance(v, ast.Constant):
                    return bool(v.value)
                return 'unknown'
        return None

    def is_cde_handler(tgt):
        if tgt.kind != 'handler':
            return False
        t = tgt.ast.type
        return t is not None and 'CorruptedDataError' in ast.unparse(t)

    def header_read(node):
        return any(op.kind == 'call' and op.path and
                   op.path[-1] == '_read_txn_header' for op in F.ops(node))

    def edge(node, st, lab, tgt):
        lock, flag = st
        # correlation with `if self.locked:`
        if node.kind == 'test' and lab in ('T', 'F'):
            for e, truth in implied_atoms(node.ast, lab):
                if dotted(e) and F.canon(e, node.frame) == ('self', 'locked'):
                    if flag != truth:
                        return PRUNE
        if lab == 'e':
            if lock != int(flag) and node.kind not in ('reraise', 'raise'):
                return Violation(
                    'this statement can fail while the `locked` flag (%s) '
                    'does not reflect the commit lock (%s): the error path '
                    '%s' % (flag, 'held' if lock else 'free',
                            'leaves the commit lock held for ever' if lock
                            else 'releases a lock that is not held'))
            if is_cde_handler(tgt) and not header_read(node) and lock == 0:
                o14.add(node.text(60))
                return PRUNE       # O14: infeasible, see DESIGN.md C08.R1
            return st
        for c in clock(F, node):
            if c == 'acq':
                ops['acq'] += 1
                if lock:
                    return Violation('commit lock acquired twice')
                lock = 1
            else:
                ops['rel'] += 1
                if not lock:
                    return Violation('the packer releases the commit lock '
                                     'while not holding it')
                lock = 0
        fs = flag_store(node)
        if fs is not None:
            ops['flag'] += 1
            flag = bool(fs) if fs != 'unknown' else flag
        return (lock, flag)

    def at(node, st):
        lock, flag = st
        if node.kind == 'return' and node.frame.parent is None:
            v = node.ast.value
            is_none = v is None or (isinstance(v, ast.Constant)
                                    and v.value is None)
            if is_none and lock:
                return Violation('pack() returns None (nothing to do) with '
                                 'the commit lock held')
            if not is_none and not lock:
                return Violation('pack() returns a position without holding '
                                 'the commit lock: the caller swaps the '
                                 'files while commits are running')
        if node.id == g.exit_raise and lock:
            return Violation('pack() can leave through an exception with the '
                             'commit lock held: every later commit blocks')
        return st

    vs, stats = explore(g, (0, False), at=at, edge=edge)
    R.count(stats)
    R.instance('FileStoragePacker.pack (+copyRest, copyOne)',
               cfg_nodes=len(g.reachable()), acquire_sites=ops['acq'],
               release_sites=ops['rel'], flag_stores=ops['flag'])
    R.instance('acquire sites')
    R.instance('release sites')
    R.instance('flag stores')
    R.require(vs or (ops['acq'] and ops['rel'] and ops['flag']),
              'packer lock hand-over not recognised: %s' % ops)
    for t in sorted(o14):
        R.observe('O14: `%s` could raise CorruptedDataError into copyRest\'s '
                  'end-of-file handler while the lock is released; no '
                  'history makes its position equal the end of file' % t)
    for v in vs:
        n = v.node
        if n.id == g.exit_raise:
            n = raising_node(g, v.path)
        R.violation(n, v.message, g, v.path)


SWAP_DESC = 'closing, renaming and reopening the data file, installing the ' \
            'new index and end position'


def swap_ops(F, node):
    out = []
    for op in F.ops(node):
        if op.kind == 'call' and op.path is not None:
            if path_is(op.path, ('self', '_file', 'close')):
                out.append('close the data file')
            if op.path in (('@os', 'rename'), ('@os', 'replace')):
                out.append(ast.unparse(op.ast)[:50])
            if path_is(op.path, ('self', '_initIndex')):
                out.append('install the packed index')
        if op.kind == 'store' and path_is(op.path, ('self', '_pos')):
            out.append('set the end position')
        if op.kind == 'store' and path_is(op.path, ('self', '_file')):
            out.append('reopen the data file')
    return out


@rule('C08.R2', 'the file swap at the end of a pack happens under the pool\'s '
      'writer side and the storage lock, with the commit lock still held, '
      'and the commit lock is released exactly once afterwards',
      min_instances=5)
def r2(R):
    cls = R.prog.cls(FS)
    f = R.method(cls, 'pack')
    g, b, F = R.cfg(f, cls, max_depth=2,
                    inline=lambda t, fr: t.func.name in ('write_lock',
                                                         '_initIndex'))
    sites = set()

    def result_test(node):
        """`pack_result is None` -> label meaning 'the packer holds the
        commit lock for us'"""
        if node.kind != 'test':
            return None
        for lab in ('T', 'F'):
            for e, truth in implied_atoms(node.ast, lab):
                if isinstance(e, ast.Compare) and isinstance(
                        e.left, ast.Name) and len(e.ops) == 1 and isinstance(
                            e.comparators[0], ast.Constant) and \
                        e.comparators[0].value is None:
                    pv = provenance(e.left, node.frame, F)
                    if any(k == 'call' and v[-1] == 'packer' for k, v in pv):
                        is_none = isinstance(e.ops[0], ast.Is) == truth
                        if not is_none:
                            return lab
        return None

    def keyfn(e, fr):
        if isinstance(e, ast.Name) and fr.parent is None and \
                e.id in b.local_defs(f) and all(
                    isinstance(d, ast.Constant) and isinstance(d.value, bool)
                    for d in b.local_defs(f)[e.id]):
            return e.id          # a local boolean flag (have_commit_lock)
        return None
    flags = Flags(F, keyfn)

    def edge(node, st, lab, tgt):
        commit, held, fl = st
        fl = flags.learn(node, fl, lab)
        if fl is PRUNE:
            return PRUNE
        fl = flags.assign(node, fl, lab)
        rt = result_test(node)
        if rt is not None and lab in ('T', 'F'):
            commit = 1 if lab == rt else 0
        held = step_held(F, node, held, lab)
        if lab != 'e':
            for c in clock(F, node):
                if c == 'rel':
                    if commit != 1:
                        return Violation('the commit lock is released %s' % (
                            'twice' if commit == 0 else 'before the packer '
                            'handed it over'))
                    commit = 0
                else:
                    return Violation('FileStorage.pack acquires the commit '
                                     'lock itself')
        return (commit, held, fl)

    emptied_nodes = {}

    def pool_emptied_before(path_nodes, idx):
        return True

    def at(node, st):
        commit, held, fl = st
        locks = held_locks(held)
        if node.frame.parent is None or node.frame.func.name == '_initIndex':
            for what in swap_ops(F, node):
                sites.add((node.id, what))
                missing = []
                if ('self', '_lock') not in locks:
                    missing.append('the storage lock')
                if POOL_WRITE not in locks:
                    missing.append('the file pool\'s writer side')
                if commit != 1:
                    missing.append('the commit lock')
                if missing:
                    return Violation(
                        'pack performs `%s` without %s: a load or commit '
                        'running at that moment uses the old file with the '
                        'new index (or the other way round)' % (
                            what, ' and '.join(missing)))
        if node.id in (g.exit_return, g.exit_raise) and commit == 1:
            return Violation('FileStorage.pack can leave (%s) with the '
                             'commit lock the packer handed over still held' %
                             ('return' if node.id == g.exit_return
                              else 'exception'))
        return st

    vs, stats = explore(g, (None, frozenset(), frozenset()), at=at, edge=edge)
    R.count(stats)
    for nid, what in sorted(sites):
        R.instance('swap step: %s' % what)
    R.require(vs or len(sites) >= 5, 'swap steps not recognised (%d)' %
              len(sites))
    for v in vs:
        n = v.node
        if n.id in (g.exit_raise,):
            n = raising_node(g, v.path)
        elif n.id == g.exit_return:
            n = (f.module.relpath, f.qualname, 'commit lock at return')
        R.violation(n, v.message, g, v.path)


@rule('C08.R3', 'the pack-in-progress flag is tested and set in one critical '
      'section and reset on every exit after it was set', min_instances=2)
def r3(R):
    for q, flagname in ((FS, '_pack_is_in_progress'),
                        ('ZODB.blob.BlobStorage',
                         '_blobs_pack_is_in_progress')):
        _r3_one(R, R.prog.cls(q), flagname)


def _r3_one(R, cls, FLAG):
    f = R.method(cls, 'pack')
    g, b, F = R.cfg(f, cls, max_depth=0)
    sets = [0]

    def edge(node, st, lab, tgt):
        flag, held, tested = st
        dl = lock_delta(F, node)
        if dl:
            return (flag, max(0, held + dl), False)
        if node.kind == 'test' and lab in ('T', 'F'):
            for e, truth in implied_atoms(node.ast, lab):
                if dotted(e) and F.canon(e, node.frame) == (
                        'self', FLAG):
                    if held and not truth:
                        tested = True
        if lab == 'e':
            return (flag, held, tested)
        for op in F.ops(node):
            if op.kind == 'store' and path_is(
                    op.path, ('self', FLAG)):
                v = store_value(op)
                val = bool(v.value) if isinstance(v, ast.Constant) else True
                if val:
                    sets[0] += 1
                    if not (held and tested):
                        return Violation(
                            'the pack-in-progress flag is set without having '
                            'been found clear in the same critical section: '
                            'two packs can run at once')
                elif not held:
                    return Violation('the pack-in-progress flag is reset '
                                     'without the storage lock')
                elif not flag:
                    return Violation(
                        'the pack-in-progress flag is reset on a path on '
                        'which this call never set it (the refusal of a '
                        'second pack runs through the reset): the flag of '
                        'the pack that IS running is cleared and a third '
                        'request is admitted next to it')
                flag = val
        return (flag, held, tested)

    def at(node, st):
        flag, held, tested = st
        if flag and node.id in (g.exit_return, g.exit_raise):
            return Violation(
                cls.name + '.pack can leave (%s) with the pack-in-progress '
                'flag still set: every later pack is refused and the undo '
                'log stays disabled until the process restarts' % (
                    'return' if node.id == g.exit_return else 'exception'))
        return st

    vs, stats = explore(g, (False, 0, False), at=at, edge=edge)
    R.count(stats)
    R.instance('%s.pack flag set' % cls.name, sites=sets[0])
    R.instance('%s.pack exits' % cls.name, cfg_nodes=len(g.reachable()))
    R.require(vs or sets[0], 'the flag is never set')
    for v in vs:
        n = v.node
        if n.id == g.exit_raise:
            n = raising_node(g, v.path)
        elif n.id == g.exit_return:
            n = (f.module.relpath, f.qualname, 'flag at return')
        R.violation(n, v.message, g, v.path)


@rule('C08.R4', 'a pack that fails cleans up: I/O errors remove the .pack '
      'file and re-raise; a failed first rename reopens the data file',
      min_instances=3)
def r4(R):
    pk = R.prog.cls(PACKER)
    f = R.method(pk, 'pack')
    n = 0
    for t in walk_local(f.node):
        if isinstance(t, ast.Try):
            for h in t.handlers:
                if h.type is not None and 'OSError' in ast.unparse(h.type):
                    n += 1
                    R.instance('packer OSError handler', line=h.lineno)
                    calls = {dotted(c.func)[-1] for c in ast.walk(h)
                             if isinstance(c, ast.Call) and dotted(c.func)}
                    reraises = any(isinstance(x, ast.Raise) and x.exc is None
                                   for x in ast.walk(h))
                    if 'close_files_remove' not in calls:
                        R.violation((f.module.relpath, f.qualname,
                                     'except OSError', h.lineno),
                                    'an I/O error during pack does not remove '
                                    'the partial .pack file')
                    if not reraises:
                        R.violation((f.module.relpath, f.qualname,
                                     'except OSError', h.lineno),
                                    'an I/O error during pack is swallowed: '
                                    'the pack "succeeds" with a partial file')
    # close_files_remove removes <name>.pack
    cfr = [x for x in ast.walk(f.node) if isinstance(x, ast.FunctionDef)
           and x.name == 'close_files_remove']
    ok = any(isinstance(c, ast.Call) and dotted(c.func) in (
        ('os', 'remove'), ('os', 'unlink')) and c.args and
        '.pack' in ast.unparse(c.args[0]) for d in cfr for c in ast.walk(d))
    R.instance('close_files_remove removes .pack', ok=ok)
    if not ok:
        R.violation((f.module.relpath, f.qualname, 'close_files_remove'),
                    'the packer\'s failure cleanup no longer removes the '
                    '.pack file')
    R.require(n >= 2, 'packer OSError handlers vanished')
    # FileStorage.pack: failed first rename reopens
    cls = R.prog.cls(FS)
    f2 = R.method(cls, 'pack')
    g, b, F = R.cfg(f2, cls, max_depth=0)

    def edge(node, st, lab, tgt):
        # st: None | 'closed' | 'failed'
        for op in F.ops(node):
            if op.kind == 'call' and path_is(op.path,
                                             ('self', '_file', 'close')) \
                    and lab != 'e':
                st = 'closed'
            if op.kind == 'call' and op.path in (('@os', 'rename'),
                                                 ('@os', 'replace')) and \
                    st == 'closed':
                if lab == 'e':
                    return 'failed'
                return 'renamed'
            if op.kind == 'store' and path_is(op.path, ('self', '_file')) \
                    and st == 'failed':
                st = 'reopened'     # the attempt counts even if it fails
        return st

    def at(node, st):
        if st == 'failed' and node.id == g.exit_raise:
            return Violation('if renaming the data file away fails, pack '
                             'leaves the storage with a closed file handle: '
                             'every later operation fails although nothing '
                             'was changed')
        if st == 'failed' and node.id == g.exit_return:
            return Violation('a failed rename during the swap is swallowed')
        return st

    vs, stats = explore(g, None, at=at, edge=edge)
    R.count(stats)
    for v in vs:
        R.violation((f2.module.relpath, f2.qualname, 'failed first rename'),
                    v.message, g, v.path)


@rule('C08.R5', 'the live data-file name always names a complete data file '
      '(it is never renamed away)', min_instances=1)
def r5(R):
    cls = R.prog.cls(FS)
    n = 0
    for f in cls.methods.values():
        if not any(isinstance(c, ast.Call) and dotted(c.func) in (
                ('os', 'rename'), ('os', 'replace'))
                for c in walk_local(f.node)):
            continue
        g, b, F = R.cfg(f, cls, max_depth=0)
        for op in F.all_ops():
            if op.kind == 'call' and op.path in (('@os', 'rename'),
                                                 ('@os', 'replace')) and \
                    len(op.ast.args) == 2:
                n += 1
                src = op.ast.args[0]
                R.instance('%s: %s' % (f.short, ast.unparse(op.ast)[:60]))
                if dotted(src) and F.canon(src, op.node.frame) == (
                        'self', '_file_name'):
                    R.violation(op.node, 'the data file is renamed away from '
                                'its live name before the packed file takes '
                                'its place: a crash between the two renames '
                                'leaves no data file, and reopening creates '
                                'an empty database',
                                key='rename of the live data-file name')
    R.require(n >= 1, 'no renames found in FileStorage')


@rule('C08.R6', 'the packer decides that it has caught up from a look at the '
      'data file, or at the storage\'s committed position, made while it '
      'holds the commit lock, after the last time it let commits through',
      props=['C07', 'C01'], min_instances=1)
def r6(R):
    cls = R.prog.cls(PACKER)
    f = R.method(cls, 'pack')
    g, b, F = R.cfg(f, cls, max_depth=3,
                    inline=lambda t, fr: t.func.name in ('copyRest',
                                                         'copyOne'))
    R.instance('FileStoragePacker.pack catch-up loop')
    rels = [0]

    def file_probe(node):
        """a read / size query of the packer's input file"""
        for op in F.ops(node):
            if op.kind == 'call' and op.path is not None:
                if op.path[:2] == ('self', '_file') and len(op.path) == 3 \
                        and op.path[2] in ('read', 'tell', 'seek'):
                    return True
                if op.path[-1] in ('_read_txn_header', '_read_num',
                                   '_read_data_header') and \
                        op.path[0] == 'self':
                    return True
                # ... or of the storage's committed position (which only
                # moves under the commit lock)
                if op.path[-1] == 'getSize' and len(op.path) >= 2 and \
                        op.path[-2] == '_storage':
                    return True
        if node.kind == 'call' and node.info['target'].func.name in (
                '_read_txn_header',):
            return True
        return False

    def edge(node, st, lab, tgt):
        lock, fresh = st
        if lab == 'e' and tgt.kind == 'handler' and tgt.ast.type is not None \
                and 'CorruptedDataError' in ast.unparse(tgt.ast.type) and \
                lock == 0:
            return PRUNE                # O14, see C08.R1
        for c in clock(F, node):
            if c == 'acq':
                lock = 1
                fresh = False           # commits may have happened meanwhile
            else:
                rels[0] += 1
                lock = 0
                fresh = False
        if lock and file_probe(node):
            fresh = True                # even if the probe raises (EOF)
        return (lock, fresh)

    def at(node, st):
        lock, fresh = st
        if node.kind == 'return' and node.frame.parent is None and \
                node.ast.value is not None and not (isinstance(
                    node.ast.value, ast.Constant) and
                    node.ast.value.value is None):
            if not fresh:
                return Violation(
                    'pack() concludes that everything has been copied '
                    'without having looked at the data file since it last '
                    're-acquired the commit lock (it relies on an end '
                    'position measured before it let commits through): a '
                    'transaction committed while the packer had released the '
                    'lock is not copied, and is lost when the files are '
                    'swapped')
        return st

    vs, stats = explore(g, (0, False), at=at, edge=edge)
    R.count(stats)
    R.require(rels[0] or vs, 'the packer never releases the commit lock')
    for v in vs:
        R.violation((f.module.relpath, f.qualname, 'catch-up decision'),
                    v.message, g, v.path)


@rule('C08.R7', 'inside the swap, the pooled read handles are closed under '
      'the writer side before the file is renamed; the data-file handle is '
      'never left closed', props=['C07'], min_instances=2)
def r7(R):
    cls = R.prog.cls(FS)
    f = R.method(cls, 'pack')
    g, b, F = R.cfg(f, cls, max_depth=2,
                    inline=lambda t, fr: t.func.name in ('write_lock',
                                                         '_initIndex'))
    seen = {'rename': 0, 'close': 0}

    def edge(node, st, lab, tgt):
        held, emptied, handle = st
        before = POOL_WRITE in held_locks(held)
        held = step_held(F, node, held, lab)
        after = POOL_WRITE in held_locks(held)
        if before != after:
            emptied = False         # entering or leaving the writer side
        for op in F.ops(node):
            if op.kind == 'call' and path_is(op.path,
                                             ('self', '_files', 'empty')) \
                    and after and lab != 'e' and node.frame.parent is None:
                emptied = True
            if op.kind == 'call' and path_is(op.path,
                                             ('self', '_file', 'close')) \
                    and lab != 'e':
                seen['close'] += 1
                handle = 'closed'
            if op.kind == 'store' and path_is(op.path, ('self', '_file')):
                handle = 'open'     # the attempt counts (second failure)
            if op.kind == 'call' and op.path in (('@os', 'rename'),
                                                 ('@os', 'replace')) and \
                    lab != 'e' and handle == 'closed' and \
                    node.frame.parent is None:
                handle = 'gone'     # past the point of no return: F12
        return (held, emptied, handle)

    def at(node, st):
        held, emptied, handle = st
        if node.frame.parent is None:
            for op in F.ops(node):
                if op.kind == 'call' and op.path in (('@os', 'rename'),
                                                     ('@os', 'replace')):
                    seen['rename'] += 1
                    if not emptied:
                        return Violation(
                            'the data file is renamed while read handles on '
                            'it may still be in the pool (they were not '
                            'closed inside this writer-side section): a '
                            'load that ran just before goes on using the old '
                            'file with the new index')
        if handle == 'closed' and node.id in (g.exit_raise, g.exit_return):
            return Violation(
                'pack can leave (%s) with the storage\'s data-file handle '
                'closed: a pack that fails at this point makes every later '
                'operation fail although nothing was changed' % (
                    'exception' if node.id == g.exit_raise else 'return'))
        return st

    vs, stats = explore(g, (frozenset(), False, 'open'), at=at, edge=edge)
    R.count(stats)
    R.instance('renames inside the swap', n=seen['rename'])
    R.instance('data-file handle typestate', closes=seen['close'])
    R.require(vs or (seen['rename'] and seen['close']),
              'swap not recognised: %s' % seen)
    for v in vs:
        n = v.node
        if n.id == g.exit_raise:
            n = raising_node(g, v.path)
        elif n.id == g.exit_return:
            n = (f.module.relpath, f.qualname, 'handle at return')
        R.violation(n, v.message, g, v.path)


# ------------------------------------------------------------------ C08.R8
@rule('C08.R8', 'a record position read through a pooled file handle was '
      'looked up in the index while that handle was checked out (the pack '
      'swaps file and index together, excluding only checked-out readers)',
      props=['C02'], min_instances=2)
def r8(R):
    cls = R.prog.cls(FS)
    n = 0
    for name in sorted(cls.methods):
        f = cls.methods[name]
        if not any(isinstance(c, ast.Call) and dotted(c.func) == (
                'self', '_files', 'get') for c in walk_local(f.node)):
            continue
        n += 1
        R.instance('FileStorage.%s' % name)
        g, b, F = R.cfg(f, cls, max_depth=1)

        def looks_up(e):
            for c in ast.walk(e):
                if isinstance(c, ast.Call) and dotted(c.func) and dotted(
                        c.func)[-1] in ('_lookup_pos', '_index_get'):
                    return True
                if isinstance(c, ast.Call) and dotted(c.func) and dotted(
                        c.func)[-2:] == ('_index', 'get'):
                    return True
                if isinstance(c, ast.Subscript) and dotted(c.value) == (
                        'self', '_index'):
                    return True
            return False

        def edge(node, st, lab, tgt, F=F):
            out, kinds = st
            if lab in ('e', 'eb'):
                # leaving the with-region on an exception is handled by the
                # inlined finally; positions do not matter there
                pass
            for op in F.ops(node):
                if op.kind == 'call' and op.path:
                    if path_ends(op.path, ('_files', '_out', 'append')):
                        out += 1
                    elif path_ends(op.path, ('_files', '_out', 'remove')):
                        out = max(0, out - 1)
            a = node.ast
            if lab not in ('e', 'eb') and node.kind == 'stmt' and \
                    node.frame.parent is None and isinstance(a, ast.Assign):
                d = dict(kinds)
                for t in a.targets:
                    for nm in ast.walk(t):
                        if isinstance(nm, ast.Name):
                            d.pop(nm.id, None)
                            if looks_up(a.value):
                                d[nm.id] = 'in' if out > 0 else 'outside'
                kinds = frozenset(d.items())
            return (out, kinds)

        def at(node, st, F=F):
            out, kinds = st
            if out > 0 and node.frame.parent is None and node.kind in (
                    'stmt', 'return', 'test'):
                k = dict(kinds)
                for op in F.ops(node):
                    if op.kind == 'call':
                        for a_ in op.ast.args:
                            if isinstance(a_, ast.Name) and k.get(
                                    a_.id) == 'outside':
                                return Violation(
                                    '`%s` reads through a pooled handle at '
                                    'a position (`%s`) that was looked up in '
                                    'the index BEFORE the handle was checked '
                                    'out: a pack can swap file and index in '
                                    'between, and the read hits another '
                                    'record of the packed file '
                                    '(CorruptedDataError or wrong data for a '
                                    'current object)' % (
                                        ast.unparse(op.ast)[:60], a_.id))
            return st

        vs, stats = explore(g, (0, frozenset()), at=at, edge=edge)
        R.count(stats)
        for v in vs:
            R.violation(v.node, v.message, g, v.path)
    R.require(n >= 2, 'expected FileStorage.load and loadBefore to use the '
              'file pool')


# ------------------------------------------------------------------ C08.R9
@rule('C08.R9', 'the blob sweep of the wrapper storage judges only files '
      'whose serial is not later than the last transaction committed when '
      'the sweep began (a later file belongs to a commit in progress, whose '
      'record cannot be loaded yet)', props=['C13'], min_instances=2)
def r9(R):
    cls = R.prog.cls('ZODB.blob.BlobStorage')
    n = 0
    for meth in ('_packUndoing', '_packNonUndoing'):
        f = R.method(cls, meth)
        g, b, F = R.cfg(f, cls, max_depth=1)
        n += 1
        R.instance('BlobStorage.%s' % meth)
        # 1. a comparison serial-of-a-file  vs  last committed transaction
        judged = False
        helpers = set()
        for node in (g.nodes[i] for i in g.reachable()):
            if node.kind != 'test':
                continue
            for c in ast.walk(node.ast):
                for l, op, r in cmp_sides(c):
                    if op not in (ast.Gt, ast.GtE, ast.Lt, ast.LtE):
                        continue
                    pl = provenance(l, node.frame, F)
                    pr = provenance(r, node.frame, F)
                    if prov_has(pl, 'call', lambda p: p[-1] ==
                                'splitBlobFilename') and prov_has(
                                    pr, 'call', lambda p: p[-1] ==
                                    'lastTransaction'):
                        judged = True
                        if node.frame.parent is not None:
                            helpers.add(node.frame.func.name)
        if not judged:
            R.violation(
                (f.module.relpath, f.qualname, 'files judged by the sweep'),
                'BlobStorage.%s decides which blob files are garbage '
                'without comparing their serial with the last transaction '
                'committed when the sweep began: the file of a transaction '
                'that is between storeBlob and tpc_finish (record not '
                'loadable yet) is removed, and the transaction commits a '
                'blob record without a file' % meth,
                key='sweep judges files of the transaction in progress')
            continue
        # 2. what is removed file by file comes from the judged list, not
        #    from a raw directory listing
        for op in F.all_ops():
            if op.kind != 'call' or not op.path or op.node.frame.parent \
                    is not None:
                continue
            last = op.path[-1].split('.')[-1]
            if last == 'remove_committed' and op.ast.args:
                pv = provenance(op.ast.args[0], op.node.frame, F)
                if helpers and not prov_has(
                        pv, 'call', lambda p: p[-1] in helpers):
                    R.violation(
                        op.node, 'BlobStorage.%s removes `%s`, which does '
                        'not come from the list of files older than the '
                        'sweep\'s cutoff' % (meth, ast.unparse(
                            op.ast.args[0])[:60]))
    R.require(n >= 2, 'sweeps not found')


# ----------------------------------------------------------------- C08.R10
@rule('C08.R10', 'once it holds the commit lock, the packer takes the end of '
      'the data from the storage\'s committed position, never from the '
      'physical end of the file, and copies later transactions only up to '
      'that position (beyond it lie the remains of transactions that were '
      'voted and never finished)', props=['C01', 'C05', 'C07'],
      min_instances=2)
def r10(R):
    cls = R.prog.cls('ZODB.FileStorage.fspack.FileStoragePacker')
    f = R.method(cls, 'pack')
    g, b, F = R.cfg(f, cls, max_depth=0)
    n = 0
    for nid in sorted(g.reachable()):
        node = g.nodes[nid]
        for op in F.ops(node):
            if op.kind == 'store' and path_is(op.path, ('self', 'file_end')):
                n += 1
                v = store_value(op)
                pv = provenance(v, node.frame, F) if v is not None else set()
                from_file = prov_has(pv, 'call', lambda p: p[-1] in (
                    'tell', 'getsize', 'fstat', 'stat'))
                from_storage = prov_has(pv, 'call', lambda p: p[-1] in (
                    'getSize',)) or any(k == 'attr' and v_ == '_pos'
                                        for k, v_ in pv)
                R.instance('FileStoragePacker.pack: %s' % node.text(60),
                           from_storage=from_storage)
                if from_file or not from_storage:
                    R.violation(
                        node, 'the packer takes the physical end of the '
                        'file for the end of the data: a complete, '
                        'checkpoint-flagged record left beyond the '
                        'committed position by a transaction that was voted '
                        'and never finished is copied and indexed -- the '
                        'never-committed revision becomes current, and a '
                        'reopen truncates the file there, losing every '
                        'later commit',
                        key='pack end taken from the file')
    f2 = R.method(cls, 'copyRest')
    loops = [l for l in walk_local(f2.node) if isinstance(l, ast.While) and
             any(isinstance(c, ast.Call) and isinstance(
                 c.func, ast.Attribute) and c.func.attr == 'copyOne'
                 for c in ast.walk(l))]
    R.require(loops, 'copyRest no longer loops over copyOne')
    for l in loops:
        n += 1
        def consults(e):
            return any(
                (isinstance(x, ast.Call) and isinstance(
                    x.func, ast.Attribute) and x.func.attr == 'getSize') or
                (isinstance(x, ast.Attribute) and x.attr in ('_pos',
                                                             'file_end'))
                for x in ast.walk(e))
        # the loop test, or a test with a `break` that precedes the copy
        bounded = consults(l.test)
        for s_ in l.body:
            if any(isinstance(c, ast.Call) and isinstance(
                    c.func, ast.Attribute) and c.func.attr == 'copyOne'
                    for c in ast.walk(s_)):
                break
            if isinstance(s_, ast.If) and consults(s_.test) and any(
                    isinstance(y, (ast.Break, ast.Return))
                    for y in ast.walk(s_)):
                bounded = True
        R.instance('FileStoragePacker.copyRest loop', bounded=bounded)
        if not bounded:
            R.violation(
                (f2.module.relpath, f2.qualname, 'copy loop bound',
                 l.lineno),
                'copyRest copies transactions until reading fails at the '
                'physical end of the file, not up to the storage\'s '
                'committed position: what a never-finished transaction left '
                'beyond that position is copied into the packed file',
                key='copy loop not bounded by the committed position')
    R.require(n >= 2, 'packer end handling not found')


# ----------------------------------------------------------------- C08.R11
@rule('C08.R11', 'the data file is opened by NAME only under the storage '
      'lock (a pack renames the file away and the packed file into place '
      'under that lock): an iterator asked for between the two renames must '
      'wait, not fail', min_instances=1)
def r11(R):
    from ..locks import explore_locksets
    cls = R.prog.cls(FS)
    n = 0
    for name, f in sorted(cls.methods.items()):
        if name in ('__init__', 'pack', 'cleanup', 'close', 'packer') or \
                name.startswith('_'):
            continue
        opens = [c for c in walk_local(f.node) if isinstance(c, ast.Call)
                 and any(dotted(a) == ('self', '_file_name')
                         for a in c.args) and dotted(c.func) and
                 dotted(c.func)[-1] in ('open', 'FileIterator')]
        if not opens:
            continue
        n += 1
        g, b, F = R.cfg(f, cls, max_depth=0)
        R.instance('FileStorage.%s opens the data file by name' % name)

        def check(node, held, name=name, F=F):
            for op in F.ops(node):
                if op.kind == 'call' and op.path and \
                        op.path[-1].split('.')[-1] in (
                            'open', 'FileIterator') and any(
                            dotted(a) == ('self', '_file_name')
                            for a in op.ast.args) and \
                        ('self', '_lock') not in held:
                    return ('FileStorage.%s opens the data file by name '
                            'without the storage lock: between the two '
                            'renames of a pack there is no file of that '
                            'name (FileNotFoundError), a reader error '
                            'caused by the pack' % name)
            return None

        vs, stats = explore_locksets(g, F, check)
        R.count(stats)
        for v in vs[:1]:
            R.violation(v.node, v.message, g, v.path)
    R.require(n >= 1, 'no public method opens the data file by name any '
              'more')


# ------------------------------------------------------------------ C08.R12
@rule('C08.R12', 'the handle through which the packer reads the data file '
      'while commits go on is UNBUFFERED: pack() re-opens it with buffering '
      '0 (a read-ahead buffer filled while the commit lock is released '
      'holds bytes of a transaction that may be aborted and overwritten)',
      min_instances=1)
def r12(R):
    cls = R.prog.cls(PACKER)
    f = R.method(cls, 'pack')
    n = 0
    for a in walk_local(f.node):
        if not (isinstance(a, ast.Assign) and any(
                dotted(t) == ('self', '_file') for t in a.targets)):
            continue
        v = a.value
        if not (isinstance(v, ast.Call) and isinstance(v.func, ast.Name)
                and v.func.id == 'open'):
            continue
        n += 1
        R.instance('FileStoragePacker.pack: %s' %
                   ' '.join(ast.unparse(a).split())[:60])
        buf = v.args[2] if len(v.args) >= 3 else next(
            (k.value for k in v.keywords if k.arg == 'buffering'), None)
        if not (isinstance(buf, ast.Constant) and buf.value == 0 and
                not isinstance(buf.value, bool)):
            R.violation(
                (f.module.relpath, f.qualname,
                 ' '.join(ast.unparse(a).split()), a.lineno),
                'the packer re-opens the data file BUFFERED (`%s`): while '
                'copyOne() has released the commit lock, a transaction can '
                'be voted and aborted and another committed at the same '
                'offset; the packer\'s next read is served from its stale '
                'buffer -- it copies the aborted bytes into the packed '
                'file instead of the committed transaction' %
                ' '.join(ast.unparse(v).split())[:50],
                key='packer handle buffered')
    R.require(n >= 1, 'FileStoragePacker.pack no longer re-opens its '
              'data-file handle')


# ------------------------------------------------------------------ C08.R13
@rule('C08.R13', 'a blob file is moved into the blob directory -- its '
      'directory created, the file renamed -- under the storage lock, the '
      'lock under which a pack removes emptied blob directories',
      props=['C13'], min_instances=2)
def r13(R):
    from ..locks import explore_locksets
    cls = R.prog.cls('ZODB.blob.BlobStorageMixin')
    f = R.method(cls, '_blob_storeblob')
    g, b, F = R.cfg(f, cls, max_depth=0)
    n = [0]

    def fs_ops(node):
        out = []
        for op in F.ops(node):
            if op.kind != 'call' or not isinstance(op.ast, ast.Call):
                continue
            dn = dotted(op.ast.func)
            if not dn:
                continue
            if dn[-1] == 'getPathForOID' and any(
                    k.arg == 'create' and isinstance(k.value, ast.Constant)
                    and k.value.value for k in op.ast.keywords):
                out.append(op)
            elif dn[-1] in ('rename_or_copy_blob', 'rename', 'replace',
                            'link_or_copy', 'makedirs', 'mkdir'):
                out.append(op)
        return out

    def check(node, held):
        ops = fs_ops(node)
        if ops and ('self', '_lock') not in held:
            return ('_blob_storeblob does `%s` without the storage lock: a '
                    'pack removing the last garbage blob below the same '
                    'parent directory removes the (momentarily empty) '
                    'directory between its creation and the move -- the '
                    'commit fails, or the file lands nowhere' %
                    ' '.join(ast.unparse(ops[0].ast).split())[:60])
        return None

    for nid in g.reachable():
        n[0] += len(fs_ops(g.nodes[nid]))
    vs, stats = explore_locksets(g, F, check)
    R.count(stats)
    R.instance('BlobStorageMixin._blob_storeblob', file_system_steps=n[0])
    R.instance('FileStorage pack removes emptied blob directories under '
               'the same lock (C13 rules)')
    R.require(n[0] >= 2, '_blob_storeblob no longer creates the directory '
              'and moves the file')
    for v in vs[:1]:
        R.violation(v.node, v.message, g, v.path,
                    key='blob moved into place without the storage lock')


# ------------------------------------------------------------------ C08.R14
@rule('C08.R14', 'the time a demo storage remembers its changes to be packed '
      'to never moves back, and is raised BEFORE the changes are packed '
      '(a reader older than the pack must not be handed the base\'s '
      'revision while, or after, the pack removes what it should see)',
      props=['C16', 'C02'], min_instances=1)
def r14(R):
    from ..twopc import DS
    cls = R.prog.cls(DS)
    f = R.method(cls, 'pack')
    g, b, F = R.cfg(f, cls, max_depth=0)
    stores = [0]

    def is_store(op):
        return op.kind == 'store' and path_is(op.path,
                                              ('self', '_packed_to'))

    def is_old(e, node):
        """the remembered time, or a local that only ever held it"""
        if dotted(e) == ('self', '_packed_to'):
            return True
        if isinstance(e, ast.Name):
            pv = provenance(e, node.frame, F)
            return ('path', ('self', '_packed_to')) in pv and not any(
                k_ == 'call' or (k_ == 'param' and v_ != 'self')
                for k_, v_ in pv)
        return False

    def edge(node, st, lab, tgt):
        raised, guarded = st
        if node.kind == 'test' and lab in ('T', 'F'):
            for e, truth in implied_atoms(node.ast, lab):
                if isinstance(e, ast.Compare) and len(e.ops) == 1:
                    for l, op, r in cmp_sides(e):
                        # both orientations are listed: `new OP old`
                        if is_old(r, node) and not is_old(l, node) and \
                                op in (ast.Gt, ast.GtE, ast.Lt, ast.LtE):
                            if (op in (ast.Gt, ast.GtE)) == truth:
                                guarded = True     # the new time is later
                            else:
                                raised = True      # already that late
        if lab in ('e', 'eb'):
            return (raised, False)
        for op in F.ops(node):
            if is_store(op):
                v = store_value(op)
                mx = isinstance(v, ast.Call) and isinstance(
                    v.func, ast.Name) and v.func.id == 'max' and any(
                        dotted(a) == ('self', '_packed_to') for a in v.args)
                if guarded or mx:
                    raised = True
        if node.kind not in ('test',):
            guarded = guarded and not any(is_store(op) for op in F.ops(node))
        return (raised, guarded)

    def at(node, st):
        raised, guarded = st
        for op in F.ops(node):
            if is_store(op):
                stores[0] += 1
                v = store_value(op)
                mx = isinstance(v, ast.Call) and isinstance(
                    v.func, ast.Name) and v.func.id == 'max' and any(
                        dotted(a) == ('self', '_packed_to') for a in v.args)
                pv = provenance(v, node.frame, F) if v is not None \
                    else set()
                # put back after a failed pack: a local that only ever
                # held the old value
                restore = isinstance(v, ast.Name) and (
                    'path', ('self', '_packed_to')) in pv and not any(
                        k_ == 'call' or (k_ == 'param' and v_ != 'self')
                        for k_, v_ in pv)
                if not guarded and not mx and not restore:
                    return Violation(
                        'DemoStorage.pack assigns self._packed_to without '
                        'holding the new time against the old one: a pack '
                        'to an EARLIER time (a FileStorage treats it as '
                        'redundant and returns) moves it back; a reader '
                        'whose snapshot lies between the two times is '
                        'handed the base\'s revision of an object whose '
                        'revision the first pack removed')
            if op.kind == 'call' and path_is(
                    op.path, ('self', 'changes', 'pack')) and not raised \
                    and not standalone_path(node):
                return Violation(
                    'DemoStorage.pack packs the changes before it has '
                    'raised self._packed_to: a reader older than the pack '
                    'time that loads while the pack runs finds nothing in '
                    'the changes any more and, the time not yet raised, is '
                    'handed the base\'s older revision')
        return st

    # the stand-alone returns (`return self.changes.pack(...)`: there is no
    # base to fall back to wrongly) are not the layered pack
    def standalone_path(node):
        return isinstance(node.ast, ast.Return) or node.kind == 'return'

    vs, stats = explore(g, (False, False), at=at, edge=edge)
    R.count(stats)
    R.instance('DemoStorage.pack', packed_to_stores=stores[0])
    R.require(stores[0] >= 1 or vs, 'DemoStorage.pack no longer records '
              'the pack time')
    for v in vs[:1]:
        R.violation(v.node, v.message, g, v.path,
                    key='pack time of the changes not raised first, or '
                        'moved back')


# ------------------------------------------------------------------ C08.R15
@rule('C08.R15', 'a demo storage does not wait for its changes storage\'s '
      'commit lock while it holds the storage lock it shares with that '
      'storage (a pack of a FileStorage takes the storage lock while '
      'holding the commit lock: the other order is a dead-lock)',
      props=['C05'], min_instances=1)
def r15(R):
    from ..locks import explore_locksets
    from ..twopc import DS
    cls = R.prog.cls(DS)
    # the fact the rule rests on: the demo storage uses the changes
    # storage's own lock object
    cp = R.method(cls, '_copy_methods_from_changes')
    shares = any(isinstance(c, ast.Constant) and c.value == '_lock'
                 for c in ast.walk(cp.node))
    R.instance('DemoStorage shares the storage lock of its changes',
               shares=shares)
    if not shares:
        return
    BLOCKING = ('tpc_begin', 'pack')      # wait for the commit lock
    n = 0
    for name, f in sorted(cls.methods.items()):
        if not any(isinstance(c, ast.Call) and dotted(c.func) and
                   dotted(c.func)[:2] == ('self', 'changes') and
                   dotted(c.func)[-1] in BLOCKING
                   for c in walk_local(f.node)):
            continue
        g, b, F = R.cfg(f, cls, max_depth=0)
        n += 1
        R.instance('DemoStorage.%s calls into the changes storage\'s '
                   'commit protocol' % name)

        def check(node, held, F=F, name=name):
            for op in F.ops(node):
                if op.kind == 'call' and op.path is not None and \
                        tuple(op.path[:2]) == ('self', 'changes') and \
                        op.path[-1] in BLOCKING and \
                        ('self', '_lock') in held:
                    return ('DemoStorage.%s calls `%s` while holding '
                            'self._lock, which is the changes storage\'s '
                            'own storage lock: the call waits for that '
                            'storage\'s commit lock, and a FileStorage that '
                            'is being packed takes the storage lock while '
                            'holding the commit lock -- a commit that '
                            'begins in the pack\'s final phase blocks '
                            'packer, committer and every reader for ever' %
                            (name, '.'.join(op.path)))
            return None

        vs, stats = explore_locksets(g, F, check)
        R.count(stats)
        for v in vs[:1]:
            R.violation(v.node, v.message, g, v.path,
                        key='changes storage\'s commit lock awaited under '
                            'the shared storage lock')
    R.require(n >= 1, 'DemoStorage no longer delegates tpc_begin/pack to '
              'its changes')


# ------------------------------------------------------------------ C08.R16
@rule('C08.R16', 'a pack of a demo storage\'s changes that fails, with '
      'whatever exception, leaves the remembered pack time as it was '
      '(nothing was packed: a reader must still be served the base\'s '
      'revision for times before the first change)',
      props=['C16'], min_instances=1)
def r16(R):
    from ..twopc import DS
    cls = R.prog.cls(DS)
    f = R.method(cls, 'pack')
    g, b, F = R.cfg(f, cls, max_depth=0)
    seen = {'stores': 0, 'packs': 0}

    def is_store(op):
        return op.kind == 'store' and path_is(op.path,
                                              ('self', '_packed_to'))

    def is_pack(op):
        return op.kind == 'call' and path_is(op.path,
                                             ('self', 'changes', 'pack'))

    def flags_after(node, flags):
        """locals that hold a constant (the `done = False ... done = True`
        idiom next to a finally clause)"""
        fl = dict(flags)
        for op in F.ops(node):
            if op.kind in ('store', 'aug') and op.path and \
                    op.path[0] == '%local' and len(op.path) == 2:
                v = store_value(op)
                if isinstance(v, ast.Constant) and op.kind == 'store':
                    fl[op.path[1]] = bool(v.value)
                else:
                    fl.pop(op.path[1], None)
        return frozenset(fl.items())

    def edge(node, st, lab, tgt):
        ph, flags = st
        if lab in ('e', 'eb'):
            if ph == 'raised' and any(is_pack(op) for op in F.ops(node)):
                return ('failed', flags)
            return st
        if node.kind == 'test' and lab in ('T', 'F'):
            known = dict(flags)
            for e, truth in implied_atoms(node.ast, lab):
                if isinstance(e, ast.Name) and e.id in known and \
                        known[e.id] != truth:
                    return PRUNE          # the flag says otherwise
        flags = flags_after(node, flags)
        if any(is_store(op) for op in F.ops(node)):
            if ph == 'start':
                return ('raised', flags)
            if ph == 'failed':
                return ('restored', flags)
        return (ph, flags)

    def at(node, st):
        for op in F.ops(node):
            if is_store(op):
                seen['stores'] += 1
            if is_pack(op):
                seen['packs'] += 1
        if node.id == g.exit_raise and st[0] == 'failed':
            return Violation(
                'DemoStorage.pack raised self._packed_to, the pack of the '
                'changes failed and the exception leaves pack() without '
                'the old time being put back: nothing was removed, yet a '
                'load before the first change of an object is no longer '
                'answered from the base')
        return st

    vs, stats = explore(g, ('start', frozenset()), at=at, edge=edge)
    R.count(stats)
    R.instance('DemoStorage.pack', packed_to_stores=seen['stores'],
               changes_packs=seen['packs'])
    R.require(seen['packs'] >= 1, 'DemoStorage.pack no longer packs its '
              'changes')
    for v in vs[:1]:
        R.violation(v.node, v.message, g, v.path,
                    key='pack time kept raised after a failed pack')
