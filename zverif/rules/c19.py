"""C19 -- the oid index behaves as an ordered map."""

import ast

from ..engine import rule
from ..flow import PRUNE, Violation, explore, implied_atoms, path_is, \
    prov_has, provenance, store_value
from ..model import dotted, walk_local
from ..tables import struct_fields

FSINDEX = 'ZODB.fsIndex.fsIndex'
SPLIT = 6


def is_slice(e, param, lower=None, upper=None):
    """param[lower:upper] with integer constants"""
    if not (isinstance(e, ast.Subscript) and isinstance(e.slice, ast.Slice)
            and isinstance(e.value, ast.Name)):
        return False
    if param is not None and e.value.id != param:
        return False
    lo, up = e.slice.lower, e.slice.upper

    def val(x):
        return x.value if isinstance(x, ast.Constant) else (
            None if x is None else '?')
    return val(lo) == lower and val(up) == upper and e.slice.step is None


def key_param(f):
    for p in f.params:
        if p in ('key', 'oid', 'k'):
            return p
    return None


@rule('C19.R1', 'a prefix bucket is queried with a key\'s suffix only if it '
      'is the bucket of exactly that key\'s prefix', min_instances=7)
def r1(R):
    cls = R.prog.cls(FSINDEX)
    total = 0
    for f in cls.methods.values():
        kp = key_param(f)
        if kp is None:
            continue
        g, b, F = R.cfg(f, cls, max_depth=0)
        defs = b.local_defs(f)

        def prefix_of_key(e):
            if is_slice(e, kp, None, SPLIT):
                return True
            if isinstance(e, ast.Name):
                ds = defs.get(e.id, [])
                return len(ds) == 1 and isinstance(ds[0], ast.AST) and \
                    is_slice(ds[0], kp, None, SPLIT)
            return False

        def suffix_of_key(e):
            return any(is_slice(x, kp, SPLIT, None) for x in ast.walk(e))

        def data_lookup(e):
            """self._data.get(P, ...) / self._data[P] -> P else None"""
            if isinstance(e, ast.Call) and isinstance(e.func, ast.Attribute) \
                    and e.func.attr == 'get' and dotted(e.func.value) == (
                        'self', '_data') and e.args:
                return e.args[0]
            if isinstance(e, ast.Subscript) and dotted(e.value) == (
                    'self', '_data'):
                return e.slice
            return None

        def suffix_queries(node):
            """(bucket expr, query ast) for bucket operations that use the
            key's suffix"""
            out = []
            s = node.ast
            if s is None or node.kind not in ('stmt', 'test', 'return',
                                              'assert'):
                return out
            for x in ast.walk(s):
                if isinstance(x, ast.Subscript) and not isinstance(
                        x.slice, ast.Slice) and suffix_of_key(x.slice):
                    out.append((x.value, x))
                if isinstance(x, ast.Call) and isinstance(
                        x.func, ast.Attribute) and any(
                            suffix_of_key(a) for a in x.args):
                    out.append((x.func.value, x))
            return out

        sites = [0]

        def edge(node, st, lab, tgt):
            exact, eqvars = st          # exact: frozenset of bucket locals
            if node.kind == 'test' and lab in ('T', 'F'):
                for e, truth in implied_atoms(node.ast, lab):
                    if isinstance(e, ast.Compare) and len(e.ops) == 1:
                        a, c = e.left, e.comparators[0]
                        eq = isinstance(e.ops[0], ast.Eq) and truth or \
                            isinstance(e.ops[0], ast.NotEq) and not truth
                        if eq:
                            for x, y in ((a, c), (c, a)):
                                if isinstance(x, ast.Name) and \
                                        is_slice(y, kp, None, SPLIT):
                                    eqvars = eqvars | {x.id}
            if lab == 'e':
                return (exact, eqvars)
            for op in F.ops(node):
                if op.kind == 'setitem' and path_is(op.path,
                                                    ('self', '_data')):
                    # self._data[<prefix of key>] = bucket: now exact
                    v = op.stmt.value if isinstance(op.stmt, ast.Assign) \
                        else None
                    if isinstance(v, ast.Name) and prefix_of_key(
                            op.ast.slice):
                        exact = exact | {v.id}
                if op.kind == 'store' and op.path and op.path[0] == '%local':
                    name = op.path[1]
                    v = store_value(op)
                    p = data_lookup(v) if v is not None else None
                    exact = exact - {name}
                    eqvars = eqvars - {name}
                    if p is not None:
                        if prefix_of_key(p):
                            exact = exact | {name}
                        elif isinstance(p, ast.Name) and p.id in eqvars:
                            exact = exact | {name}
                        elif isinstance(p, ast.Name):
                            # bucket of prefix variable p: exact iff p is
                            # later shown equal to the key's prefix
                            exact = exact | {name + '@' + p.id}
            return (exact, eqvars)

        def at(node, st):
            exact, eqvars = st
            for bucket, q in suffix_queries(node):
                sites[0] += 1
                ok = False
                if data_lookup(bucket) is not None:
                    ok = prefix_of_key(data_lookup(bucket))
                elif isinstance(bucket, ast.Name):
                    if bucket.id in exact:
                        ok = True
                    else:
                        for t in exact:
                            if t.startswith(bucket.id + '@') and \
                                    t.split('@', 1)[1] in eqvars:
                                ok = True
                if not ok:
                    return Violation(
                        'the bucket `%s` is queried with the suffix of `%s` '
                        '(`%s`) although it need not be the bucket of that '
                        'key\'s 6-byte prefix: for a key whose prefix is '
                        'absent the answer is a wrong key or a spurious '
                        'ValueError' % (ast.unparse(bucket), kp,
                                        ast.unparse(q)))
            return st

        vs, stats = explore(g, (frozenset(), frozenset()), at=at, edge=edge)
        R.count(stats)
        n = sum(len(suffix_queries(g.nodes[i])) for i in g.reachable())
        total += n
        if n:
            R.instance('fsIndex.%s' % f.name, suffix_queries=n)
        for v in vs:
            R.violation(v.node, v.message, g, v.path)
    R.require(total >= 7, 'only %d suffix queries found in fsIndex' % total)


def _is_self_data(e):
    return isinstance(e, ast.Attribute) and e.attr == '_data' and \
        isinstance(e.value, ast.Name) and e.value.id == 'self'


def _dump(e):
    """Structural identity of an expression, whatever its context."""
    return ast.unparse(e)


@rule('C19.R2', 'deleting the last key of a bucket removes the bucket '
      '(min/max search relies on non-empty buckets)', min_instances=1)
def r2(R):
    cls = R.prog.cls(FSINDEX)
    n = 0
    for f in cls.methods.values():
        g, b, F = R.cfg(f, cls, max_depth=0)
        dels = [op for op in F.all_ops() if op.kind == 'delitem' and op.path
                and op.path[0] == '%local']
        pops = [op for op in F.all_ops() if op.kind == 'call' and op.path and
                op.path[0] == '%local' and op.path[-1] in ('pop', 'popitem')
                and len(op.path) == 3]
        # `del self._data[prefix][suffix]`: the bucket has no name; it is
        # identified by the expression that selects it
        anon = [op for op in F.all_ops() if op.kind == 'delitem' and
                op.path is None and isinstance(op.ast.value, ast.Subscript)
                and _is_self_data(op.ast.value.value)]
        if not dels and not pops and not anon:
            continue
        for op in dels + pops + anon:
            n += 1
            bucket = op.path[1] if op.path else None
            bexpr = None if op.path else _dump(op.ast.value)
            if bucket is None:
                R.instance('fsIndex.%s deletes from the bucket selected by '
                           '`%s`' % (f.name, ast.unparse(op.ast.value)))
                bucket = '%anonymous'
            else:
                R.instance('fsIndex.%s deletes from bucket `%s`' % (f.name,
                                                                    bucket))

            def edge(node, st, lab, tgt, op=op, bucket=bucket, F=F,
                     bexpr=bexpr):
                if node is op.node and lab != 'e':
                    return 'deleted'
                if st == 'deleted' and node.kind == 'test' and \
                        lab in ('T', 'F'):
                    for e, truth in implied_atoms(node.ast, lab):
                        if isinstance(e, ast.Call) and isinstance(
                                e.func, ast.Name) and e.func.id == 'len' and \
                                len(e.args) == 1:
                            e = e.args[0]
                        if isinstance(e, ast.Name) and e.id == bucket:
                            return 'nonempty' if truth else 'empty'
                        if bexpr is not None and _dump(e) == bexpr:
                            return 'nonempty' if truth else 'empty'
                if st == 'empty':
                    for o in F.ops(node):
                        if o.kind == 'delitem' and path_is(
                                o.path, ('self', '_data')) and lab != 'e':
                            return 'removed'
                        if o.kind == 'call' and path_is(
                                o.path, ('self', '_data', 'pop')) and \
                                lab != 'e':
                            return 'removed'
                return st

            def at(node, st, g=g):
                if node.id == g.exit_return and st in ('deleted', 'empty'):
                    return Violation(
                        'a key is deleted from a prefix bucket and the '
                        'bucket may be left empty in the index: minKey/'
                        'maxKey assume every bucket is non-empty and then '
                        'fail or skip keys')
                return st

            vs, stats = explore(g, 'start', at=at, edge=edge)
            R.count(stats)
            for v in vs:
                R.violation(op.node, v.message, g, v.path)
    R.require(n >= 1, 'fsIndex no longer deletes keys')


@rule('C19.R3', 'save and load agree on the stream: position, (prefix, '
      'bucket) pairs, terminating None', props=['C09'], min_instances=2)
def r3(R):
    cls = R.prog.cls(FSINDEX)
    save = R.method(cls, 'save')
    load = R.method(cls, 'load')
    g, b, F = R.cfg(save, cls, max_depth=0)
    R.instance('fsIndex.save')

    def dump_arg(node):
        for op in F.ops(node):
            if op.kind == 'call' and op.path and op.path[-1] == 'dump' and \
                    op.ast.args:
                return op.ast.args[0]
        return None

    def edge(node, st, lab, tgt):
        a = dump_arg(node)
        if a is None or lab == 'e':
            return st
        if st == 0:
            if isinstance(a, ast.Name) and a.id == save.params[1]:
                return 1
            return Violation('the first value saved is not the position')
        if st in (1, 2):
            if isinstance(a, ast.Tuple) and len(a.elts) == 2:
                return 2
            if isinstance(a, ast.Constant) and a.value is None:
                return 3
            return Violation('an index entry is not saved as a (prefix, '
                             'bucket) pair')
        # after the terminator: an optional trailer (readers stop at the
        # None, so it cannot be taken for an entry) -- but never another
        # entry or terminator, which no reader would see
        if isinstance(a, ast.Tuple) or (isinstance(a, ast.Constant) and
                                        a.value is None):
            return Violation('an index entry (or a second terminator) is '
                             'saved after the terminating None: load stops '
                             'at the None and never sees it')
        return 3

    def at(node, st):
        if node.id == g.exit_return and st != 3:
            return Violation('the saved index is not terminated by None '
                             '(load would run into EOF) or has no position')
        return st

    vs, stats = explore(g, 0, at=at, edge=edge)
    R.count(stats)
    for v in vs:
        n = v.node if v.node.id != g.exit_return else (
            save.module.relpath, save.qualname, 'stream shape')
        R.violation(n, v.message, g, v.path)
    # load
    R.instance('fsIndex.load')
    g2, b2, F2 = R.cfg(load, cls, max_depth=0)
    loads = [op for op in F2.all_ops() if op.kind == 'call' and op.path and
             op.path[-1] == 'load' and op.path[0] == '%local']
    loads.sort(key=lambda op: op.ast.lineno)
    if len(loads) < 2:
        R.violation((load.module.relpath, load.qualname, 'stream shape'),
                    'load no longer reads a position followed by entries')
        return
    first = loads[0]
    s = first.stmt
    posname = s.targets[0].id if isinstance(s, ast.Assign) and isinstance(
        s.targets[0], ast.Name) else None
    ret_ok = False
    unpack2 = False
    stop_on_falsy = False
    for n in walk_local(load.node):
        if isinstance(n, ast.Return) and isinstance(n.value, ast.Call):
            for kw in n.value.keywords:
                if kw.arg == 'pos' and isinstance(kw.value, ast.Name) and \
                        kw.value.id == posname:
                    ret_ok = True
        if isinstance(n, ast.Assign) and isinstance(n.targets[0], ast.Tuple) \
                and len(n.targets[0].elts) == 2 and isinstance(
                    n.value, ast.Name):
            unpack2 = True
        if isinstance(n, ast.If) and isinstance(n.test, ast.UnaryOp) and \
                isinstance(n.test.op, ast.Not) and any(
                    isinstance(x, ast.Break) for x in n.body):
            stop_on_falsy = True
    if not (ret_ok and unpack2 and stop_on_falsy):
        R.violation((load.module.relpath, load.qualname, 'stream shape'),
                    'load does not consume position / 2-tuples / terminating '
                    'None in the shape save writes (pos returned: %s, pair '
                    'unpacked: %s, stops at None: %s)' % (ret_ok, unpack2,
                                                          stop_on_falsy))


@rule('C19.R4', 'every key split is 6 + 2 bytes and positions are stored as '
      'the low 6 bytes of a big-endian 64-bit number', min_instances=12)
def r4(R):
    cls = R.prog.cls(FSINDEX)
    n = 0
    for f in cls.methods.values():
        kp = key_param(f)
        for x in walk_local(f.node):
            if isinstance(x, ast.Subscript) and isinstance(x.slice, ast.Slice)\
                    and isinstance(x.value, ast.Name) and x.value.id == kp:
                n += 1
                R.instance('fsIndex.%s %s' % (f.name, ast.unparse(x)))
                if not (is_slice(x, kp, None, SPLIT) or
                        is_slice(x, kp, SPLIT, None)):
                    R.violation((f.module.relpath, f.qualname,
                                 ast.unparse(x), x.lineno),
                                'key split `%s` is not the 6-byte prefix / '
                                '2-byte suffix split used everywhere else: '
                                'keys written by one method are not found by '
                                'another' % ast.unparse(x))
    m = R.prog.module('ZODB.fsIndex')
    n2s = R.prog.func('ZODB.fsIndex.num2str')
    s2n = R.prog.func('ZODB.fsIndex.str2num')
    ok1 = ok2 = False
    for x in walk_local(n2s.node):
        if isinstance(x, ast.Subscript) and isinstance(x.slice, ast.Slice) \
                and isinstance(x.value, ast.Call) and x.value.args and \
                isinstance(x.value.args[0], ast.Constant):
            fields = struct_fields(x.value.args[0].value)
            lo = x.slice.lower
            ok1 = (len(fields) == 1 and fields[0][2] == 8 and
                   x.value.args[0].value.startswith('>') and
                   isinstance(lo, ast.Constant) and lo.value == 8 - SPLIT
                   and x.slice.upper is None)
    for x in walk_local(s2n.node):
        if isinstance(x, ast.Call) and dotted(x.func) and \
                dotted(x.func)[-1] == 'unpack' and len(x.args) == 2 and \
                isinstance(x.args[0], ast.Constant) and \
                isinstance(x.args[1], ast.BinOp) and \
                isinstance(x.args[1].left, ast.Constant):
            pad = x.args[1].left.value
            ok2 = (x.args[0].value.startswith('>') and
                   struct_fields(x.args[0].value)[0][2] == 8 and
                   isinstance(pad, bytes) and len(pad) == 8 - SPLIT and
                   not any(pad))
    n += 2
    R.instance('num2str', ok=ok1)
    R.instance('str2num', ok=ok2)
    if not ok1:
        R.violation((m.relpath, n2s.qualname, 'num2str'),
                    'num2str no longer keeps exactly the low 6 bytes of the '
                    'big-endian 64-bit position')
    if not ok2:
        R.violation((m.relpath, s2n.qualname, 'str2num'),
                    'str2num no longer pads the 6 stored bytes with two zero '
                    'high bytes')


@rule('C19.R5', 'loading an index ends only at the terminating None; a '
      'stream that is cut short raises (and the caller rejects the index)',
      props=['C09'], min_instances=1)
def r5(R):
    cls = R.prog.cls(FSINDEX)
    f = R.method(cls, 'load')
    g, b, F = R.cfg(f, cls, max_depth=0)
    loads = [n for n in (g.nodes[i] for i in g.reachable())
             if any(op.kind == 'call' and op.path and op.path[-1] == 'load'
                    and op.path[0] == '%local' for op in F.ops(n))]
    R.instance('fsIndex.load', load_sites=len(loads))
    R.require(loads, 'fsIndex.load no longer unpickles')
    # the loop that reads the entries (it breaks at the falsy terminator)
    entry_loops = [w for w in walk_local(f.node) if isinstance(w, ast.While)
                   and any(isinstance(x, ast.Break) for x in ast.walk(w))]
    R.require(entry_loops, 'fsIndex.load has no entry loop')
    loop_end = max(w.end_lineno for w in entry_loops)
    for n in loads:
        if n.lineno is not None and n.lineno > loop_end:
            # an optional trailer read after the terminating None was seen:
            # running into the end of the file there means "saved without
            # the trailer", the entries are complete
            continue
        # from the exception edge of this load, a normal return of the
        # function must be unreachable
        seen, stack = set(), [t for t, lab in n.succ if lab in ('e', 'eb')]
        hit = False
        while stack:
            i = stack.pop()
            if i == g.exit_return:
                hit = True
                break
            if i in seen:
                continue
            seen.add(i)
            nd = g.nodes[i]
            for t, lab in nd.succ:
                stack.append(t)
        if hit:
            R.violation(n, 'a failure while reading the index stream (for '
                        'instance EOFError on a file that was cut short) is '
                        'turned into a normal end of the index: a truncated '
                        'index is accepted as a smaller, complete one and '
                        'objects disappear')


# ------------------------------------------------------------------ C19.R6
@rule('C19.R6', 'the neighbouring prefix is computed only for a prefix that '
      'has one: prefix_plus_one is not applied to the all-ones prefix (it '
      'wraps to zero) nor prefix_minus_one to the all-zero prefix',
      min_instances=2)
def r6(R):
    cls = R.prog.cls(FSINDEX)
    n = 0
    for f in cls.methods.values():
        if not any(isinstance(c, ast.Call) and dotted(c.func) and
                   dotted(c.func)[-1] in ('prefix_plus_one',
                                          'prefix_minus_one')
                   for c in walk_local(f.node)):
            continue
        g, b, F = R.cfg(f, cls, max_depth=0)

        def edge(node, st, lab, tgt):
            if node.kind == 'test' and lab in ('T', 'F'):
                for e, truth in implied_atoms(node.ast, lab):
                    if isinstance(e, ast.Compare) and len(e.ops) == 1 and \
                            isinstance(e.ops[0], (ast.Eq, ast.NotEq)) and \
                            isinstance(e.left, ast.Name) and any(
                                isinstance(x, ast.Constant) and isinstance(
                                    x.value, bytes)
                                for x in ast.walk(e.comparators[0])):
                        if isinstance(e.ops[0], ast.NotEq) == truth:
                            return st | {e.left.id}
            if node.kind == 'stmt' and isinstance(node.ast, ast.Assign):
                for t in node.ast.targets:
                    if isinstance(t, ast.Name) and t.id in st:
                        return st - {t.id}
            return st

        def at(node, st):
            for op in F.ops(node):
                if op.kind == 'call' and op.path and op.path[-1].split(
                        '.')[-1] in ('prefix_plus_one', 'prefix_minus_one'):
                    a = op.ast.args[0] if op.ast.args else None
                    if not (isinstance(a, ast.Name) and a.id in st):
                        return Violation(
                            '`%s` is computed without having excluded the '
                            'extreme prefix: at the boundary it wraps (or '
                            'raises struct.error), and %s answers with a '
                            'key on the wrong side of the query instead of '
                            'ValueError' % (ast.unparse(op.ast), f.name))
            return st

        sites = [c for c in walk_local(f.node) if isinstance(c, ast.Call)
                 and dotted(c.func) and dotted(c.func)[-1] in (
                     'prefix_plus_one', 'prefix_minus_one')]
        for c in sites:
            n += 1
            R.instance('fsIndex.%s: %s' % (f.name, ast.unparse(c)))
        vs, stats = explore(g, frozenset(), at=at, edge=edge)
        R.count(stats)
        for v in vs:
            R.violation(v.node, v.message, g, v.path)
    R.require(n >= 2, 'minKey/maxKey no longer step to the neighbouring '
              'prefix')


# ------------------------------------------------------------------ C19.R7
@rule('C19.R7', 'every index owns its buckets: what is stored under a '
      'prefix is a bucket made here (or decoded from a saved string), never '
      'the bucket object of another index', min_instances=2)
def r7(R):
    cls = R.prog.cls(FSINDEX)
    n = 0
    for name, f in sorted(cls.methods.items()):
        g, b, F = R.cfg(f, cls, max_depth=0)
        for op in F.all_ops():
            if op.kind != 'setitem' or not isinstance(op.stmt, ast.Assign):
                continue
            # the container: self._data, or a local bound to it
            tgt = op.ast.value if isinstance(op.ast, ast.Subscript) else None
            if tgt is None:
                continue
            pt = provenance(tgt, op.node.frame, F)
            own = dotted(tgt) == ('self', '_data') or (
                ('path', ('self', '_data')) in pt)
            if not own:
                continue
            n += 1
            R.instance('fsIndex.%s: %s' % (name, ast.unparse(op.stmt)[:60]))
            pv = provenance(op.stmt.value, op.node.frame, F)
            foreign = any(k == 'param' for k, v in pv) and prov_has(
                pv, 'attr', lambda a: a == '_data') and not prov_has(
                    pv, 'call', lambda p: p[-1].split('.')[-1] in (
                        'fsBucket', 'fromString', 'OOBTree'))
            if foreign:
                R.violation(
                    op.node, 'fsIndex.%s stores `%s` under a prefix: a '
                    'bucket object taken from ANOTHER index.  The two '
                    'indexes then share it: a later insert, overwrite or '
                    'delete under that prefix in one shows up in the other '
                    '(lookups, length, iteration, min/maxKey and save/load '
                    'go wrong)' % (name, ast.unparse(op.stmt.value)[:40]))
    R.require(n >= 2, 'fsIndex no longer stores buckets')


# ------------------------------------------------------------------ C19.R8
@rule('C19.R8', 'when a bounded min/max query finds nothing under its own '
      'prefix it goes on with the neighbouring prefix\'s EXTREME key: the '
      'smallest suffix (00 00) going up, the largest (ff ff) going down '
      '(sibling symmetry of minKey and maxKey)', min_instances=2)
def r7(R):
    cls = R.prog.cls('ZODB.fsIndex.fsIndex')
    want = {'minKey': b'\x00\x00', 'maxKey': b'\xff\xff'}
    n = 0
    for meth, suffix in want.items():
        f = R.method(cls, meth)
        n += 1
        R.instance('fsIndex.%s fall-through' % meth)
        for c in walk_local(f.node):
            if isinstance(c, ast.Call) and isinstance(
                    c.func, ast.Attribute) and isinstance(
                        c.func.value, ast.Name) and \
                    c.func.value.id == 'self' and c.func.attr in want and \
                    c.args:
                # a recursive query with a bound built as prefix + suffix
                a = c.args[0]
                consts = [x.value for x in ast.walk(a) if isinstance(
                    x, ast.Constant) and isinstance(x.value, bytes)]
                ok = c.func.attr == meth and (
                    not consts or any(v.endswith(want[meth]) and
                                      len(v) >= 2 for v in consts))
                if not ok:
                    R.violation(
                        (f.module.relpath, f.qualname,
                         ' '.join(ast.unparse(c).split()), c.lineno),
                        'fsIndex.%s goes on under the neighbouring prefix '
                        'with the bound `%s`: %s needs that prefix\'s %s '
                        'suffix (%r) -- with any other, keys of the '
                        'neighbouring bucket are left out and a far smaller '
                        'key (or ValueError) is the answer' % (
                            meth, ' '.join(ast.unparse(a).split()), meth,
                            'smallest' if meth == 'minKey' else 'largest',
                            want[meth]),
                        key='neighbouring prefix asked with the wrong '
                            'extreme')
    R.require(n >= 2, 'minKey/maxKey not found')


# ------------------------------------------------------------------ C19.R9
@rule('C19.R9', 'when a bounded min/max query decides by comparing the '
      'bound\'s suffix with the bucket\'s extreme key whether the answer is '
      'in this bucket, the boundary case -- the bound IS that extreme key -- '
      'stays in the bucket (the key itself is the answer)',
      min_instances=2)
def r9(R):
    cls = R.prog.cls('ZODB.fsIndex.fsIndex')
    for meth in ('minKey', 'maxKey'):
        f = R.method(cls, meth)
        R.instance('fsIndex.%s' % meth)
        params = [p for p in f.params if p != 'self']

        def is_suffix(e):
            return isinstance(e, ast.Subscript) and isinstance(
                e.slice, ast.Slice) and isinstance(e.value, ast.Name) and \
                e.value.id in params and e.slice.lower is not None and \
                e.slice.upper is None

        def is_extreme(e):
            return isinstance(e, ast.Call) and isinstance(
                e.func, ast.Attribute) and e.func.attr in (
                    'minKey', 'maxKey') and not e.args and not e.keywords

        def in_bucket(stmts):
            return any(isinstance(c, ast.Call) and isinstance(
                c.func, ast.Attribute) and c.func.attr in (
                    'minKey', 'maxKey') and c.args and any(
                        is_suffix(x) for x in ast.walk(c.args[0]))
                for s_ in stmts for c in ast.walk(s_))

        for t in walk_local(f.node):
            if not isinstance(t, ast.If):
                continue
            test, neg = t.test, False
            while isinstance(test, ast.UnaryOp) and isinstance(
                    test.op, ast.Not):
                test, neg = test.operand, not neg
            if not (isinstance(test, ast.Compare) and len(test.ops) == 1):
                continue
            l, r = test.left, test.comparators[0]
            if not ((is_suffix(l) and is_extreme(r)) or
                    (is_extreme(l) and is_suffix(r))):
                continue
            op = test.ops[0]
            if not isinstance(op, (ast.Lt, ast.LtE, ast.Gt, ast.GtE)):
                continue
            equal_truth = isinstance(op, (ast.LtE, ast.GtE)) != neg
            body_in, else_in = in_bucket(t.body), in_bucket(t.orelse)
            if body_in == else_in:
                continue                 # not the in-bucket decision
            taken_in_bucket = body_in if equal_truth else else_in
            if not taken_in_bucket:
                R.violation(
                    (f.module.relpath, f.qualname,
                     ' '.join(ast.unparse(t.test).split()), t.lineno),
                    'fsIndex.%s decides with `%s` whether the answer lies '
                    'in the bound\'s own bucket: when the bound IS the '
                    'bucket\'s extreme key the test sends the query on to '
                    'the neighbouring bucket -- %s(k) for a key k that is '
                    'the first (last) of its bucket answers with a key of '
                    'another bucket, or raises ValueError, although k '
                    'itself is in the index' % (
                        meth, ' '.join(ast.unparse(t.test).split()), meth),
                    key='boundary case of the in-bucket test leaves the '
                        'bucket')
