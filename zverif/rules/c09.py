"""C09 -- index and side files are only caches; read-only opens change
nothing."""

import ast

from ..engine import rule
from ..flow import PRUNE, Flags, Soft, Violation, explore, if_branches, \
    implied_atoms, \
    path_ends, path_is, prov_has, provenance, raising_node, store_value, \
    truth_test
from ..model import dotted, walk_local
from ..twopc import FS
from .c05 import has_effect

WRITE_MODE = set('wax+')


def ro_key(F):
    def keyfn(e, fr):
        if not isinstance(e, (ast.Name, ast.Attribute)) or not dotted(e):
            return None
        p = F.canon(e, fr)
        if p in (('%param', 'read_only'), ('self', '_is_read_only')):
            return 'ro'
        if p in (('%param', 'create'), ('%local', 'create')):
            return 'create'
        if isinstance(e, ast.Name) and e.id == 'create' and \
                fr.parent is None:
            return 'create'
        return None
    return keyfn


def mutations(F, node, flags, st):
    """File-system mutations performed by `node` -> [description]"""
    out = []
    fr = node.frame
    for op in F.ops(node):
        if op.kind != 'call' or op.path is None or op.inlined:
            continue
        p = op.path
        last = p[-1]
        if p == ('@open',) or last.endswith('.open') and p[0].startswith('@'):
            a = op.ast.args
            mode = a[1] if len(a) > 1 else None
            for kw in op.ast.keywords:
                if kw.arg == 'mode':
                    mode = kw.value
            if mode is None:
                continue
            known, mv = flags.eval(mode, st, fr)
            if not known or (isinstance(mv, str) and set(mv) & WRITE_MODE):
                out.append('open(%s, %s)' % (
                    ast.unparse(a[0])[:30] if a else '?',
                    ast.unparse(mode)))
        elif p[0] == '@os' and len(p) == 2 and p[1] in (
                'remove', 'unlink', 'rename', 'replace', 'makedirs', 'mkdir',
                'rmdir', 'truncate', 'chmod', 'link', 'symlink'):
            out.append('os.%s' % p[1])
        elif p[0] == '@shutil':
            out.append('shutil.%s' % '.'.join(p[1:]))
        elif last.endswith('LockFile'):
            out.append('LockFile (creates the .lock file)')
        elif last.endswith('remove_committed') or last.endswith(
                'remove_committed_dir') or last.endswith('_truncate'):
            out.append(last.split('.')[-1])
        elif last in ('write', 'truncate', 'writelines') and len(p) >= 2 and \
                (p[-2] in ('_file', '_tfile', 'file') or p[0] == '%param'
                 or p[0] == '%local'):
            out.append('.'.join(p[-2:]))
        elif last == 'save' and len(p) >= 2 and 'index' in p[-2].lower():
            out.append('index.save')
        elif last == 'dump' and p[0] == '%local':
            out.append('pickle dump to a file opened for writing')
    return out


@rule('C09.R1', 'everything a read-only open or close does to the file '
      'system is guarded by the negated read-only flag', props=['C01'],
      min_instances=2)
def r1(R):
    cls = R.prog.cls(FS)
    for meth in ('__init__', 'close'):
        f = R.method(cls, meth)
        g, b, F = R.cfg(f, cls, max_depth=5,
                        inline=lambda t, fr: t.func.name not in (
                            'getPathForOID',))
        flags = Flags(F, ro_key(F))
        sites = set()

        def edge(node, st, lab, tgt, flags=flags):
            st = flags.learn(node, st, lab)
            if st is PRUNE:
                return st
            return flags.assign(node, st, lab)

        def at(node, st, F=F, flags=flags, meth=meth):
            ms = mutations(F, node, flags, st)
            if ms:
                sites.add(node.id)
                if flags.value(st, 'ro') is True:
                    return Soft(Violation(
                        'FileStorage.%s on a storage opened read-only '
                        'performs %s: a read-only open must not modify any '
                        'file' % (meth, '; '.join(ms))), st)
            return st

        init = frozenset() if meth == '__init__' else frozenset()
        vs, stats = explore(g, init, at=at, edge=edge)
        R.count(stats)
        R.instance('FileStorage.%s' % meth, cfg_nodes=len(g.reachable()),
                   mutation_sites=len(sites))
        R.require(len(sites) >= (6 if meth == '__init__' else 2) or vs,
                  'FileStorage.%s: only %d mutation sites recognised' % (
                      meth, len(sites)))
        for v in vs:
            fr = v.node.frame
            while fr.parent is not None and fr.parent.parent is not None:
                fr = fr.parent
            key = ('through %s()' % fr.func.name) if fr.parent is not None \
                else None
            R.violation(v.node, v.message, g, v.path, at_root=True, key=key)


WRITE_API = ('store', 'deleteObject', 'restore', 'undo', 'pack', 'tpc_begin',
             'new_oid', 'storeBlob', 'restoreBlob')


@rule('C09.R2', 'every write API of a read-only file storage refuses before '
      'it has any effect', props=['C06', 'C07'], min_instances=7)
def r2(R):
    cls = R.prog.cls(FS)
    for meth in WRITE_API:
        f = R.method(cls, meth)
        g, b, F = R.cfg(f, cls, max_depth=1)
        flags = Flags(F, ro_key(F))
        name = 'FileStorage.%s' % meth
        R.instance(name)

        def edge(node, st, lab, tgt, flags=flags, F=F, name=name):
            st2 = flags.learn(node, st, lab)
            if st2 is PRUNE:
                return st2
            ro = flags.value(st2, 'ro')
            if ro is not False and has_effect(F, node) and \
                    node.kind != 'precond':
                return Violation('%s has an effect before it has established '
                                 'that the storage is not read-only' % name)
            return st2

        def at(node, st, g=g, flags=flags, name=name):
            if node.id == g.exit_return and flags.value(st, 'ro') is not False:
                return Violation('%s can return normally on a read-only '
                                 'storage' % name)
            return st

        vs, stats = explore(g, frozenset(), at=at, edge=edge)
        R.count(stats)
        for v in vs:
            R.violation(v.node if v.node.id != g.exit_return else (
                f.module.relpath, f.qualname, 'read-only check'),
                v.message, g, v.path)


@rule('C09.R3', 'no failure while validating the saved index escapes: an '
      'index that cannot be checked is rejected, the open goes on with a '
      'full scan', props=['C04'], min_instances=2)
def r3(R):
    cls = R.prog.cls(FS)
    f = R.method(cls, '_restore_index')
    g, b, F = R.cfg(f, cls, max_depth=4)
    reach = g.reachable()
    checked = 0
    culprits = {}
    for nid in sorted(reach):
        node = g.nodes[nid]
        in_validation = any(fr.func.name in ('_sane', '_check_sanity', 'load')
                            for fr in node.frame.chain())
        is_load_call = any(op.kind == 'call' and op.path and
                           op.path[-1] == 'load' and not op.inlined
                           for op in F.ops(node))
        if not (in_validation or is_load_call):
            continue
        if not any(lab == 'e' for t, lab in node.succ):
            continue
        checked += 1
        # does the unwinding from this node reach the exceptional exit?
        seen = set()
        stack = [t for t, lab in node.succ if lab == 'e']
        hit = False
        while stack:
            i = stack.pop()
            if i == g.exit_raise:
                hit = True
                break
            if i in seen:
                continue
            seen.add(i)
            nd = g.nodes[i]
            if nd.kind in ('rel', 'reraise', 'withexit'):
                stack.extend(t for t, lab in nd.succ)
            elif nd.kind == 'raise' and nd.ast.exc is None:
                stack.extend(t for t, lab in nd.succ)
        if hit:
            fr = node.frame
            while fr.parent is not None and fr.parent.parent is not None:
                fr = fr.parent
            key = fr.call_stmt if fr.parent is not None else node.ast
            culprits.setdefault(id(key), (node, []))[1].append(node)
    R.instance('FileStorage._restore_index', fallible_validation_steps=checked)
    R.instance('validation frames', frames=sorted({
        fr.func.short for n in (g.nodes[i] for i in reach)
        for fr in n.frame.chain()}))
    R.require(checked >= 8, 'only %d fallible validation steps found' % checked)
    for node, alln in culprits.values():
        R.violation(node, 'a failure while checking the saved index against '
                    'the data file (%d fallible step(s), e.g. `%s` in %s) '
                    'propagates out of the open instead of rejecting the '
                    'index: a stale or undecodable index makes the database '
                    'impossible to open although the data file is intact' % (
                        len(alln), node.text(50), node.frame.func.short),
                    at_root=True)


@rule('C09.R4', 'the saved index is used only after the sanity check '
      'accepted it, and the file is always scanned from the saved position',
      min_instances=2)
def r4(R):
    cls = R.prog.cls(FS)
    f = R.method(cls, '_restore_index')
    g, b, F = R.cfg(f, cls, max_depth=0)
    R.instance('FileStorage._restore_index result')
    sane_vars = set()
    for n in walk_local(f.node):
        if isinstance(n, ast.Assign) and isinstance(n.value, ast.Call) and \
                dotted(n.value.func) in (('self', '_sane'),
                                         ('self', '_check_sanity')) and \
                isinstance(n.targets[0], ast.Name):
            sane_vars.add(n.targets[0].id)
    if not sane_vars:
        R.violation((f.module.relpath, f.qualname, 'sanity check'),
                    '_restore_index no longer checks the saved index against '
                    'the data file')
    else:
        def edge(node, st, lab, tgt):
            if node.kind == 'test' and lab in ('T', 'F'):
                for e, truth in implied_atoms(node.ast, lab):
                    if isinstance(e, ast.Name) and e.id in sane_vars:
                        return 'ok' if truth else 'bad'
            if node.kind == 'stmt' and isinstance(node.ast, ast.Assign) and \
                    isinstance(node.ast.targets[0], ast.Name) and \
                    node.ast.targets[0].id in sane_vars and lab != 'e':
                return 'unchecked'
            return st

        def at(node, st):
            if node.kind == 'return' and node.frame.parent is None and \
                    isinstance(node.ast.value, ast.Tuple) and st != 'ok':
                return Violation(
                    'the saved index is returned for use although the sanity '
                    'check did not accept it (state: %s): a stale index '
                    'silently hides or invents transactions' % st)
            return st

        vs, stats = explore(g, 'none', at=at, edge=edge)
        R.count(stats)
        for v in vs:
            R.violation(v.node, v.message, g, v.path)
    # __init__: read_index is called on both branches, from the saved position
    f2 = R.method(cls, '__init__')
    calls = [n for n in walk_local(f2.node) if isinstance(n, ast.Call) and
             dotted(n.func) == ('read_index',)]
    R.instance('FileStorage.__init__ read_index calls', n=len(calls))
    g2, b2, F2 = R.cfg(f2, cls, max_depth=0)

    def edge2(node, st, lab, tgt):
        if lab == 'e':
            return st
        for op in F2.ops(node):
            if op.kind == 'call' and op.path and op.path[-1].endswith(
                    'read_index'):
                return True
        return st

    def at2(node, st):
        if node.id == g2.exit_return and not st:
            return Violation('the constructor can complete without scanning '
                             'the data file')
        return st

    vs2, stats2 = explore(g2, False, at=at2, edge=edge2)
    R.count(stats2)
    for v in vs2:
        R.violation((f2.module.relpath, f2.qualname, 'read_index'),
                    v.message, g2, v.path)
    with_start = [c for c in calls if any(kw.arg == 'start'
                                          for kw in c.keywords)]
    if calls and not with_start:
        R.violation((f2.module.relpath, f2.qualname, 'read_index start'),
                    'the scan after an accepted index does not start at the '
                    'position saved with the index')
    for c in with_start:
        kw = [k for k in c.keywords if k.arg == 'start'][0]
        pv = provenance(kw.value, g2.root, F2)
        if not prov_has(pv, 'call', lambda p: p[-1] == '_restore_index'):
            R.violation((f2.module.relpath, f2.qualname,
                         'read_index start', c.lineno),
                        'the scan start does not derive from the saved index '
                        'position')


@rule('C09.R6', 'the last transaction id reported by the sanity check is '
      'that of the transaction at the saved position, not of one found while '
      'walking back', props=['C04'], min_instances=1)
def r6(R):
    cls = R.prog.cls(FS)
    f = R.method(cls, '_check_sanity')
    g, b, F = R.cfg(f, cls, max_depth=0)
    # the variable returned as the tid
    rv = set()
    for x in walk_local(f.node):
        if isinstance(x, ast.Return) and isinstance(x.value, ast.Name):
            rv.add(x.value.id)
    tidvars = set()
    for x in walk_local(f.node):
        if isinstance(x, ast.Assign) and isinstance(x.value, ast.Attribute) \
                and x.value.attr == 'tid' and isinstance(
                    x.targets[0], ast.Name) and x.targets[0].id in rv:
            tidvars.add(x.targets[0].id)
    R.instance('FileStorage._check_sanity', result=sorted(tidvars))
    if not tidvars:
        R.violation((f.module.relpath, f.qualname, 'result tid'),
                    'the sanity check no longer returns the tid of the last '
                    'transaction')
        return
    v = sorted(tidvars)[0]

    def edge(node, st, lab, tgt):
        # st: None (unset) | 'set' ; `unset_known`: branch established unset
        val, guard = st
        if node.kind == 'loophead' and node.ast in f.node.body:
            if val == 'unset-in-loop':
                return Violation(
                    'the sanity check can go round its loop (skipping an '
                    'undone or empty transaction) before it has noted the '
                    'tid of the transaction at the saved position: the tid '
                    'it reports is that of an earlier transaction, and the '
                    'storage reopens with a last transaction id older than '
                    'the file\'s')
            if val == 'unset':
                return ('unset-in-loop', False)
        if node.kind == 'test' and lab in ('T', 'F'):
            for e, truth in implied_atoms(node.ast, lab):
                isnone = None
                if isinstance(e, ast.Name) and e.id == v:
                    isnone = not truth
                if isinstance(e, ast.Compare) and isinstance(
                        e.left, ast.Name) and e.left.id == v and isinstance(
                            e.comparators[0], ast.Constant) and \
                        e.comparators[0].value is None and isinstance(
                            e.ops[0], (ast.Is, ast.IsNot)):
                    isnone = isinstance(e.ops[0], ast.Is) == truth
                if isnone is None:
                    continue
                if not isnone and val in ('unset', 'unset-in-loop'):
                    return PRUNE        # it is still None here
                if isnone and val == 'set':
                    return PRUNE        # a tid is never None / falsy
                guard = isnone
        if lab != 'e' and node.kind == 'stmt' and isinstance(
                node.ast, ast.Assign) and any(
                    isinstance(t, ast.Name) and t.id == v
                    for t in node.ast.targets):
            if isinstance(node.ast.value, ast.Constant):
                return ('unset' if val != 'unset-in-loop' else val, False)
            if val == 'unset-in-loop':
                val = 'unset'
            if val == 'set' and not guard:
                return Violation(
                    'the tid reported for the saved index is overwritten '
                    'while the check walks back over undone or empty '
                    'transactions: the storage reopens with a last '
                    'transaction id older than the file\'s, and the next '
                    'commit can get an id that is not later than the last '
                    'one')
            return ('set', False)
        if node.kind == 'loophead':
            return (val, False)
        return (val, guard)

    vs, stats = explore(g, ('unset', False), edge=edge)
    R.count(stats)
    for vv in vs:
        R.violation(vv.node, vv.message, g, vv.path)


@rule('C09.R5', 'the index is written to a temporary name and renamed into '
      'place', min_instances=1)
def r5(R):
    cls = R.prog.cls(FS)
    f = R.method(cls, '_save_index')
    g, b, F = R.cfg(f, cls, max_depth=0)
    R.instance('FileStorage._save_index')
    info = {}

    def edge(node, st, lab, tgt):
        if lab == 'e':
            return st
        for op in F.ops(node):
            if op.kind == 'call' and path_ends(op.path, ('_index', 'save')) \
                    and len(op.ast.args) >= 2:
                info['save'] = ast.dump(op.ast.args[1])
                return 'saved'
            if op.kind == 'call' and op.path in (('@os', 'rename'),
                                                 ('@os', 'replace')) and \
                    len(op.ast.args) == 2:
                info['rename'] = (ast.dump(op.ast.args[0]),
                                  ast.dump(op.ast.args[1]))
                if st != 'saved':
                    return Violation('the index file is renamed into place '
                                     'before it has been written')
                return 'renamed'
        return st

    vs, stats = explore(g, 'none', edge=edge)
    R.count(stats)
    for v in vs:
        R.violation(v.node, v.message, g, v.path)
    if 'save' not in info or 'rename' not in info:
        R.violation((f.module.relpath, f.qualname, 'save then rename'),
                    'the index is not written to a temporary file and '
                    'renamed: a crash while saving leaves a truncated index '
                    'in place of the old one')
    elif info['save'] != info['rename'][0] or \
            info['save'] == info['rename'][1]:
        R.violation((f.module.relpath, f.qualname, 'save then rename'),
                    'the file that is renamed into place is not the one the '
                    'index was just written to')


# ------------------------------------------------------------------ C09.R7
@rule('C09.R7', 'a saved index is tied to the data file it was saved for by '
      'more than file positions (positions coincide again after a pack and '
      'regrowth)', min_instances=1)
def r7(R):
    """What the open reads from the index file, and what the sanity check
    compares with the data file.  Today: the keys 'index' and 'pos', and the
    record positions of the last transaction -- nothing that identifies the
    CONTENT of the data file (such as the id of the transaction the index
    was saved after).  Reported as F30."""
    cls = R.prog.cls(FS)
    f = R.method(cls, '_restore_index')
    keys = set()
    for c in walk_local(f.node):
        if isinstance(c, ast.Call) and isinstance(c.func, ast.Attribute) and \
                c.func.attr == 'get' and c.args and isinstance(
                    c.args[0], ast.Constant) and isinstance(
                        c.args[0].value, str):
            keys.add(c.args[0].value)
        if isinstance(c, ast.Subscript) and isinstance(
                c.slice, ast.Constant) and isinstance(c.slice.value, str) \
                and isinstance(c.ctx, ast.Load):
            keys.add(c.slice.value)
    R.instance('FileStorage._restore_index', keys_read=sorted(keys))
    R.require({'index', 'pos'} <= keys,
              '_restore_index no longer reads index and pos: %s' % keys)
    cs = R.method(cls, '_check_sanity')
    # a comparison of transaction ids in the sanity check would do as well
    tid_cmp = any(
        isinstance(c, ast.Compare) and any(
            isinstance(x, ast.Attribute) and x.attr == 'tid'
            for x in ast.walk(c)) and any(
                isinstance(x, ast.Name) and x.id in cs.params
                for x in ast.walk(c))
        for c in walk_local(cs.node))
    if keys <= {'index', 'pos'} and not tid_cmp:
        R.violation(
            (f.module.relpath, f.qualname, 'keys read from the index file'),
            'the saved index is accepted when the saved position is a '
            'transaction boundary and the records of the LAST transaction '
            'sit where the index says; nothing identifies the content of '
            'the data file.  An index saved before a pack (a kept copy) is '
            'accepted once the file has grown back to the saved position '
            'with a last transaction of the same shape: every other '
            'position in it is wrong, objects fail to load or load as '
            'other objects', key='saved index identified by positions only')


# ------------------------------------------------------------------ C09.R8
@rule('C09.R8', 'the running index and the open-time scan index the same '
      'transactions: the scan skips transactions with status "u", so finish '
      'does not index a transaction it wrote with that status',
      props=['C17'], min_instances=2)
def r8(R):
    """Sibling agreement (F31) between read_index and _finish_finish."""
    ri = R.prog.func('ZODB.FileStorage.FileStorage.read_index')
    skips = set()
    for x in walk_local(ri.node):
        if isinstance(x, ast.If):
            for atoms, block in if_branches(x):
                for e, t in atoms:
                    if isinstance(e, ast.Compare) and len(e.ops) == 1 and \
                            isinstance(e.ops[0], (ast.Eq, ast.NotEq)) and \
                            isinstance(e.ops[0], ast.Eq) == t and \
                            isinstance(e.comparators[0], ast.Constant) and \
                            isinstance(e.left, ast.Name) and any(
                                isinstance(y, ast.Continue) for b_ in block
                                for y in ast.walk(b_)):
                        skips.add(e.comparators[0].value)
    skips = {s.decode() if isinstance(s, bytes) else s for s in skips
             if isinstance(s, (str, bytes))}
    R.instance('read_index skips status', statuses=sorted(skips))
    if 'u' not in skips:
        R.observe('read_index no longer skips undone transactions; nothing '
                  'to agree on')
        return
    cls = R.prog.cls(FS)
    f = R.method(cls, '_finish_finish')
    g, b, F = R.cfg(f, cls, max_depth=0)
    R.instance('FileStorage._finish_finish index update')
    seen = [0]

    def edge(node, st, lab, tgt):
        if node.kind == 'test' and lab in ('T', 'F'):
            for e, truth in implied_atoms(node.ast, lab):
                if isinstance(e, ast.Compare) and len(e.ops) == 1 and \
                        isinstance(e.ops[0], (ast.Eq, ast.NotEq)) and \
                        isinstance(e.comparators[0], ast.Constant) and \
                        e.comparators[0].value in ('u', b'u'):
                    pv = provenance(e.left, node.frame, F)
                    if ('path', ('self', '_tstatus')) in pv:
                        is_u = isinstance(e.ops[0], ast.Eq) == truth
                        return 'undone' if is_u else 'not-undone'
        return st

    def at(node, st):
        for op in F.ops(node):
            if op.kind == 'call' and path_is(
                    op.path, ('self', '_index', 'update')):
                seen[0] += 1
                if st != 'not-undone':
                    return Violation(
                        'finish enters the records of the transaction into '
                        'the running index without having excluded status '
                        '"u" (an undone transaction of an old source, '
                        'restored with its status): the open-time scan skips '
                        'such transactions, so the running storage and the '
                        'index saved at close show objects that a full scan '
                        'of the same file does not')
        return st

    vs, stats = explore(g, 'unknown', at=at, edge=edge)
    R.count(stats)
    R.require(seen[0] or vs, '_finish_finish no longer updates the index')
    for v in vs:
        R.violation(v.node, v.message, g, v.path)


# ------------------------------------------------------------------ C09.R9
@rule('C09.R9', 'an attribute that caches a bound method of another '
      'attribute\'s value (self._index_get = index.get next to '
      'self._index = index) is re-bound wherever that attribute is replaced',
      props=['C03', 'C04', 'C20'], min_instances=1)
def r9(R):
    n = 0
    for cls in R.prog.all_classes():
        if not cls.module.name.startswith('ZODB.') or \
                '.tests' in cls.module.name:
            continue
        # (holder attribute, caching attribute, method name) pairs, found
        # where both are bound from one value in one function
        pairs = {}
        stores = {}       # attr -> [(function, ast stmt)]
        for f in cls.methods.values():
            local_stores = {}
            for s in walk_local(f.node):
                if not isinstance(s, (ast.Assign, ast.AugAssign,
                                      ast.AnnAssign)):
                    continue
                tgts = s.targets if isinstance(s, ast.Assign) else [s.target]
                flat = []
                for t in tgts:
                    flat.extend(t.elts if isinstance(
                        t, (ast.Tuple, ast.List)) else [t])
                for t in flat:
                    if isinstance(t, ast.Starred):
                        t = t.value
                    if isinstance(t, ast.Attribute) and isinstance(
                            t.value, ast.Name) and t.value.id == 'self':
                        whole = isinstance(s, ast.Assign) and len(
                            flat) == 1
                        local_stores.setdefault(t.attr, []).append(
                            (s, s.value if whole else None))
                        stores.setdefault(t.attr, []).append((f, s))
            for a, lst in local_stores.items():
                for s, v in lst:
                    # self.A = X.m  where some self.B = X in this function
                    if isinstance(v, ast.Attribute) and isinstance(
                            v.value, ast.Name):
                        for bname, blst in local_stores.items():
                            for s2, v2 in blst:
                                if isinstance(v2, ast.Name) and \
                                        v2.id == v.value.id and bname != a:
                                    pairs[(bname, a, v.attr)] = f
        called = {c.func.attr for f in cls.methods.values()
                  for c in walk_local(f.node) if isinstance(c, ast.Call) and
                  isinstance(c.func, ast.Attribute) and isinstance(
                      c.func.value, ast.Name) and c.func.value.id == 'self'}
        for (holder, cache, meth), where in sorted(pairs.items()):
            if cache not in called:
                continue        # a copied value, not a bound method
            n += 1
            R.instance('%s.%s caches %s.%s (bound in %s)' % (
                cls.name, cache, holder, meth, where.name))
            for f, s in stores.get(holder, []):
                ok = False
                for f2, s2 in stores.get(cache, []):
                    if f2 is not f:
                        continue
                    v2 = s2.value if isinstance(s2, ast.Assign) else None
                    if isinstance(v2, ast.Attribute) and v2.attr == meth:
                        base = v2.value
                        sv = s.value if isinstance(s, ast.Assign) and len(
                            s.targets) == 1 and not isinstance(
                                s.targets[0], (ast.Tuple, ast.List)) else None
                        if (sv is not None and ast.dump(base) ==
                                ast.dump(sv)) or (
                                dotted(base) == ('self', holder) and
                                s2.lineno > s.lineno):
                            ok = True
                if not ok:
                    R.violation(
                        (f.module.relpath, f.qualname,
                         ' '.join(ast.unparse(s).split())[:90], s.lineno),
                        '%s replaces self.%s without re-binding self.%s '
                        '(= the old value\'s .%s): lookups through the '
                        'cached method keep answering from the replaced '
                        'object -- store(), restore() and deleteObject() see '
                        'no committed record: a stale write is accepted and '
                        'the previous-revision pointer is lost' % (
                            f.short, holder, cache, meth),
                        key='holder replaced without its cached method')
    R.require(n >= 1, 'no cached bound method found (FileStorage._index_get)')


# ----------------------------------------------------------------- C09.R10
@rule('C09.R10', 'a time-travel open (stop bound) takes a saved index only '
      'after comparing what the index covers with the bound', props=['C15'],
      min_instances=1)
def r10(R):
    cls = R.prog.cls(FS)
    f = R.method(cls, '__init__')
    g, b, F = R.cfg(f, cls, max_depth=0)
    R.require('stop' in f.params, 'FileStorage.__init__ lost its stop bound')
    # locals holding (parts of) the restored index
    restored = set()
    for s in walk_local(f.node):
        if isinstance(s, ast.Assign) and isinstance(s.value, ast.Call) and \
                dotted(s.value.func) == ('self', '_restore_index'):
            for t in s.targets:
                for x in ast.walk(t):
                    if isinstance(x, ast.Name):
                        restored.add(x.id)
    R.require(restored, 'FileStorage.__init__ no longer restores an index')
    seen = [0]

    def edge(node, st, lab, tgt):
        if node.kind == 'test' and lab in ('T', 'F') and st == 'unchecked':
            names = {x.id for x in ast.walk(node.ast)
                     if isinstance(x, ast.Name)}
            if 'stop' in names:
                return 'checked'
        if lab in ('e', 'eb'):
            return st
        for op in F.ops(node):
            if op.kind == 'call' and path_is(op.path,
                                             ('self', '_restore_index')):
                return 'unchecked'
        return st

    def at(node, st):
        for op in F.ops(node):
            if op.kind == 'call' and op.path and \
                    op.path[-1].split('.')[-1] == 'read_index' and any(
                        kw.arg in ('start', 'ltid')
                        for kw in op.ast.keywords):
                seen[0] += 1
                if st == 'unchecked':
                    return Violation(
                        'FileStorage.__init__ continues from a saved index '
                        'without having compared it with the stop bound: a '
                        'time-travel open shows the transactions at and '
                        'after `stop` whenever an index file exists, and '
                        'stops where it should when it does not')
        return st

    vs, stats = explore(g, None, at=at, edge=edge)
    R.count(stats)
    R.instance('FileStorage.__init__', restored=sorted(restored))
    R.require(seen[0] or vs, 'the index-based scan vanished from __init__')
    for v in vs:
        R.violation(v.node, v.message, g, v.path)


# ----------------------------------------------------------------- C09.R11
@rule('C09.R11', 'a read-write open takes the lock file before it opens any '
      'other file of the database for writing (a second opener that is then '
      'refused must not have touched the files of the running storage)',
      props=['C01', 'C05'], min_instances=1)
def r11(R):
    cls = R.prog.cls(FS)
    f = R.method(cls, '__init__')
    g, b, F = R.cfg(f, cls, max_depth=5,
                    inline=lambda t, fr: t.func.name not in (
                        'getPathForOID',))
    flags = Flags(F, ro_key(F))
    locks = [0]

    def edge(node, st, lab, tgt):
        fl, locked = st
        fl = flags.learn(node, fl, lab)
        if fl is PRUNE:
            return PRUNE
        fl = flags.assign(node, fl, lab)
        if lab not in ('e', 'eb') and any(
                'LockFile' in m for m in mutations(F, node, flags, fl)):
            locked = True
        return (fl, locked)

    def at(node, st):
        fl, locked = st
        ms = mutations(F, node, flags, fl)
        if any('LockFile' in m for m in ms):
            locks[0] += 1
        others = [m for m in ms if 'LockFile' not in m]
        if others and not locked and flags.value(fl, 'ro') is not True:
            return Violation(
                'FileStorage.__init__ performs %s before it has taken the '
                'lock file: a second process that opens the same database '
                'is refused (LockError) only after it has truncated or '
                'replaced a file the running storage is using -- the '
                'transaction buffer of a commit in flight is emptied, the '
                'commit writes zeros and still returns' % '; '.join(others))
        return st

    vs, stats = explore(g, (frozenset(), False), at=at, edge=edge)
    R.count(stats)
    R.instance('FileStorage.__init__', lock_sites=locks[0])
    R.require(locks[0] >= 1 or vs, 'FileStorage.__init__ no longer creates '
              'the lock file')
    for v in vs[:1]:
        R.violation(v.node, v.message, g, v.path, at_root=True)


# ------------------------------------------------------------------ C09.R12
@rule('C09.R12', 'the packer enters EVERY data record it writes to the packed '
      'file in the index it saves with it, as the open-time scan would: also '
      'a record without data (an un-creation)', props=['C07', 'C08'],
      min_instances=2)
def r12(R):
    """Sibling agreement with read_index, which indexes every data record of
    every transaction it accepts.  Path rule over each packer function that
    writes a data-record header: on every normal path on which the header is
    written, the record's id is also stored in an index of the packer."""
    n = 0
    for cq in ('ZODB.FileStorage.fspack.FileStoragePacker',
               'ZODB.FileStorage.fspack.PackCopier'):
        cls = R.prog.cls(cq)
        for name, f in sorted(cls.methods.items()):
            # headers of DATA records written by this function: `X.asString()`
            # with X built by DataHeader(...) or X.oid read here
            hdrs = set()
            for a in walk_local(f.node):
                if isinstance(a, ast.Assign) and isinstance(
                        a.value, ast.Call) and dotted(a.value.func) and \
                        dotted(a.value.func)[-1] == 'DataHeader':
                    hdrs |= {t.id for t in a.targets
                             if isinstance(t, ast.Name)}
                if isinstance(a, ast.Attribute) and a.attr == 'oid' and \
                        isinstance(a.value, ast.Name):
                    hdrs.add(a.value.id)

            def writes_header(node_ast):
                for c in ast.walk(node_ast):
                    if isinstance(c, ast.Call) and isinstance(
                            c.func, ast.Attribute) and \
                            c.func.attr == 'write' and c.args and isinstance(
                                c.args[0], ast.Call) and isinstance(
                                    c.args[0].func, ast.Attribute) and \
                            c.args[0].func.attr == 'asString' and isinstance(
                                c.args[0].func.value, ast.Name) and \
                            c.args[0].func.value.id in hdrs:
                        return True
                return False

            if not any(writes_header(s) for s in walk_local(f.node)
                       if isinstance(s, ast.Expr)):
                continue
            g, b, F = R.cfg(f, cls, max_depth=0)
            n += 1
            R.instance('%s.%s writes a data-record header' % (cls.name, name))

            def edge(node, st, lab, tgt, F=F):
                wrote, indexed = st
                if lab in ('e', 'eb'):
                    return st
                for op in F.ops(node):
                    if op.kind == 'setitem' and op.path is not None and \
                            op.path[0] == 'self' and \
                            'index' in op.path[-1].lower():
                        indexed = True
                    if op.kind == 'call' and isinstance(
                            op.stmt, ast.Expr) and writes_header(op.stmt):
                        wrote = True
                return (wrote, indexed)

            def at(node, st, name=name, cls=cls):
                if node.id == g.exit_return and st[0] and not st[1]:
                    return Violation(
                        '%s.%s can write a data record to the packed file '
                        'without entering it in the index: the index saved '
                        'with the packed file then differs from a scan of '
                        'that file (length, key set, and the id of the '
                        'skipped object is issued again by new_oid())' % (
                            cls.name, name))
                return st

            vs, stats = explore(g, (False, False), at=at, edge=edge)
            R.count(stats)
            for v in vs[:1]:
                R.violation(v.node, v.message, g, v.path, at_root=True,
                            key='data record written but not indexed')
    R.require(n >= 2, 'expected writePackedDataRecord and PackCopier.copy to '
              'write data-record headers; found %d' % n)


# ------------------------------------------------------------------ C09.R13
@rule('C09.R13', 'an index file that carries no transaction id (repozo saves '
      'such files; so did older versions) is still judged by the sanity '
      'check alone: the id comparison rejects an index only when the file '
      'HAS an id', props=['C18'], min_instances=1)
def r13(R):
    cls = R.prog.cls(FS)
    f = R.method(cls, '_restore_index')
    g, b, F = R.cfg(f, cls, max_depth=0)
    seen = [0]

    def saved_tid(e, node):
        """`info.get('tid')` / `info['tid']`, directly or through a local"""
        from ..twopc import resolve_local
        e = resolve_local(e, F, node.frame)
        if isinstance(e, ast.IfExp):      # info['tid'] if 'tid' in info ...
            return saved_tid(e.body, node) or saved_tid(e.orelse, node)
        if isinstance(e, ast.Call) and isinstance(e.func, ast.Attribute) and \
                e.func.attr == 'get' and e.args and isinstance(
                    e.args[0], ast.Constant) and e.args[0].value == 'tid':
            return True
        return isinstance(e, ast.Subscript) and isinstance(
            e.slice, ast.Constant) and e.slice.value == 'tid'

    def edge(node, st, lab, tgt):
        if node.kind == 'test' and lab in ('T', 'F'):
            for e, truth in implied_atoms(node.ast, lab):
                if isinstance(e, ast.Compare) and len(e.ops) == 1 and \
                        isinstance(e.comparators[0], ast.Constant) and \
                        e.comparators[0].value is None and \
                        saved_tid(e.left, node) and \
                        isinstance(e.ops[0], ast.IsNot) == truth:
                    return True
                if saved_tid(e, node) and truth:
                    return True
                if isinstance(e, ast.Compare) and len(e.ops) == 1 and \
                        isinstance(e.ops[0], (ast.In, ast.NotIn)) and \
                        isinstance(e.left, ast.Constant) and \
                        e.left.value == 'tid' and \
                        isinstance(e.ops[0], ast.In) == truth:
                    return True
                # the comparison itself, taken as "differs"
                if not st and isinstance(e, ast.Compare) and \
                        len(e.ops) == 1 and isinstance(
                            e.ops[0], (ast.NotEq, ast.Eq)) and (
                            saved_tid(e.left, node) or
                            saved_tid(e.comparators[0], node)) and \
                        isinstance(e.ops[0], ast.NotEq) == truth:
                    return 'rejects-without-id'
        return st

    def at(node, st):
        if node.kind == 'test':
            for c in ast.walk(node.ast):
                if isinstance(c, ast.Compare) and len(c.ops) == 1 and \
                        isinstance(c.ops[0], (ast.NotEq, ast.Eq)) and (
                            saved_tid(c.left, node) or
                            saved_tid(c.comparators[0], node)):
                    seen[0] += 1
        if st == 'rejects-without-id':
            return Violation(
                '_restore_index holds the id saved in the index file '
                'against the data file without having established that '
                'the file HAS one: an index without id -- every index '
                'repozo saves next to a backup, every index of an older '
                'version -- differs from any id and is thrown away; the '
                'recovered database is opened by a full scan, "together '
                'with a usable index" is gone (a log line is the only '
                'symptom)')
        return st

    vs, stats = explore(g, False, at=at, edge=edge)
    R.count(stats)
    R.instance('FileStorage._restore_index', id_comparisons=seen[0])
    R.require(seen[0] >= 1 or vs, '_restore_index no longer compares the '
              'saved transaction id')
    for v in vs[:1]:
        R.violation(v.node, v.message, g, v.path,
                    key='index without id rejected by the id comparison')


# ----------------------------------------------------------------- C09.R14
@rule('C09.R14', 'the saved index is taken for a time-travel open exactly '
      'when the scan would have gone that far: the test that discards the '
      'index and the test that ends the scan put a transaction whose id '
      'EQUALS the bound on the same side (sibling agreement)',
      props=['C15'], min_instances=2)
def r14(R):
    from ..flow import boundary_classes
    cls = R.prog.cls(FS)
    init = R.method(cls, '__init__')
    scan = [f for f in R.prog.all_functions()
            if f.name == 'read_index' and f.cls is None and
            f.module is init.module]
    R.require(scan, 'read_index not found next to FileStorage')
    a = boundary_classes(init.node, 'stop')
    b_ = boundary_classes(scan[0].node, 'stop')
    R.require(a, 'FileStorage.__init__ no longer compares the saved index '
              'with the stop bound')
    R.require(b_, 'read_index no longer compares a transaction id with the '
              'stop bound')
    for k, c in a:
        R.instance('FileStorage.__init__: `%s` (%s)' % (ast.unparse(c), k))
    for k, c in b_:
        R.instance('read_index: `%s` (%s)' % (ast.unparse(c), k))
    ka, kb = {k for k, c in a}, {k for k, c in b_}
    if ka != kb or len(ka) != 1:
        c = a[0][1]
        R.violation(
            (init.module.relpath, init.qualname,
             ' '.join(ast.unparse(c).split()), c.lineno),
            'the open decides about the saved index with a test that treats '
            'a transaction id equal to the stop bound as %s, the scan of '
            'read_index treats it as %s: with an index saved exactly at the '
            'bound the open answers differently with and without the index '
            'file (last transaction, size, object states)' % (
                '/'.join(sorted(ka)), '/'.join(sorted(kb))),
            key='index test and scan disagree about id == stop')
