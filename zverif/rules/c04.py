"""C04 -- the storage answers every revision query from the committed
history (narrow structural claim)."""

import ast
import struct

from .. import AnalysisError
from ..engine import rule
from ..flow import PRUNE, Violation, explore, implied_atoms, path_ends, \
    path_is, prov_has, provenance, store_value, strip_not
from ..locks import POOL_WRITE, explore_locksets
from ..model import ClassInfo, External, FunctionInfo, dotted, mangle, \
    walk_local
from ..tables import const_value, struct_fields
from ..twopc import BS, DS, FS, MS


def clock_tainted(expr, fr, F):
    pv = provenance(expr, fr, F)
    return prov_has(pv, 'call', lambda p: p == ('@time', 'time'))


def later_than_calls(expr):
    return [c for c in ast.walk(expr) if isinstance(c, ast.Call) and
            isinstance(c.func, ast.Attribute) and c.func.attr == 'laterThan']


TID_GENERATORS = [
    # (class or None, function, sink kind, acceptable basis)
    (BS, 'tpc_begin', 'store:_tid'),
    (None, 'ZODB.utils.newTid', 'return'),
]


@rule('C04.R1', 'a tid derived from the clock is made later than the '
      'previous tid before it is used, and becomes the new basis',
      props=['C02', 'C16'], min_instances=3)
def r1(R):
    for q, fname, sink in TID_GENERATORS:
        if q is not None:
            cls = R.prog.cls(FS)
            f = R.method(cls, fname)
        else:
            cls = None
            f = R.prog.func(fname)
        g, b, F = R.cfg(f, cls, max_depth=0)
        name = f.short
        sinks = [0]

        def edge(node, st, lab, tgt, F=F):
            if lab == 'e' or node.frame.parent is not None:
                return st
            s = node.ast
            if node.kind == 'stmt' and isinstance(s, ast.Assign):
                lt = later_than_calls(s.value)
                if lt:
                    c = lt[0]
                    recv_clock = clock_tainted(c.func.value, node.frame, F)
                    arg = c.args[0] if c.args else None
                    pv = provenance(arg, node.frame, F) if arg is not None \
                        else set()
                    basis = (('path', ('self', '_ts')) in pv or
                             any(k == 'param' for k, v in pv) or
                             prov_has(pv, 'call',
                                      lambda p: p[-1] == 'maxKey'))
                    if recv_clock and basis and not isinstance(
                            arg, ast.Constant):
                        targets = set()
                        for t in s.targets:
                            d = dotted(t)
                            if d:
                                targets.add(d)
                        return ('sanitized', frozenset(targets))
                elif any(isinstance(c, ast.Call) and dotted(c.func) == (
                        'time', 'time') for c in ast.walk(s.value)):
                    return ('raw', frozenset())
                elif st[0] == 'sanitized' and dotted(s.value) in st[1]:
                    more = {dotted(t) for t in s.targets if dotted(t)}
                    return ('sanitized', frozenset(st[1] | more))
            if node.kind == 'test' and lab in ('T', 'F'):
                from ..flow import truth_test
                e, truthy_when_true, none_test = truth_test(node.ast)
                if none_test and isinstance(e, ast.Name) and \
                        e.id in node.frame.func.params and \
                        e.id not in ('tid',):
                    truthy = truthy_when_true if lab == 'T' else \
                        not truthy_when_true
                    if not truthy and st[0] != 'sanitized':
                        # there is no previous tid to be later than
                        return ('sanitized', frozenset({('self', '_ts'),
                                                        ('*',)}))
            return st

        def at(node, st, F=F, sink=sink, name=name, sinks=sinks):
            if node.frame.parent is not None:
                return st
            s = node.ast
            val = None
            if sink == 'store:_tid' and node.kind == 'stmt' and \
                    isinstance(s, ast.Assign) and any(
                        dotted(t) == ('self', '_tid') for t in s.targets):
                val = s.value
            if sink == 'return' and node.kind == 'return' and \
                    s.value is not None:
                val = s.value
            if val is None:
                return st
            if not clock_tainted(val, node.frame, F):
                return st
            sinks[0] += 1
            if st[0] != 'sanitized':
                return Violation(
                    '%s uses a transaction id taken from the clock without '
                    'making it later than the previous one: if the clock '
                    'stalls or steps back, ids repeat or go backwards' % name)
            base = val
            while isinstance(base, (ast.Call, ast.Attribute)) and not (
                    dotted(base) and dotted(base) in st[1]):
                base = base.func if isinstance(base, ast.Call) else base.value
            if not (dotted(base) and dotted(base) in st[1]) and \
                    ('*',) not in st[1]:
                return Violation(
                    '%s sanitizes the clock-derived time stamp but then '
                    'builds the transaction id from `%s`, which is not the '
                    'sanitized value: if the clock steps back, ids go '
                    'backwards' % (name, ast.unparse(val)))
            if sink == 'store:_tid' and ('self', '_ts') not in st[1]:
                return Violation(
                    '%s does not record the sanitized time stamp as the new '
                    'basis (self._ts): the next id is compared with a stale '
                    'one' % name)
            return st

        vs, stats = explore(g, ('none', frozenset()), at=at, edge=edge)
        R.count(stats)
        R.instance(name, sinks=sinks[0])
        R.require(sinks[0] or vs, '%s: no clock-derived tid sink found' % name)
        for v in vs:
            R.violation(v.node, v.message, g, v.path)
    # MappingStorage: the basis handed to newTid is the newest transaction
    ms = R.prog.cls(MS)
    f = R.method(ms, 'tpc_begin')
    g, b, F = R.cfg(f, ms, max_depth=0)
    calls = [op for op in F.all_ops() if op.kind == 'call' and op.path and
             op.path[-1].endswith('newTid')]
    R.instance('MappingStorage.tpc_begin', newTid_calls=len(calls))
    R.require(calls, 'MappingStorage.tpc_begin no longer calls newTid')
    for op in calls:
        a = op.ast.args[0] if op.ast.args else None
        pv = provenance(a, op.node.frame, F) if a is not None else set()
        if not prov_has(pv, 'call', lambda p: p[-1] == 'maxKey' and
                        '_transactions' in p):
            R.violation(op.node, 'the basis passed to newTid is not the '
                        'newest committed transaction id')


# ---------------------------------------------------------------- C04.R2

FORMAT_MODULES = ('ZODB.FileStorage.FileStorage', 'ZODB.FileStorage.format',
                  'ZODB.FileStorage.fsdump', 'ZODB.fstools',
                  'ZODB.fsrecover', 'ZODB.scripts.fstest',
                  'ZODB.FileStorage.fspack')
ANCHORED_DECODERS = ('ZODB.FileStorage.FileStorage', 'ZODB.FileStorage.format',
                     'ZODB.FileStorage.fspack', 'ZODB.fsrecover')
LEGACY = {'ZODB.FileStorage.FileStorage.shift_transactions_forward',
          'ZODB.FileStorage.FileStorage.recover'}


def _defs(f):
    out = {}
    for n in walk_local(f.node):
        if isinstance(n, ast.Assign):
            for t in n.targets:
                if isinstance(t, ast.Name):
                    out.setdefault(t.id, []).append(n.value)
    return out


def fmt_value(R, module, e):
    try:
        v = const_value(R.prog, module, e)
    except ValueError:
        return None
    return v if isinstance(v, str) else None


@rule('C04.R2', 'every encoder and decoder of the transaction and data '
      'headers agrees on the struct format, its length and field count',
      props=['C17'], min_instances=14)
def r2(R):
    fm = R.prog.module('ZODB.FileStorage.format')
    canon = {}
    for name in ('TRANS_HDR', 'DATA_HDR'):
        R.require(name in fm.consts, '%s vanished' % name)
        canon[name] = const_value(R.prog, fm, fm.consts[name])
        lname = name + '_LEN'
        R.require(lname in fm.consts, '%s vanished' % lname)
        ln = const_value(R.prog, fm, fm.consts[lname])
        R.instance('%s = %r, %s = %d' % (name, canon[name], lname, ln))
        if struct.calcsize(canon[name]) != ln:
            R.violation((fm.relpath, fm.name, lname),
                        '%s is %d but struct.calcsize(%r) is %d: every reader '
                        'slices headers at the wrong offset' % (
                            lname, ln, canon[name],
                            struct.calcsize(canon[name])))
    sizes = {struct.calcsize(v): (k, v) for k, v in canon.items()}
    n = 0
    for mn in FORMAT_MODULES:
        m = R.prog.module(mn)
        funcs = list(m.functions.values()) + [
            f for c in m.classes.values() for f in c.methods.values()]
        for f in funcs:
            for x in walk_local(f.node):
                call = None
                targets = None
                if isinstance(x, ast.Assign) and isinstance(x.value, ast.Call):
                    call = x.value
                    t = x.targets[0]
                    if isinstance(t, ast.Tuple):
                        targets = t.elts
                elif isinstance(x, ast.Call):
                    call = x
                if call is None or not dotted(call.func):
                    continue
                fn = dotted(call.func)[-1]
                if fn not in ('pack', 'unpack') or not call.args:
                    continue
                if dotted(call.func)[0] not in ('struct', 'pack', 'unpack',
                                                '_structpack',
                                                '_structunpack'):
                    continue
                fmt = fmt_value(R, m, call.args[0])
                if fmt is None:
                    continue
                size = struct.calcsize(fmt)
                if fn == 'unpack' and len(call.args) == 2 and \
                        len(struct_fields(fmt)) >= 5:
                    # the bytes decoded come from a read of a header length
                    src = call.args[1]
                    if isinstance(src, ast.Name):
                        # nearest definition textually before the use
                        before = [d for d in _defs(f).get(src.id, [])
                                  if d.lineno < call.lineno]
                        before.sort(key=lambda d: d.lineno)
                        ds = [before[-1]] if before and isinstance(
                            before[-1], ast.Call) else []
                        for d in ds:
                            fnn = dotted(d.func)
                            if fnn and fnn[-1] == 'read' and d.args:
                                try:
                                    want = const_value(R.prog, m, d.args[0])
                                except ValueError:
                                    want = None
                                if isinstance(want, int) and want != size \
                                        and want in sizes:
                                    n += 1
                                    R.violation(
                                        (m.relpath, f.qualname, ' '.join(
                                            ast.unparse(call).split())[:90],
                                         call.lineno),
                                        'format %r decodes %d bytes but the '
                                        'header read is %d bytes long (%s)' %
                                        (fmt, size, want, sizes[want][0]))
                if size not in sizes or len(struct_fields(fmt)) < 5:
                    continue        # not a header format (">Q", ">II" ...)
                if isinstance(x, ast.Call) and targets is None and any(
                        isinstance(p, ast.Assign) and p.value is x
                        for p in walk_local(f.node)):
                    continue        # handled as Assign
                n += 1
                cname, cfmt = sizes[size]
                fields = struct_fields(fmt)
                R.instance('%s: %s(%s)' % (f.short, fn,
                                           ast.unparse(call.args[0])))
                where = (m.relpath, f.qualname,
                         ' '.join(ast.unparse(call).split())[:90], call.lineno)
                if len(fields) != len(struct_fields(cfmt)):
                    R.violation(where, 'format %r has %d fields, %s (%r) has '
                                '%d' % (fmt, len(fields), cname, cfmt,
                                        len(struct_fields(cfmt))))
                    continue
                if fn == 'pack' and not any(isinstance(a, ast.Starred)
                                            for a in call.args):
                    if len(call.args) - 1 != len(fields):
                        R.violation(where, 'pack(%s) is given %d values for '
                                    '%d fields' % (fmt, len(call.args) - 1,
                                                   len(fields)))
                if fn == 'unpack' and targets is not None:
                    if len(targets) != len(fields):
                        R.violation(where, 'unpack(%s) yields %d values but '
                                    '%d names are bound' % (
                                        fmt, len(fields), len(targets)))
                        continue
                    if mn not in ANCHORED_DECODERS:
                        bad = []
                        for t, (code, off, sz) in zip(targets, fields):
                            if isinstance(t, ast.Name) and code == 'Q' and \
                                    any(isinstance(c, ast.Call) and
                                        dotted(c.func) and
                                        dotted(c.func)[-1] == 'u64' and
                                        c.args and isinstance(
                                            c.args[0], ast.Name) and
                                        c.args[0].id == t.id
                                        for c in walk_local(f.node)):
                                bad.append(t.id)
                        if bad:
                            R.observe('O3: tool code %s applies u64() to %s, '
                                      'which unpack() already returns as '
                                      'integers (outside the anchored storage '
                                      'API; not claimed)' % (f.short,
                                                             ', '.join(bad)))
                        continue
                    if f.qualname in LEGACY:
                        R.observe('O3: legacy %s is not checked for field '
                                  'conversions (reachable from no storage '
                                  'API)' % f.short)
                        continue
                    for t, (code, off, sz), (ccode, _o, _s) in zip(
                            targets, fields, struct_fields(cfmt)):
                        if not isinstance(t, ast.Name):
                            continue
                        uses_u64 = any(
                            isinstance(c, ast.Call) and dotted(c.func) and
                            dotted(c.func)[-1] == 'u64' and c.args and
                            isinstance(c.args[0], ast.Name) and
                            c.args[0].id == t.id
                            for c in walk_local(f.node))
                        if code == 'Q' and uses_u64:
                            R.violation(where, '`%s` is unpacked as an '
                                        'integer (Q) and then passed to '
                                        'u64()' % t.id)
                        if code == '8s' and ccode == 'Q':
                            arith = any(
                                isinstance(c, ast.BinOp) and any(
                                    isinstance(s, ast.Name) and s.id == t.id
                                    for s in (c.left, c.right))
                                for c in walk_local(f.node))
                            if arith:
                                R.violation(where, '`%s` is unpacked as 8 '
                                            'raw bytes and used in '
                                            'arithmetic without u64()' % t.id)
    # constructors fed by *unpack
    for cname, fmtname in (('DataHeader', 'DATA_HDR'),
                           ('TxnHeader', 'TRANS_HDR')):
        c = R.prog.cls('ZODB.FileStorage.format.' + cname)
        init = R.method(c, '__init__')
        n += 1
        R.instance('%s.__init__ arity' % cname,
                   params=len(init.params) - 1)
        if len(init.params) - 1 != len(struct_fields(canon[fmtname])):
            R.violation((fm.relpath, init.qualname, 'arity'),
                        '%s(*unpack(%s)) passes %d values to %d parameters' %
                        (cname, fmtname, len(struct_fields(canon[fmtname])),
                         len(init.params) - 1))
    R.require(n >= 12, 'only %d header pack/unpack sites found' % n)


# ---------------------------------------------------------------- C04.R3

@rule('C04.R3', 'loadBefore returns only revisions strictly before the '
      'bound; loadSerial only the exact revision', props=['C02', 'C15', 'C16'],
      min_instances=3)
def r3(R):
    fs = R.prog.cls(FS)
    # --- FileStorage.loadBefore
    f = R.method(fs, 'loadBefore')
    g, b, F = R.cfg(f, fs, max_depth=0)
    bound = [p for p in f.params if p != 'self'][1]
    tests = []
    for nid in g.reachable():
        node = g.nodes[nid]
        if node.kind == 'test' and isinstance(node.ast, ast.Compare) and \
                len(node.ast.ops) == 1:
            a, c = node.ast.left, node.ast.comparators[0]
            for x, y in ((a, c), (c, a)):
                if isinstance(x, ast.Attribute) and x.attr == 'tid' and \
                        isinstance(y, ast.Name) and y.id == bound:
                    tests.append((node, x is a))
    R.instance('FileStorage.loadBefore', bound_tests=len(tests))
    if not tests:
        R.violation((f.module.relpath, f.qualname, 'bound test'),
                    'loadBefore no longer compares the record tid with the '
                    'bound')
    for node, rec_left in tests:
        op = type(node.ast.ops[0])
        # truth of the test when record tid == bound
        eq_truth = {ast.Lt: False, ast.Gt: False, ast.LtE: True, ast.GtE: True,
                    ast.Eq: True, ast.NotEq: False}.get(op)
        if eq_truth is None:
            R.violation(node, 'unrecognised comparison with the bound')
            continue
        taken = 'T' if eq_truth else 'F'
        start = [t for t, lab in node.succ if lab == taken]

        def edge(nd, st, lab, tgt):
            if lab == 'e':
                return PRUNE
            for o in F.ops(nd):
                if o.kind == 'store' and o.path and o.path[0] == '%local':
                    v = store_value(o)
                    if v is not None and isinstance(v, ast.Attribute) and \
                            v.attr == 'prev':
                        return PRUNE        # moved on to an older record
            return st

        def at(nd, st):
            if nd.kind == 'return' and isinstance(nd.ast.value, ast.Tuple):
                return Violation(
                    'loadBefore accepts a revision whose tid EQUALS the '
                    'bound: a snapshot then includes the transaction it is '
                    'supposed to exclude')
            return st

        for s0 in start:
            vs, stats = explore(g, 0, at=at, edge=edge, start=s0)
            R.count(stats)
            for v in vs:
                R.violation(node, v.message, g, v.path)
    # --- the "object does not exist" error is decided for the accepted
    #     revision only, never for a newer record that is merely walked past
    accept_nodes = {n.id for n, rl in tests}

    def edge_a(nd, st, lab, tgt):
        if nd.id in accept_nodes and lab in ('T', 'F'):
            op = type(nd.ast.ops[0])
            rec_left = [rl for n_, rl in tests if n_.id == nd.id][0]
            lt = (op in (ast.Lt, ast.LtE)) == rec_left
            accepted = (lab == 'T') == lt
            return 'accepted' if accepted else 'older'
        return st

    def at_a(nd, st):
        if nd.kind == 'raise' and nd.frame.parent is None and \
                nd.info.get('raised') and any(
                    'POSKeyError' in x for x in nd.info['raised']) and \
                st != 'accepted':
            return Violation(
                'loadBefore raises POSKeyError while it is still walking '
                'back over records newer than the bound: an un-creation or '
                'deletion record that lies AFTER the requested point makes '
                'the object unloadable for every earlier snapshot')
        return st

    vs_a, stats_a = explore(g, 'start', at=at_a, edge=edge_a)
    R.count(stats_a)
    for v in vs_a:
        R.violation(v.node, v.message, g, v.path)
    # --- FileStorage.loadSerial: equality
    f2 = R.method(fs, 'loadSerial')
    g2, b2, F2 = R.cfg(f2, fs, max_depth=0)
    ser = [p for p in f2.params if p != 'self'][1]
    found = False
    for nid in g2.reachable():
        node = g2.nodes[nid]
        if node.kind == 'test' and isinstance(node.ast, ast.Compare) and \
                len(node.ast.ops) == 1:
            a, c = node.ast.left, node.ast.comparators[0]
            for x, y in ((a, c), (c, a)):
                if isinstance(x, ast.Attribute) and x.attr == 'tid' and \
                        isinstance(y, ast.Name) and y.id == ser and \
                        isinstance(node.ast.ops[0], (ast.Eq, ast.NotEq)):
                    found = True
    R.instance('FileStorage.loadSerial', equality_test=found)
    if not found:
        R.violation((f2.module.relpath, f2.qualname, 'serial test'),
                    'loadSerial does not select the revision by equality of '
                    'its tid with the requested serial')
    # --- MappingStorage.loadBefore
    ms = R.prog.cls(MS)
    f3 = R.method(ms, 'loadBefore')
    g3, b3, F3 = R.cfg(f3, ms, max_depth=0)
    bnd = [p for p in f3.params if p != 'self'][1]
    before_ok = after_ok = None
    for op in F3.all_ops():
        if op.kind == 'call' and op.path and op.path[-1] == 'keys' and \
                len(op.ast.args) == 2:
            lo, hi = op.ast.args
            if isinstance(lo, ast.Constant) and lo.value is None:
                # upper (inclusive) bound must be bound - 1
                ok = False
                defs = b3.local_defs(f3).get(hi.id, []) if isinstance(
                    hi, ast.Name) else [hi]
                for d in defs:
                    if isinstance(d, ast.AST):
                        for x in ast.walk(d):
                            if isinstance(x, ast.BinOp) and isinstance(
                                    x.op, ast.Sub) and isinstance(
                                        x.right, ast.Constant) and \
                                    x.right.value == 1:
                                pv = provenance(x.left, g3.root, F3)
                                if ('param', bnd) in pv:
                                    ok = True
                before_ok = ok
                if not ok:
                    R.violation(op.node, 'the inclusive upper key bound is '
                                'not (bound - 1): a revision whose tid '
                                'equals the bound is returned')
            if isinstance(hi, ast.Constant) and hi.value is None:
                after_ok = isinstance(lo, ast.Name) and lo.id == bnd
                if not after_ok:
                    R.violation(op.node, 'the next-revision lower bound is '
                                'not the bound itself')
    R.instance('MappingStorage.loadBefore', before=before_ok, after=after_ok)
    if before_ok is None:
        R.violation((f3.module.relpath, f3.qualname, 'range query'),
                    'loadBefore no longer selects revisions by a key range')


# ---------------------------------------------------------------- C04.R4

PUBLISHED = {'_pos': True, '_index': True, '_ltid': False, '_tindex': False}
EXEMPT = {'__init__': 'object not yet shared between threads',
          'close': 'terminal', 'cleanup': 'terminal'}


@rule('C04.R4', 'the index, end position, last tid and staging index are '
      'replaced only under the storage lock (position and index also under '
      'the pool\'s writer side)', props=['C02', 'C08'], min_instances=4)
def r4(R):
    cls = R.prog.cls(FS)
    names = set()
    for k in R.prog.mro(cls):
        names |= set(getattr(k, 'methods', {}))
    sites = {}
    for name in sorted(names):
        if name.startswith('_') and name not in ('__init__',):
            continue            # reached through the public entry points
        r = R.prog.find_method(cls, name)
        if r is None or r[0].is_generator or name in EXEMPT:
            continue
        f = r[0]
        g, b, F = R.cfg(f, cls, max_depth=5)

        def check(node, held, F=F, name=name):
            for op in F.ops(node):
                if op.kind == 'store' and op.path and op.path[0] == 'self' \
                        and len(op.path) == 2 and op.path[1] in PUBLISHED:
                    key = (node.frame.func.qualname, op.path[1],
                           node.text(50))
                    sites.setdefault(key, set()).add(name)
                    if ('self', '_lock') not in held:
                        return ('self.%s is replaced (entry point %s) '
                                'without the storage lock: a concurrent load '
                                'can see the new value of one field with the '
                                'old value of another' % (op.path[1], name))
                    if PUBLISHED[op.path[1]] and POOL_WRITE not in held:
                        return ('self.%s is replaced (entry point %s) '
                                'outside the file pool\'s writer side: '
                                'lock-free readers use the index and position '
                                'while they change' % (op.path[1], name))
            return None

        vs, stats = explore_locksets(g, F, check)
        R.count(stats)
        for v in vs:
            R.violation(v.node, v.message, g, v.path)
    for key, eps in sorted(sites.items()):
        R.instance('%s writes %s' % (key[0].split('.')[-1], key[1]),
                   stmt=key[2], entry_points=sorted(eps))
    for k, why in EXEMPT.items():
        R.named_exception('FileStorage.' + k, why)


# ---------------------------------------------------------------- C04.R5

@rule('C04.R5', 'reopening restores end position, last tid and clock basis '
      'from the scan of the file', min_instances=3)
def r5(R):
    cls = R.prog.cls(FS)
    f = R.method(cls, '__init__')
    g, b, F = R.cfg(f, cls, max_depth=0)
    for attr in ('_pos', '_ltid', '_ts'):
        ops = [op for op in F.all_ops() if op.kind == 'store' and
               op.path == ('self', attr) and op.node.frame.parent is None]
        R.instance('FileStorage.__init__ sets %s' % attr, sites=len(ops))
        if not ops:
            R.violation((f.module.relpath, f.qualname, 'self.' + attr),
                        'the constructor no longer sets self.%s' % attr)
            continue
        for op in ops:
            s = op.stmt
            v = s.value if isinstance(s, ast.Assign) else None
            pv = provenance(v, op.node.frame, F) if v is not None else set()
            if not prov_has(pv, 'call', lambda p: p[-1].endswith(
                    'read_index')):
                R.violation(op.node, 'self.%s does not derive from the scan '
                            'of the data file (read_index) on reopen' % attr)


# ---------------------------------------------------------------- C04.R6

CONDITIONAL_ATTRS_OK = {
    (FS, '_tfmt'): 'exists only for writable storages; its only reader '
                   '(_undoDataInfo) is reached from undo, which refuses '
                   'read-only storages first (C09.R2)',
}

CONCRETE = [
    FS, 'ZODB.FileStorage.FileStorage.FileIterator',
    'ZODB.FileStorage.FileStorage.TransactionRecordIterator',
    'ZODB.FileStorage.FileStorage.UndoSearch',
    'ZODB.FileStorage.FileStorage.FilePool',
    'ZODB.FileStorage.FileStorage.TempFormatter',
    'ZODB.FileStorage.fspack.FileStoragePacker',
    'ZODB.FileStorage.fspack.GC',
    'ZODB.FileStorage.fspack.PackCopier',
    MS, DS, 'ZODB.fsIndex.fsIndex', 'ZODB.Connection.TmpStore',
    'ZODB.blob.FilesystemHelper',
]


def setattr_names(R, cls):
    """Names installed with setattr(self, <literal>, ...) loops."""
    out = set()
    for k in R.prog.mro(cls):
        for f in getattr(k, 'methods', {}).values():
            for n in walk_local(f.node):
                if isinstance(n, ast.For) and isinstance(
                        n.iter, (ast.Tuple, ast.List)) and any(
                            isinstance(c, ast.Call) and isinstance(
                                c.func, ast.Name) and c.func.id == 'setattr'
                            for c in ast.walk(n)):
                    out |= {e.value for e in n.iter.elts
                            if isinstance(e, ast.Constant)}
                if isinstance(n, ast.Call) and isinstance(n.func, ast.Name) \
                        and n.func.id == 'setattr' and len(n.args) == 3 and \
                        isinstance(n.args[1], ast.Constant):
                    out.add(n.args[1].value)
    return out


@rule('C04.R6', 'every attribute and helper the query classes use on '
      'themselves exists', props=['C17', 'C16', 'C07'], min_instances=10)
def r6(R):
    for q in CONCRETE:
        cls = R.prog.cls(q)
        mro = R.prog.mro(cls)
        if any(isinstance(k, External) and k.qualname not in ('object',)
               for k in mro):
            R.observe('%s has a base outside the repository; skipped' %
                      cls.name)
            continue
        if any('__getattr__' in getattr(k, 'methods', {}) for k in mro):
            continue
        facts = R.prog.self_attr_facts(cls)
        known = set(facts) | setattr_names(R, cls)
        for k in mro:
            known |= set(k.methods) | set(k.attrs) | set(k.monkey)
            slots = k.attrs.get('__slots__')
            if isinstance(slots, (ast.Tuple, ast.List)):
                known |= {e.value for e in slots.elts
                          if isinstance(e, ast.Constant)}
        known |= {'__class__', '__dict__', '__name__', '__doc__',
                  '__module__'}
        # methods reachable from the class's own body
        reach = {}
        todo = [f for f in cls.methods.values()]
        while todo:
            f = todo.pop()
            if f.qualname in reach:
                continue
            reach[f.qualname] = f
            if f.params[:1] != ['self']:
                continue
            for n in walk_local(f.node):
                if isinstance(n, ast.Attribute) and isinstance(
                        n.value, ast.Name) and n.value.id == 'self':
                    r = R.prog.find_method(cls, mangle(f.cls, n.attr))
                    if r is not None and r[0].qualname not in reach:
                        todo.append(r[0])
        used = 0
        for f in reach.values():
            if f.params[:1] != ['self'] or f.is_static:
                continue
            for n in walk_local(f.node):
                if isinstance(n, ast.Attribute) and isinstance(
                        n.value, ast.Name) and n.value.id == 'self' and \
                        isinstance(n.ctx, ast.Load):
                    used += 1
                    a = mangle(f.cls, n.attr)
                    if a not in known:
                        R.violation((f.module.relpath, f.qualname,
                                     'self.' + n.attr, n.lineno),
                                    '%s uses self.%s, which no class of its '
                                    'hierarchy defines or assigns: the path '
                                    'that reaches it fails with '
                                    'AttributeError' % (f.short, n.attr))
        R.instance(cls.name, methods=len(reach), self_attribute_uses=used)
        # attributes assigned only on some paths of the constructor, with no
        # class-level default, that other methods read unconditionally
        init = R.prog.find_method(cls, '__init__')
        if init is None:
            continue
        gi, bi, Fi = R.cfg(init[0], cls, max_depth=1)
        init_attrs = {}
        for a, fl in facts.items():
            fns = {fx.name for kind, pl, fx, nn in fl}
            if fns == {'__init__'}:
                init_attrs[a] = fl
        has_default = set()
        for k in mro:
            has_default |= set(k.attrs) | set(k.methods) | set(k.monkey)
        for a in sorted(init_attrs):
            if a in has_default:
                continue
            if (cls.qualname, a) in CONDITIONAL_ATTRS_OK:
                R.named_exception('%s.%s' % (cls.name, a),
                                  CONDITIONAL_ATTRS_OK[(cls.qualname, a)])
                continue
            # read somewhere outside __init__ without hasattr/getattr
            readers = []
            for fx in reach.values():
                if fx.name == '__init__' or fx.params[:1] != ['self']:
                    continue
                for n in walk_local(fx.node):
                    if isinstance(n, ast.Attribute) and isinstance(
                            n.value, ast.Name) and n.value.id == 'self' and \
                            isinstance(n.ctx, ast.Load) and \
                            mangle(fx.cls, n.attr) == a:
                        src = ast.unparse(fx.node)
                        if "hasattr(self, '%s')" % n.attr in src or \
                                "getattr(self, '%s'" % n.attr in src:
                            continue        # the reader asks first
                        readers.append((fx, n))
            if not readers:
                continue

            def edge(node, st, lab, tgt, a=a):
                if lab != 'e':
                    for op in Fi.ops(node):
                        if op.kind in ('store',) and op.path == ('self', a):
                            return True
                return st

            hit = []

            def at(node, st, hit=hit):
                if node.id == gi.exit_return and not st:
                    hit.append(1)
                return st

            from ..flow import explore as _ex
            _ex(gi, False, at=at, edge=edge)
            if hit:
                fx, n = readers[0]
                R.violation((fx.module.relpath, fx.qualname,
                             'self.' + a + ' (set on some constructor paths '
                             'only)', n.lineno),
                            '%s reads self.%s, which the constructor assigns '
                            'on some paths only (and no class-level default '
                            'exists): for objects built the other way the '
                            'method fails with AttributeError' % (
                                fx.short, a))


@rule('C04.R7', 'every record a file storage stages links back to the '
      'object\'s current record (prev pointer from the index) and to the '
      'transaction being written (position from the committed end)',
      props=['C06', 'C17', 'C07', 'C01', 'C15'], min_instances=4)
def r7(R):
    cls = R.prog.cls(FS)
    dh = R.prog.cls('ZODB.FileStorage.format.DataHeader')
    init = R.method(dh, '__init__')
    params = init.params[1:]
    R.require('prev' in params and 'tloc' in params,
              'DataHeader.__init__ parameters changed: %s' % params)
    iprev, itloc = params.index('prev'), params.index('tloc')
    n = 0
    copier = R.prog.cls('ZODB.FileStorage.fspack.PackCopier')
    for kls, meth in ((cls, 'store'), (cls, 'deleteObject'), (cls, 'restore'),
                      (cls, '_txn_undo_write'), (copier, 'copy')):
        f = R.method(kls, meth)
        g, b, F = R.cfg(f, kls, max_depth=0)
        for op in F.all_ops():
            if op.kind == 'call' and op.path and op.path[-1].endswith(
                    'DataHeader') and len(op.ast.args) > max(iprev, itloc):
                n += 1
                prev, tloc = op.ast.args[iprev], op.ast.args[itloc]
                R.instance('%s.%s: %s' % (
                    kls.name, meth, ast.unparse(op.ast)[:70]))
                pv = provenance(prev, op.node.frame, F)
                if prov_has(pv, 'path', lambda p: p[-1] == '_tindex' or (
                        kls is copier and p[-1] == 'tindex')) or prov_has(
                        pv, 'call', lambda p: '_tindex' in p):
                    R.violation(op.node, 'the previous-revision pointer of '
                                'the record written by %s.%s can come from '
                                'the index of the transaction being written '
                                '(`%s`): when a transaction holds two records '
                                'of one object (multi-undo) the second points '
                                'at the first instead of the committed '
                                'revision, and history/undo of that '
                                'transaction go wrong' % (
                                    kls.name, meth, ast.unparse(prev)))
                    continue
                from_index = prov_has(pv, 'call', lambda p: p[-1] in (
                    '_index_get',) or p[-2:] == ('_index', 'get')) or \
                    prov_has(pv, 'path', lambda p: p == ('self', '_index'))
                if not from_index:
                    R.violation(op.node, 'the previous-revision pointer of '
                                'the record staged by FileStorage.%s is `%s`, '
                                'which does not come from the index: the '
                                'chain of revisions skips the ones in '
                                'between (loadSerial / loadBefore / history '
                                'lose them)' % (meth, ast.unparse(prev)))
                pt = provenance(tloc, op.node.frame, F)
                if kls is copier:
                    continue        # position handed in by the packer
                extra = sorted(
                    '.'.join(str(x) for x in v) for k, v in pt
                    if (k == 'call') or (k == 'path' and
                                         v != ('self', '_pos')))
                if ('path', ('self', '_pos')) not in pt or extra:
                    R.violation(op.node, 'the transaction pointer of the '
                                'record staged by FileStorage.%s is `%s`, not '
                                'exactly the position the transaction will '
                                'be written at (the committed end `_pos`%s): '
                                'the open-time scan rejects the record, the '
                                'file cannot be reopened after a crash' % (
                                    meth, ast.unparse(tloc),
                                    '; it also depends on ' + ', '.join(extra)
                                    if extra else ''))
    R.require(n >= 4, 'only %d staged record headers found' % n)


# ------------------------------------------------------------------ C04.R8
@rule('C04.R8', 'the transaction id a storage\'s tpc_finish hands back is '
      'read while the commit lock or the storage lock is still held (the '
      'next tpc_begin overwrites it)', props=['C11', 'C02'],
      min_instances=2)
def r8(R):
    from ..locks import held_locks, step_held
    from ..twopc import BS, MS, commit_lock_ops
    n = 0
    for q in (FS, BS, MS):
        cls = R.prog.cls(q)
        if 'tpc_finish' not in cls.methods:
            continue
        f = cls.methods['tpc_finish']
        g, b, F = R.cfg(f, cls, max_depth=1)
        n += 1
        R.instance('%s.tpc_finish' % cls.name)

        def reads_tid(node, F=F):
            a = node.ast
            if a is None or node.kind not in ('stmt', 'return', 'test'):
                return False
            exprs = [a.value] if isinstance(a, (ast.Assign, ast.Return,
                                                ast.Expr)) and \
                getattr(a, 'value', None) is not None else (
                    [a] if node.kind == 'test' else [])
            for e in exprs:
                for x in ast.walk(e):
                    if isinstance(x, ast.Attribute) and isinstance(
                            x.ctx, ast.Load) and dotted(x) and F.canon(
                                x, node.frame) == ('self', '_tid'):
                        return True
            return False

        def edge(node, st, lab, tgt, F=F):
            held, commit = st
            held = step_held(F, node, held, lab)
            for kind, op in commit_lock_ops(F, node):
                commit = (kind == 'acq')
            return (held, commit)

        def at(node, st, F=F):
            held, commit = st
            if node.frame.parent is None and reads_tid(node) and \
                    not commit and ('self', '_lock') not in held_locks(held):
                return Violation(
                    'tpc_finish reads self._tid after the commit lock was '
                    'released and without the storage lock: a thread '
                    'waiting in tpc_begin assigns the next id first, the '
                    'finished transaction reports the other one\'s id, and '
                    'the connection stamps its objects with it (spurious '
                    'conflicts later)')
            return st

        # the commit lock is held on entry (taken by tpc_begin)
        vs, stats = explore(g, (frozenset(), True), at=at, edge=edge)
        R.count(stats)
        for v in vs:
            R.violation(v.node, v.message, g, v.path)
    R.require(n >= 2, 'tpc_finish implementations not found')


# ------------------------------------------------------------------ C04.R9
ITER_CLASSES = ('ZODB.FileStorage.FileStorage.FileIterator',
                'ZODB.FileStorage.FileStorage.TransactionRecordIterator',
                'ZODB.FileStorage.FileStorage.UndoSearch',
                'ZODB.FileStorage.FileStorage.TransactionRecord')


@rule('C04.R9', 'what an iterator over the committed history returns is '
      'bound on every path that reaches the return (definite assignment '
      'of returned locals)', props=['C17'], min_instances=3)
def r9(R):
    n = 0
    for q in ITER_CLASSES:
        cls = R.prog.cls(q)
        for name, f in sorted(cls.methods.items()):
            rets = [r for r in walk_local(f.node) if isinstance(
                r, ast.Return) and r.value is not None]
            names = {x.id for r in rets for x in ast.walk(r.value)
                     if isinstance(x, ast.Name) and isinstance(
                         x.ctx, ast.Load)}
            g, b, F = R.cfg(f, cls, max_depth=0)
            locals_ = set(b.local_defs(f)) - set(f.params)
            tracked = frozenset(names & locals_)
            if not tracked:
                continue
            n += 1
            R.instance('%s.%s returns %s' % (cls.name, name,
                                             ', '.join(sorted(tracked))))

            def edge(node, st, lab, tgt, F=F, tracked=tracked):
                assigned, facts = st
                if node.kind == 'test' and lab in ('T', 'F'):
                    # light path sensitivity: `x == c` / `x != c` facts, so
                    # that `if s != 'u': r = ...` followed by
                    # `if s == 'u': continue` is understood
                    for e, truth in implied_atoms(node.ast, lab):
                        if isinstance(e, ast.Compare) and len(e.ops) == 1 \
                                and isinstance(e.ops[0], (ast.Eq, ast.NotEq)) \
                                and isinstance(e.comparators[0], ast.Constant):
                            key = (ast.unparse(e.left),
                                   repr(e.comparators[0].value))
                            eq = isinstance(e.ops[0], ast.Eq) == truth
                            if (key, not eq) in facts:
                                return PRUNE
                            facts = facts | {(key, eq)}
                if lab in ('e', 'eb'):
                    return (assigned, facts)
                for op in F.ops(node):
                    if op.kind in ('store', 'aug') and op.path and \
                            op.path[0] == '%local':
                        nm = op.path[1]
                        if nm in tracked:
                            assigned = assigned | {nm}
                        facts = frozenset(
                            (k, v) for k, v in facts
                            if not (k[0] == nm or k[0].startswith(nm + '.')))
                return (assigned, facts)

            def at(node, st, tracked=tracked, f=f):
                if node.kind == 'return' and node.frame.parent is None and \
                        node.ast.value is not None:
                    used = {x.id for x in ast.walk(node.ast.value)
                            if isinstance(x, ast.Name)} & tracked
                    missing = used - st[0]
                    if missing:
                        return Violation(
                            '`%s` is returned on a path on which it was '
                            'never assigned (UnboundLocalError at run time): '
                            'for the inputs that take this path -- e.g. a '
                            'transaction with status "u" -- the history '
                            'cannot be iterated or copied at all' %
                            ', '.join(sorted(missing)))
                return st

            vs, stats = explore(g, (frozenset(), frozenset()), at=at,
                                edge=edge)
            R.count(stats)
            for v in vs:
                R.violation(v.node, v.message, g, v.path)
    R.require(n >= 3, 'iterator classes not found')


# ------------------------------------------------------------------ C04.R10
@rule('C04.R10', 'getTid and load agree on whether an object exists: getTid '
      'answers only for a record that holds data or whose backpointer '
      'chain it has walked (the chain may end in an un-creation)',
      props=['C03'], min_instances=1)
def r10(R):
    cls = R.prog.cls(FS)
    f = R.method(cls, 'getTid')
    g, b, F = R.cfg(f, cls, max_depth=0)
    R.instance('FileStorage.getTid')
    seen = [0]

    def edge(node, st, lab, tgt):
        a = node.ast
        if a is not None and node.kind in ('test', 'stmt', 'return') and any(
                isinstance(c, ast.Call) and dotted(c.func) and
                dotted(c.func)[-1].startswith('_loadBack')
                for c in ast.walk(a)):
            return 'walked'
        if node.kind == 'test' and lab in ('T', 'F'):
            for e, truth in implied_atoms(node.ast, lab):
                if isinstance(e, ast.Attribute) and e.attr == 'plen' and \
                        truth:
                    return 'has-data'
                if isinstance(e, ast.Compare) and len(e.ops) == 1 and \
                        isinstance(e.left, ast.Attribute) and \
                        e.left.attr == 'plen' and isinstance(
                            e.comparators[0], ast.Constant) and \
                        e.comparators[0].value == 0:
                    zero = isinstance(e.ops[0], ast.Eq) == truth
                    if not zero and isinstance(e.ops[0], (ast.Eq,
                                                          ast.NotEq)):
                        return 'has-data'
        return st

    def at(node, st):
        if node.kind == 'return' and node.frame.parent is None and \
                node.ast.value is not None:
            seen[0] += 1
            if st not in ('has-data', 'walked'):
                return Violation(
                    'getTid returns a transaction id for a record that '
                    'holds no data without having followed its '
                    'backpointer: for an object whose chain ends in an '
                    'un-creation record (create, undo, redo, undo) getTid '
                    'answers while load raises POSKeyError, so checks built '
                    'on getTid (readCurrent) treat a deleted object as '
                    'current')
        return st

    vs, stats = explore(g, 'unknown', at=at, edge=edge)
    R.count(stats)
    R.require(seen[0] or vs, 'getTid returns nothing')
    for v in vs:
        R.violation(v.node, v.message, g, v.path)


# ------------------------------------------------------------------ C04.R11
@rule('C04.R11', 'the basis of the next transaction id is current: a storage '
      'reads the last id only once it holds the commit lock (it goes stale '
      'while waiting for it), and an id supplied by the caller becomes the '
      'basis at begin, on the same path that adopts it (a finish that a '
      'subclass overrides cannot be relied on)', props=['C17', 'C02', 'C16'],
      min_instances=2)
def r11(R):
    # (a) BaseStorage.tpc_begin: every path that sets _tid has set _ts
    bs = R.prog.cls(BS)
    f = R.method(bs, 'tpc_begin')
    g, b, F = R.cfg(f, bs, max_depth=0)
    R.instance('BaseStorage.tpc_begin')

    def later_test(node, lab):
        """what a test against the present basis says on this branch:
        'later' (the new stamp is later, or there is no basis yet),
        'not-later' (the basis is already at least as late), or None"""
        def one(e, truth):
            if not (isinstance(e, ast.Compare) and len(e.ops) == 1):
                return None
            l, r, op = e.left, e.comparators[0], e.ops[0]
            if dotted(l) == ('self', '_ts') and isinstance(
                    r, ast.Constant) and r.value is None and isinstance(
                        op, (ast.Is, ast.IsNot)):
                return 'later' if isinstance(op, ast.Is) == truth else None
            if isinstance(op, (ast.Gt, ast.GtE, ast.Lt, ast.LtE)):
                if dotted(r) == ('self', '_ts'):
                    new_later = isinstance(op, (ast.Gt, ast.GtE)) == truth
                elif dotted(l) == ('self', '_ts'):
                    new_later = isinstance(op, (ast.Lt, ast.LtE)) == truth
                else:
                    return None
                return 'later' if new_later else 'not-later'
            return None

        out = None
        for e, truth in implied_atoms(node.ast, lab):
            c = one(e, truth)
            if c == 'later':
                out = 'later'
            elif c == 'not-later':
                out = out or 'not-later'
        # a disjunction that holds: whichever disjunct it was
        t, lb = node.ast, lab
        while isinstance(t, ast.UnaryOp) and isinstance(t.op, ast.Not):
            t, lb = t.operand, ('F' if lb == 'T' else 'T')
        if out is None and isinstance(t, ast.BoolOp):
            want = (isinstance(t.op, ast.Or) and lb == 'T') or (
                isinstance(t.op, ast.And) and lb == 'F')
            if want:
                def one_n(v, truth):
                    while isinstance(v, ast.UnaryOp) and isinstance(
                            v.op, ast.Not):
                        v, truth = v.operand, not truth
                    return one(v, truth)
                cs = {one_n(v, lb == 'T') for v in t.values}
                if cs == {'later'}:
                    out = 'later'
        return out

    def edge(node, st0, lab, tgt):
        st, guard = st0
        if node.kind == 'test' and lab in ('T', 'F'):
            lt = later_test(node, lab)
            if lt == 'not-later':
                st = True            # the basis is at least the id already
            if lt is not None:
                guard = lt == 'later'
        if lab in ('e', 'eb'):
            return (st, guard)
        for op in F.ops(node):
            if op.kind == 'store' and path_is(op.path, ('self', '_ts')):
                st = True
        return (st, guard)

    def at(node, st0):
        st, guard = st0
        for op in F.ops(node):
            if op.kind == 'store' and path_is(op.path, ('self', '_ts')):
                v = store_value(op)
                monotone = v is not None and any(
                    isinstance(c, ast.Call) and dotted(c.func) and
                    dotted(c.func)[-1] in ('laterThan', 'max')
                    for c in ast.walk(v))
                pv = provenance(v, node.frame, F) if v is not None \
                    else set()
                if not monotone and any(
                        k_ == 'call' and v_[-1] in ('laterThan', 'max')
                        for k_, v_ in pv):
                    monotone = True      # `t = t.laterThan(...)` first
                if not monotone and v is not None:
                    params = [p_ for p_ in f.params[2:3]]   # the id
                    if params and ('param', params[0]) not in pv:
                        return Violation(
                            'BaseStorage.tpc_begin sets the basis of the '
                            'following ids from `%s`, which is not the id '
                            'the caller supplied (the id of the PREVIOUS '
                            'transaction, say): after transactions copied '
                            'in with ids ahead of the clock the next '
                            'ordinary commit gets an id below them' %
                            ' '.join(ast.unparse(v).split())[:40])
                if not monotone and not guard:
                    return Violation(
                        'BaseStorage.tpc_begin sets the basis of the '
                        'following ids (`%s`) without holding the new value '
                        'against the present one: a begin with an id from '
                        'the past -- aborted, or a copy out of order -- '
                        'moves the basis BACK; when the last committed id '
                        'is ahead of the clock the next ordinary commit '
                        'gets an id below it' %
                        ' '.join(ast.unparse(op.stmt).split())[:50])
            if op.kind == 'store' and path_is(op.path, ('self', '_tid')) \
                    and not st:
                return Violation(
                    'BaseStorage.tpc_begin adopts a transaction id on a path '
                    'that does not make it the basis for the following ids '
                    '(self._ts): after transactions copied in with ids '
                    'ahead of the clock, the next ordinary commit gets an '
                    'id BELOW them (FileStorage has its own tpc_finish: a '
                    'basis set there by the base class is never set)')
        return st0

    vs, stats = explore(g, (False, False), at=at, edge=edge)
    R.count(stats)
    for v in vs[:1]:
        R.violation(v.node, v.message, g, v.path,
                    key='basis of the ids moved back' if 'BACK' in v.message
                    else 'id adopted without becoming the basis')
    # (b) MappingStorage.tpc_begin: the last id is read under the commit lock
    ms = R.prog.cls(MS)
    f2 = R.method(ms, 'tpc_begin')
    g2, b2, F2 = R.cfg(f2, ms, max_depth=0)
    R.instance('MappingStorage.tpc_begin')
    reads = [0]

    def basis_read(node):
        for op in F2.ops(node):
            if op.kind == 'call' and op.path and len(op.path) == 3 and \
                    tuple(op.path[:2]) == ('self', '_transactions') and \
                    op.path[2] in ('maxKey', 'keys'):
                return True
        for x in (ast.walk(node.ast) if node.ast is not None and
                  node.kind in ('stmt', 'test', 'return') else ()):
            if isinstance(x, ast.Attribute) and dotted(x) == ('self',
                                                              '_ltid') \
                    and isinstance(x.ctx, ast.Load):
                return True
        return False

    def edge2(node, st, lab, tgt):
        if lab in ('e', 'eb'):
            return st
        for op in F2.ops(node):
            if op.kind == 'call' and path_is(
                    op.path, ('self', '_commit_lock', 'acquire')):
                st = True
        return st

    def at2(node, st):
        if basis_read(node):
            reads[0] += 1
            if not st:
                return Violation(
                    'MappingStorage.tpc_begin reads the last transaction id '
                    'before it holds the commit lock: the value goes stale '
                    'while it waits for a commit in progress; with a '
                    'stalled clock it then gives the new transaction the '
                    'SAME id as the one it waited for, whose record is '
                    'overwritten at finish')
        return st

    vs, stats = explore(g2, False, at=at2, edge=edge2)
    R.count(stats)
    R.require(reads[0] or vs, 'MappingStorage.tpc_begin no longer reads the '
              'last id')
    for v in vs[:1]:
        R.violation(v.node, v.message, g2, v.path,
                    key='last id read before the commit lock')


# ------------------------------------------------------------------ C04.R12
@rule('C04.R12', 'a record given with its data is replaced by a backpointer '
      'only to a record whose bytes were read and found equal to that data '
      '(or to a record that is itself a backpointer): every implementation '
      'of the backpointer search', props=['C17'], min_instances=2)
def r12(R):
    """`restore` (and the pack copier) write a backpointer instead of the
    data when the hinted transaction holds "the same" record.  If the search
    hands back a position without having compared the bytes, a hint that
    names a record of the same length makes every later load of the
    restored revision answer with the other record's bytes."""
    from ..flow import cmp_sides
    n = 0
    for f in R.prog.all_functions():
        if f.name != '_data_find' or f.cls is None:
            continue
        params = [a.arg for a in f.node.args.args]
        if len(params) < 4:
            continue
        data = params[3]
        g, b, F = R.cfg(f, f.cls, max_depth=0)
        n += 1
        R.instance('%s returns a position only after comparing `%s`'
                   % (f.short, data))

        def edge(node, st, lab, tgt, data=data):
            if st == 'start' and node.kind == 'test' and lab in ('T', 'F'):
                for e, truth in implied_atoms(node.ast, lab):
                    if isinstance(e, ast.Attribute) and e.attr == 'plen' \
                            and not truth:
                        return 'ok'          # itself a backpointer
                    if not isinstance(e, ast.Compare) or len(e.ops) != 1:
                        continue
                    for l, op, r in cmp_sides(e):
                        eq = (op is ast.Eq and truth) or (
                            op is ast.NotEq and not truth)
                        if not eq:
                            continue
                        if isinstance(l, ast.Attribute) and l.attr == 'plen' \
                                and isinstance(r, ast.Constant) and \
                                r.value == 0:
                            return 'ok'      # itself a backpointer
                        if isinstance(l, ast.Name) and l.id == data and \
                                isinstance(r, (ast.Name, ast.Attribute,
                                               ast.Subscript)):
                            return 'ok'      # the bytes were compared
            return st

        def at(node, st, g=g):
            if node.kind == 'return' and st == 'start':
                v = node.ast.value
                if v is not None and not (isinstance(v, ast.Constant) and
                                          not v.value):
                    return Violation(
                        'the backpointer search returns a position without '
                        'having compared the record\'s bytes with the data '
                        'given: a hint naming a record of the same length '
                        'but other bytes turns the restored revision into a '
                        'backpointer to those other bytes, and load, '
                        'loadSerial, loadBefore and the iterator answer '
                        'with them')
            return st

        vs, stats = explore(g, 'start', at=at, edge=edge)
        R.count(stats)
        for v in vs[:1]:
            R.violation(v.node, v.message, g, v.path,
                        key='position returned without comparing the bytes')
    R.require(n >= 2, 'expected FileStorage._data_find and '
              'PackCopier._data_find')
