"""C16 -- a demo storage never modifies its base and reads as
changes-over-base."""

import ast

from ..engine import rule
from ..flow import PRUNE, Violation, explore, implied_atoms, path_ends, \
    path_is, prov_has, provenance
from ..model import dotted, walk_local
from ..twopc import DS, MS

BASE_ALLOWED = {'loadBefore', 'loadSerial', 'loadBlob',
                'openCommittedBlobFile', 'getTid', 'history', 'iterator',
                'lastTransaction', 'getName', 'close', 'cleanup'}
LAYER_SENSITIVE = {'undo', 'store', 'storeBlob', 'restore', 'restoreBlob',
                   'deleteObject', 'load', 'loadBefore', 'loadSerial',
                   'loadBlob', 'openCommittedBlobFile', 'getTid', 'history',
                   'new_oid', 'pack', 'iterator', 'lastTransaction',
                   'tpc_begin', 'tpc_vote', 'tpc_finish', 'tpc_abort',
                   'checkCurrentSerialInTransaction', 'record_iternext',
                   '__len__'}
TWO_PC = ('tpc_begin', 'tpc_vote', 'tpc_finish', 'tpc_abort')


@rule('C16.R1', 'a demo storage only reads from its base', min_instances=10)
def r1(R):
    cls = R.prog.cls(DS)
    n = 0
    for f in cls.methods.values():
        g, b, F = R.cfg(f, cls, max_depth=0)
        for op in F.all_ops():
            if op.kind != 'call' or op.path is None:
                continue
            if op.path[:2] == ('self', 'base') and len(op.path) == 3:
                n += 1
                R.instance('DemoStorage.%s -> base.%s' % (f.name, op.path[2]))
                if op.path[2] not in BASE_ALLOWED:
                    R.violation(op.node, 'the demo storage calls `%s` on its '
                                'base storage: the base must never be '
                                'modified (or drawn into a commit) through a '
                                'demo storage' % op.path[2])
            for i, a in enumerate(op.ast.args):
                if dotted(a) and F.canon(a, op.node.frame) == ('self', 'base'):
                    n += 1
                    R.instance('DemoStorage.%s passes base to %s' % (
                        f.name, op.path[-1]))
                    last = op.path[-1].split('.')[-1]
                    if last not in ('load_current', 'providedBy',
                                    'isinstance', 'hasattr', 'getattr',
                                    'repr', 'id', 'type', 'format'):
                        R.violation(op.node, 'the base storage is handed to '
                                    '`%s`, which may modify it' %
                                    op.path[-1])
        for x in walk_local(f.node):
            if isinstance(x, (ast.Assign, ast.AugAssign, ast.Delete)):
                tg = x.targets if not isinstance(x, ast.AugAssign) else [
                    x.target]
                for t in tg:
                    d = dotted(t) if isinstance(t, ast.Attribute) else None
                    if d and d[:2] == ('self', 'base') and len(d) > 2:
                        R.violation((f.module.relpath, f.qualname,
                                     ' '.join(ast.unparse(x).split()),
                                     x.lineno),
                                    'an attribute of the base storage is '
                                    'assigned')
    R.require(n >= 10, 'only %d uses of the base found' % n)


@rule('C16.R2', 'two-phase commit and stores go to the changes storage',
      min_instances=6)
def r2(R):
    cls = R.prog.cls(DS)
    for meth in TWO_PC + ('store', 'storeBlob'):
        f = R.method(cls, meth)
        f_params = list(f.params)
        g, b, F = R.cfg(f, cls, max_depth=0)
        R.instance('DemoStorage.%s' % meth)

        def edge(node, st, lab, tgt, F=F, meth=meth):
            if lab != 'e':
                for op in F.ops(node):
                    if op.kind == 'call' and path_is(
                            op.path, ('self', 'changes', meth)):
                        return True
            return st

        def at(node, st, g=g, meth=meth, F=F):
            if node.id == g.exit_return and not st:
                # a foreign-transaction tpc_abort returns without delegating
                return Violation('DemoStorage.%s can complete without '
                                 'passing the call on to the changes '
                                 'storage' % meth)
            return st

        vs, stats = explore(g, False, at=at, edge=edge)
        R.count(stats)
        if meth == 'tpc_abort':
            # only the matching-transaction path must delegate
            from ..twopc import identity_guard
            vs = []

            def edge2(node, st, lab, tgt, F=F):
                matched, done = st
                same = identity_guard(node, F)
                if same is not None and lab in ('T', 'F'):
                    return (lab == same, done)
                if lab != 'e':
                    for op in F.ops(node):
                        if op.kind == 'call' and path_is(
                                op.path, ('self', 'changes', 'tpc_abort')):
                            done = True
                return (matched, done)

            def at2(node, st, g=g):
                if node.id == g.exit_return and st[0] is True and not st[1]:
                    return Violation('DemoStorage.tpc_abort does not abort '
                                     'the changes storage')
                return st
            vs, stats = explore(g, (None, False), at=at2, edge=edge2)
            R.count(stats)
        for v in vs:
            R.violation((f.module.relpath, f.qualname, 'delegation'),
                        v.message, g, v.path)


@rule('C16.R3', 'the serial a store is checked against comes from the merged '
      '(changes over base) current revision', props=['C03', 'C10'],
      min_instances=1)
def r3(R):
    cls = R.prog.cls(DS)
    f = R.method(cls, 'store')
    g, b, F = R.cfg(f, cls, max_depth=0)
    lookups = [op for op in F.all_ops() if op.kind == 'call' and op.path and (
        op.path[-1].endswith('load_current') or op.path[-1] in (
            'getTid', 'load', 'loadBefore'))]
    R.instance('DemoStorage.store current-revision lookup', n=len(lookups))
    if not lookups:
        R.violation((f.module.relpath, f.qualname, 'current lookup'),
                    'store no longer looks up the current revision')
    for op in lookups:
        merged = False
        if op.path[-1].endswith('load_current') and op.ast.args and \
                F.canon(op.ast.args[0], op.node.frame) == ('self',):
            merged = True
        if op.path[:1] == ('self',) and len(op.path) == 2:
            merged = True
        if not merged:
            R.violation(op.node, 'the current revision is looked up in one '
                        'layer only (`%s`): a write based on a stale '
                        'revision of an object that lives in the other layer '
                        'is not detected' % ast.unparse(op.ast)[:60])
    # ... and on EVERY path that hands the record to the changes storage
    # (also for a store that claims to create the object: only the lookup
    # notices that the id exists in the base)
    look_nodes = {id(op.node) for op in lookups}

    def edge(node, st, lab, tgt):
        # the lookup counts also when it raises: "not there" is an answer
        if id(node) in look_nodes:
            return True
        return st

    def at(node, st):
        for op in F.ops(node):
            if op.kind == 'call' and path_is(
                    op.path, ('self', 'changes', 'store')) and not st:
                return Violation(
                    'DemoStorage.store hands the record to the changes '
                    'storage on a path that has not looked up the current '
                    'revision in the two layers: the changes storage knows '
                    'nothing of the base -- a store that claims to CREATE '
                    'an object under an id that exists only in the base is '
                    'accepted and shadows the base object, where a single '
                    'database answers with ConflictError')
        return st

    vs, stats = explore(g, False, at=at, edge=edge)
    R.count(stats)
    for v in vs[:1]:
        R.violation(v.node, v.message, g, v.path,
                    key='store delegated without the merged lookup')


def _consults_changes_capability(ds, e, depth=0):
    """the expression asks <Interface>.providedBy(self.changes), directly or
    through a helper method of the class"""
    for x in ast.walk(e):
        if isinstance(x, ast.Call) and isinstance(
                x.func, ast.Attribute) and x.func.attr == 'providedBy' \
                and any(dotted(a) == ('self', 'changes') for a in x.args):
            return True
        if depth < 2 and isinstance(x, ast.Call) and isinstance(
                x.func, ast.Attribute) and isinstance(
                    x.func.value, ast.Name) and \
                x.func.value.id == 'self' and x.func.attr in ds.methods:
            if any(_consults_changes_capability(ds, s_, depth + 1)
                   for s_ in ds.methods[x.func.attr].node.body):
                return True
    return False


@rule('C16.R5', 'loadBefore asks the base only after the changes storage '
      'had no answer; loadSerial answers with exactly the requested '
      'revision', props=['C04', 'C10', 'C15'], min_instances=1)
def r5(R):
    cls = R.prog.cls(DS)
    for meth in ('loadBefore', 'loadSerial', 'getTid', 'loadBlob',
                 'openCommittedBlobFile'):
        f = R.method(cls, meth)
        f_params = list(f.params)
        g, b, F = R.cfg(f, cls, max_depth=0)
        R.instance('DemoStorage.%s' % meth)

        checked = [False]

        def edge(node, st, lab, tgt, F=F, meth=meth, checked=checked,
                 f_params=f_params):
            if meth == 'loadSerial' and node.kind == 'test':
                want = [p_ for p_ in f_params if p_ != 'self']
                for x in ast.walk(node.ast):
                    if isinstance(x, ast.Compare) and len(x.ops) == 1 and \
                            isinstance(x.ops[0], (ast.Eq, ast.NotEq)) and \
                            any(isinstance(y, ast.Name) and y.id == want[1]
                                for y in (x.left, x.comparators[0])):
                        checked[0] = True
            for op in F.ops(node):
                if op.kind == 'call' and path_is(
                        op.path, ('self', 'changes', meth)):
                    return 'miss' if lab == 'e' else 'asked'
            # a changes storage that cannot hold the thing asked for (a
            # blob) is not asked: established by a test of what it provides
            if node.kind == 'test' and st == 'none' and \
                    _consults_changes_capability(cls, node.ast):
                return 'capability-tested'
            return st

        def at(node, st, F=F, meth=meth, f_params=f_params):
            for op in F.ops(node):
                if op.kind == 'call' and op.path and op.path[:2] == (
                        'self', 'base') and st == 'none':
                    return Violation(
                        'DemoStorage.%s asks the base storage before the '
                        'changes storage: a newer revision in the changes '
                        'layer is shadowed by the base' % meth)
                # the base is asked the caller's question: same oid, same
                # bound / serial (not a wider one)
                if op.kind == 'call' and path_is(
                        op.path, ('self', 'base', meth)) and \
                        node.frame.parent is None:
                    want = [p_ for p_ in f_params if p_ != 'self']
                    for i, a_ in enumerate(op.ast.args[:len(want)]):
                        pv = provenance(a_, node.frame, F)
                        srcs = {v for k, v in pv if k == 'param'}
                        other = {v for k, v in pv if k in ('path', 'call')}
                        if srcs != {want[i]} or other or not isinstance(
                                a_, ast.Name):
                            return Violation(
                                'DemoStorage.%s asks the base with `%s` '
                                'where the caller asked with `%s`: the '
                                'answer is for another question (for '
                                'loadBefore: a revision later than the '
                                'requested point)' % (
                                    meth, ast.unparse(a_), want[i]))
            return st

        vs, stats = explore(g, 'none', at=at, edge=edge)
        R.count(stats)
        for v in vs:
            R.violation(v.node, v.message, g, v.path)
        if meth == 'loadSerial':
            # a revision the changes do not have is ALWAYS asked of the
            # base (an exact revision of the base is the same one whatever
            # was packed in the changes): the POSKeyError of the changes
            # never leaves loadSerial without the base having been asked
            def edge_b(node, st, lab, tgt, F=F):
                if node.kind == 'handler' and node.ast.type is not None and \
                        'POSKeyError' in ast.unparse(node.ast.type) and \
                        st == 'start':
                    return 'changes-miss'
                for op in F.ops(node):
                    if op.kind == 'call' and op.path and len(op.path) == 3 \
                            and tuple(op.path[:2]) == ('self', 'base') and \
                            op.path[2] in ('loadSerial', 'loadBefore',
                                           'load'):
                        return 'base-asked'
                return st

            def at_b(node, st):
                if node.id == g.exit_raise and st == 'changes-miss':
                    return Violation(
                        'DemoStorage.loadSerial lets the changes storage\'s '
                        'POSKeyError out without having asked the base: a '
                        'revision that lives in the base is reported '
                        'missing -- conflict resolution cannot load the '
                        'state the writer started from and the commit fails '
                        'instead of merging')
                return st

            vb, stats = explore(g, 'start', at=at_b, edge=edge_b)
            R.count(stats)
            for v in vb[:1]:
                R.violation(v.node, v.message, g, v.path,
                            key='base not asked for a revision the changes '
                                'lack')
            # the exact revision: what is returned comes from a layer's
            # loadSerial, or from a load whose tid was held against the
            # requested serial
            for nid in sorted(g.reachable()):
                node = g.nodes[nid]
                if node.kind != 'return' or node.frame.parent is not None \
                        or node.ast.value is None:
                    continue
                pv = provenance(node.ast.value, node.frame, F)
                exact = prov_has(pv, 'call', lambda p: p[-1] == 'loadSerial')
                other = prov_has(pv, 'call', lambda p: p[-1] in (
                    'loadBefore', 'load', 'load_current'))
                if other and not exact and not checked[0]:
                    R.violation(
                        node, 'DemoStorage.loadSerial returns what a '
                        'loadBefore/load of a layer answered without '
                        'comparing the revision\'s tid with the requested '
                        'serial: when that revision is gone (packed) an '
                        'OLDER one is returned as if it were it -- conflict '
                        'resolution then merges from a state the writer '
                        'never saw instead of failing',
                        key='loadSerial answers with another revision')


@rule('C16.R6', 'operations whose answer depends on both layers are never '
      'copied verbatim from the changes storage', props=['C06'],
      min_instances=5)
def r6(R):
    cls = R.prog.cls(DS)
    f = R.method(cls, '_copy_methods_from_changes')
    names = []
    for x in walk_local(f.node):
        if isinstance(x, ast.For) and isinstance(x.iter, (ast.Tuple,
                                                          ast.List)):
            if any(isinstance(c, ast.Call) and isinstance(c.func, ast.Name)
                   and c.func.id == 'setattr' for c in ast.walk(x)):
                names += [(e.value, x.lineno) for e in x.iter.elts
                          if isinstance(e, ast.Constant)]
        if isinstance(x, ast.Assign):
            for t in x.targets:
                d = dotted(t) if isinstance(t, ast.Attribute) else None
                if d and d[0] == 'self' and len(d) == 2:
                    names.append((d[1], x.lineno))
    R.require(len(names) >= 5, 'copied method names not recognised')
    for nm, ln in names:
        R.instance('copied from changes: %s' % nm)
        if nm in LAYER_SENSITIVE:
            R.violation((f.module.relpath, f.qualname, 'copies %s' % nm, ln),
                        'DemoStorage takes `%s` verbatim from the changes '
                        'storage although its result depends on revisions '
                        'that may live in the base: the operation sees only '
                        'one layer' % nm)


@rule('C16.R7', 'the interval of a base revision that is current in the base '
      'ends at the OLDEST revision in the changes storage (found by walking '
      'back with loadBefore until there is none)', props=['C04'],
      min_instances=1)
def r7(R):
    cls = R.prog.cls(DS)
    f = R.method(cls, 'loadBefore')
    R.instance('DemoStorage.loadBefore end-tid walk')
    ok = False
    for l in walk_local(f.node):
        if not isinstance(l, ast.While) or not isinstance(l.test, ast.Name):
            continue
        t = l.test.id
        # inside the loop: the bound is taken from the result, and the
        # changes storage is asked again below that bound
        bound = None
        requery = False
        for x in ast.walk(l):
            if isinstance(x, ast.Assign) and isinstance(
                    x.value, ast.Subscript) and isinstance(
                        x.value.value, ast.Name) and \
                    x.value.value.id == t and isinstance(
                        x.targets[0], ast.Name):
                bound = x.targets[0].id
        for x in ast.walk(l):
            if isinstance(x, ast.Assign) and isinstance(
                    x.targets[0], ast.Name) and x.targets[0].id == t and \
                    isinstance(x.value, ast.Call) and dotted(
                        x.value.func) == ('self', 'changes', 'loadBefore') \
                    and len(x.value.args) == 2 and isinstance(
                        x.value.args[1], ast.Name) and \
                    x.value.args[1].id == bound:
                requery = True
        if bound and requery and _feeds_base_result(f, l, bound):
            ok = True
    if not ok:
        R.violation((f.module.relpath, f.qualname, 'end tid of base revision'),
                    'loadBefore no longer walks the changes storage back to '
                    'its oldest revision of the object to find where the '
                    'base revision ends: with two or more revisions in the '
                    'changes layer the base revision\'s interval overlaps '
                    'them, and snapshots in between see two current '
                    'revisions')


def _feeds_base_result(f, loop, bound):
    """The bound the walk ends with becomes part of what is returned for the
    base's revision: outside the loop it occurs in the value of a statement
    that rebuilds (or returns) a name bound to `self.base.loadBefore(...)`.
    (A walk whose result only decides something else -- the pack test of
    C16.R14 -- does not find the end of the base revision's interval.)"""
    inloop = {id(x) for x in ast.walk(loop)}
    base_names = set()
    for x in walk_local(f.node):
        if isinstance(x, ast.Assign) and isinstance(
                x.value, ast.Call) and dotted(x.value.func) == (
                    'self', 'base', 'loadBefore'):
            base_names |= {t.id for t in x.targets
                           if isinstance(t, ast.Name)}
    for x in walk_local(f.node):
        if id(x) in inloop:
            continue
        val = None
        if isinstance(x, ast.Assign) and any(
                isinstance(t, ast.Name) and t.id in base_names
                for t in x.targets):
            val = x.value
        elif isinstance(x, ast.Return) and x.value is not None:
            val = x.value
        if val is None:
            continue
        names = {n.id for n in ast.walk(val) if isinstance(n, ast.Name)}
        if bound in names and (names & base_names):
            return True
    return False


# ------------------------------------------------------------------ C16.R8
@rule('C16.R8', 'a storage that can be a layer of a demo storage answers '
      '"not here" with POSKeyError, never with a bare KeyError: the demo '
      'storage falls back to the other layer on POSKeyError only',
      props=['C10', 'C04'], min_instances=3)
def r8(R):
    """Error discipline of MappingStorage's read API (the default changes
    layer): a subscript with a caller-supplied key (oid, serial, tid) can
    raise KeyError, so it must sit in a `try` that catches KeyError, or be
    guarded by `.get()` / a membership test on the same container."""
    cls = R.prog.cls(MS)
    n = 0
    for name in ('load', 'loadBefore', 'loadSerial', 'getTid', 'history',
                 'loadBlob', 'openCommittedBlobFile'):
        f = cls.methods.get(name)
        if f is None:
            continue
        n += 1
        R.instance('MappingStorage.%s' % name)
        params = set(f.params) - {'self'}
        tries = [t for t in walk_local(f.node) if isinstance(t, ast.Try)
                 and any(h.type is None or any(
                     isinstance(x, ast.Name) and x.id in (
                         'KeyError', 'Exception', 'LookupError',
                         'BaseException')
                     for x in ast.walk(h.type)) for h in t.handlers)]
        protected = {id(x) for t in tries for s_ in t.body
                     for x in ast.walk(s_)}
        for x in walk_local(f.node):
            if isinstance(x, ast.Subscript) and isinstance(
                    x.ctx, ast.Load) and isinstance(x.slice, ast.Name) and \
                    x.slice.id in params and id(x) not in protected:
                # reassigned parameter (tid = tids_before[-1]) is a key
                # taken from the container itself
                if any(isinstance(a, ast.Assign) and any(
                        isinstance(t, ast.Name) and t.id == x.slice.id
                        for t in a.targets) for a in walk_local(f.node)):
                    continue
                R.violation(
                    (f.module.relpath, f.qualname,
                     ' '.join(ast.unparse(x).split()), x.lineno),
                    'MappingStorage.%s looks `%s` up with a plain subscript '
                    'outside any `try ... except KeyError`: for a key that '
                    'is not there it raises KeyError instead of '
                    'POSKeyError, and a demo storage using this storage as '
                    'its changes layer does not fall back to the base '
                    '(reads, conflict resolution and readCurrent checks of '
                    'objects that live in the base fail)' % (
                        name, ast.unparse(x)),
                    key='caller-supplied key looked up unguarded')
    R.require(n >= 3, 'MappingStorage read API not found')


# ------------------------------------------------------------------ C16.R9
@rule('C16.R9', 'the changes layer is garbage-collected on its own only '
      'when the demo storage made its own (empty) base: with a supplied '
      'base the pack of the changes runs with gc=False', props=['C07'],
      min_instances=2)
def r9(R):
    cls = R.prog.cls(DS)
    f = R.method(cls, 'pack')
    g, b, F = R.cfg(f, cls, max_depth=0)
    n = [0]

    def edge(node, st, lab, tgt):
        if node.kind == 'test' and lab in ('T', 'F'):
            for e, truth in implied_atoms(node.ast, lab):
                if dotted(e) is None and not isinstance(e, ast.Name):
                    continue
                pv = provenance(e, node.frame, F)
                if ('path', ('self', '_temporary_base')) in pv or (
                        dotted(e) == ('self', '_temporary_base')):
                    return 'own-base' if truth else 'given-base'
        return st

    def at(node, st):
        for op in F.ops(node):
            if op.kind == 'call' and path_is(
                    op.path, ('self', 'changes', 'pack')):
                n[0] += 1
                gc = None
                for kw in op.ast.keywords:
                    if kw.arg == 'gc':
                        gc = kw.value
                if len(op.ast.args) >= 3:
                    gc = op.ast.args[2]
                off = isinstance(gc, ast.Constant) and gc.value is False
                if not off and st != 'own-base':
                    return Violation(
                        'DemoStorage.pack lets the changes storage '
                        'garbage-collect (`%s`) on a path where the base '
                        'may be a supplied, populated storage: the sweep of '
                        'the changes alone cannot follow references through '
                        'objects that live in the base -- it fails half way '
                        'having already moved what it visited, or drops '
                        'changed objects that are reachable only through '
                        'the base; committed changes are lost' %
                        ast.unparse(op.ast)[:60])
        return st

    vs, stats = explore(g, 'unknown', at=at, edge=edge)
    R.count(stats)
    R.instance('DemoStorage.pack', changes_pack_calls=n[0])
    R.instance('DemoStorage.__init__ records whether the base is its own')
    R.require(n[0] >= 1 or vs, 'DemoStorage.pack no longer packs the '
              'changes')
    for v in vs:
        R.violation(v.node, v.message, g, v.path)


# ------------------------------------------------------------------ C16.R10
@rule('C16.R10', 'a commit through a demo storage gets an id later than the '
      'last transaction of BOTH layers: unless the caller supplies the id, '
      'tpc_begin consults the base before it lets the changes storage '
      'choose', props=['C04', 'C02'], min_instances=1)
def r10(R):
    cls = R.prog.cls(DS)
    f = R.method(cls, 'tpc_begin')
    g, b, F = R.cfg(f, cls, max_depth=0)
    R.instance('DemoStorage.tpc_begin')
    seen = [0]
    varargs = {f.vararg, f.kwarg} - {None}

    def edge(node, st, lab, tgt):
        if lab in ('e', 'eb'):
            return st
        for op in F.ops(node):
            if op.kind == 'call' and path_is(
                    op.path, ('self', 'base', 'lastTransaction')):
                st = 'consulted'
        if node.kind == 'test' and lab in ('T', 'F') and st == 'start':
            # the caller supplied an id: established only by a test that
            # the id taken from the arguments is not None (an argument that
            # is passed may still be None -- tpc_begin(txn, None) -- and
            # then the id is the storage's to choose)
            for e, truth in implied_atoms(node.ast, lab):
                if isinstance(e, ast.Compare) and len(e.ops) == 1 and \
                        isinstance(e.ops[0], (ast.Is, ast.IsNot)) and \
                        isinstance(e.comparators[0], ast.Constant) and \
                        e.comparators[0].value is None:
                    pv = provenance(e.left, node.frame, F)
                    names = {x.id for x in ast.walk(e.left)
                             if isinstance(x, ast.Name)}
                    from_args = bool(names & varargs) or any(
                        (k_ == 'param' and v_ in varargs) or (
                            k_ in ('call', 'path') and
                            str(v_[0]).lstrip('@') in varargs)
                        for k_, v_ in pv)
                    if from_args and isinstance(e.ops[0],
                                                ast.IsNot) == truth:
                        return 'caller-id'
        return st

    def calls(e, node, path):
        # the expression itself (through single-definition locals), not
        # what a method of this class called there may consult in turn
        from ..twopc import resolve_local
        e = resolve_local(e, F, node.frame)
        return isinstance(e, ast.Call) and dotted(e.func) == path

    def at(node, st):
        if node.kind == 'test':
            # the test that decides whether the base's last id overrides:
            # it is held against the last id of the storage that would
            # otherwise CHOOSE -- the changes storage (the demo storage's
            # own lastTransaction() answers with the base's while the
            # changes are empty: the very first commit would slip through)
            for c in ast.walk(node.ast):
                if not (isinstance(c, ast.Compare) and len(c.ops) == 1):
                    continue
                sides = [c.left, c.comparators[0]]
                for a_, b_ in (sides, sides[::-1]):
                    if calls(a_, node, ('self', 'base', 'lastTransaction')) \
                            and not calls(a_, node, ('self', 'changes',
                                                     'lastTransaction')) \
                            and not (isinstance(b_, ast.Constant)):
                        if not calls(b_, node, ('self', 'changes',
                                                'lastTransaction')):
                            return Violation(
                                'DemoStorage.tpc_begin holds the base\'s '
                                'last transaction id against `%s`, not '
                                'against the last id of the changes '
                                'storage, which is the one that would '
                                'choose the new id: while the changes are '
                                'empty the demo storage\'s own '
                                'lastTransaction() IS the base\'s, the '
                                'first commit gets an id below a base '
                                'stamped ahead of the clock, and '
                                'lastTransaction() goes backwards' %
                                ' '.join(ast.unparse(b_).split())[:50])
        for op in F.ops(node):
            if op.kind == 'call' and path_is(
                    op.path, ('self', 'changes', 'tpc_begin')):
                seen[0] += 1
                if st == 'start':
                    return Violation(
                        'DemoStorage.tpc_begin lets the changes storage '
                        'choose the transaction id without having looked at '
                        'the base\'s last transaction: when that is later '
                        'than the clock (a base stamped ahead) the new id is '
                        'BELOW it, lastTransaction() goes backwards and new '
                        'snapshots miss the base\'s newest revisions')
        return st

    vs, stats = explore(g, 'start', at=at, edge=edge)
    R.count(stats)
    R.require(seen[0] or vs, 'DemoStorage.tpc_begin no longer delegates')
    for v in vs:
        R.violation(v.node, v.message, g, v.path)


# ----------------------------------------------------------------- C16.R11
@rule('C16.R11', 'the storages a demo storage layers agree with it on how '
      'loadBefore says "no revision before the bound": None when the object '
      'has records (only later ones), POSKeyError only when it has none -- '
      'the demo storage joins the intervals of the two layers on exactly '
      'that distinction', props=['C04', 'C15'], min_instances=2)
def r11(R):
    # the consumer really makes the distinction
    ds = R.prog.cls(DS)
    f = R.method(ds, 'loadBefore')
    catches = any(isinstance(h, ast.ExceptHandler) and h.type is not None and
                  'POSKeyError' in ast.unparse(h.type)
                  for h in ast.walk(f.node))
    tests_none = any(isinstance(c, ast.Compare) and len(c.ops) == 1 and
                     isinstance(c.ops[0], (ast.Is, ast.IsNot)) and
                     isinstance(c.comparators[0], ast.Constant) and
                     c.comparators[0].value is None
                     for c in ast.walk(f.node)) or any(
        isinstance(t, ast.If) and isinstance(t.test, (ast.Name, ast.UnaryOp))
        for t in ast.walk(f.node))
    R.instance('DemoStorage.loadBefore distinguishes',
               catches_poskeyerror=catches, tests_none=tests_none)
    if not (catches and tests_none):
        R.observe('DemoStorage.loadBefore no longer distinguishes None from '
                  'POSKeyError; nothing to agree on')
        return
    # the producer: MappingStorage (the default changes layer)
    ms = R.prog.cls(MS)
    f = R.method(ms, 'loadBefore')
    g, b, F = R.cfg(f, ms, max_depth=0)
    oid = [p for p in f.params if p != 'self'][0]
    # locals holding the object's records: X = self._data.get(oid) / [oid]
    recs = set()
    for s in walk_local(f.node):
        if isinstance(s, ast.Assign) and isinstance(s.targets[0], ast.Name):
            pv = ast.unparse(s.value)
            if 'self._data' in pv and oid in pv:
                recs.add(s.targets[0].id)
    R.require(recs, 'MappingStorage.loadBefore no longer looks the object up '
              'in self._data')
    R.instance('MappingStorage.loadBefore', records_in=sorted(recs))

    def edge(node, st, lab, tgt):
        if node.kind == 'test' and lab in ('T', 'F'):
            for e, truth in implied_atoms(node.ast, lab):
                if isinstance(e, ast.Name) and e.id in recs:
                    return 'has-records' if truth else 'none'
                if isinstance(e, ast.Compare) and len(e.ops) == 1 and \
                        isinstance(e.left, ast.Name) and e.left.id in recs \
                        and isinstance(e.comparators[0], ast.Constant) and \
                        e.comparators[0].value is None:
                    isnone = isinstance(e.ops[0], ast.Is) == truth
                    return 'none' if isnone else 'has-records'
        return st

    def at(node, st):
        if node.kind == 'raise' and node.frame.parent is None and \
                st == 'has-records' and 'POSKeyError' in ast.unparse(
                    node.ast):
            return Violation(
                'MappingStorage.loadBefore raises POSKeyError for an object '
                'that has records (none of them before the bound): '
                'DemoStorage.loadBefore takes POSKeyError for "not in the '
                'changes at all" and answers with the base revision '
                'open-ended, although the changes hold later revisions -- '
                'the validity intervals of the two layers no longer join')
        return st

    vs, stats = explore(g, 'unknown', at=at, edge=edge)
    R.count(stats)
    for v in vs:
        R.violation(v.node, v.message, g, v.path)


# ----------------------------------------------------------------- C16.R12
@rule('C16.R12', 'a base revision that is open-ended in the base is passed '
      'on open-ended only when the bound is the maximal tid; for every other '
      'bound its end is looked up in the changes (a bound equal to the '
      'changes\' last transaction still excludes that transaction)',
      props=['C04', 'C15'], min_instances=1)
def r12(R):
    ds = R.prog.cls(DS)
    f = R.method(ds, 'loadBefore')
    g, b, F = R.cfg(f, ds, max_depth=0)
    bound = [p for p in f.params if p != 'self'][1]
    # locals that receive the base's answer
    res = set()
    for s in walk_local(f.node):
        if isinstance(s, ast.Assign) and isinstance(s.value, ast.Call) and \
                dotted(s.value.func) == ('self', 'base', 'loadBefore'):
            res |= {t.id for t in s.targets if isinstance(t, ast.Name)}
    R.require(res, 'DemoStorage.loadBefore no longer asks the base')
    seen = [0]

    def open_ended_test(e):
        """`not X[-1]` / `X[-1] is None` for a base answer X -> polarity of
        'is open-ended' when the expression is true, else None"""
        if isinstance(e, ast.Subscript) and isinstance(
                e.value, ast.Name) and e.value.id in res:
            i = e.slice
            if isinstance(i, ast.UnaryOp) and isinstance(
                    i.op, ast.USub) and isinstance(
                        i.operand, ast.Constant) and i.operand.value == 1:
                return False          # X[-1] true  => has an end
            if isinstance(i, ast.Constant) and i.value == 2:
                return False
        if isinstance(e, ast.Compare) and len(e.ops) == 1 and isinstance(
                e.comparators[0], ast.Constant) and \
                e.comparators[0].value is None:
            inner = open_ended_test(e.left)
            if inner is False:
                return isinstance(e.ops[0], ast.Is)
        return None

    def edge(node, st, lab, tgt):
        if node.kind == 'test' and lab in ('T', 'F'):
            for e, truth in implied_atoms(node.ast, lab):
                pol = open_ended_test(e)
                if pol is not None and st == 'base':
                    if pol == truth:
                        st = 'open'
                    else:
                        st = 'ended'
                if st == 'open' and isinstance(e, ast.Compare) and \
                        len(e.ops) == 1 and isinstance(e.ops[0],
                                                       (ast.Eq, ast.NotEq)):
                    names = set()
                    for x in (e.left, e.comparators[0]):
                        d_ = dotted(x)
                        if d_:
                            names.add(d_[-1])
                    if bound in names and 'maxtid' in names and \
                            isinstance(e.ops[0], ast.Eq) == truth:
                        st = 'open-max'
        if lab in ('e', 'eb'):
            return st
        for op in F.ops(node):
            if op.kind == 'store' and op.path and op.path[0] == '%local' \
                    and op.path[1] in res:
                v = op.stmt.value if isinstance(op.stmt, ast.Assign) else None
                if isinstance(v, ast.Call) and dotted(v.func) == (
                        'self', 'base', 'loadBefore'):
                    st = 'base'
                else:
                    st = 'patched'
        return st

    def at(node, st):
        if node.kind == 'return' and isinstance(node.ast.value, ast.Name) \
                and node.ast.value.id in res:
            seen[0] += 1
            if st == 'open':
                return Violation(
                    'DemoStorage.loadBefore returns the base\'s open-ended '
                    'revision as it is for a bound that is not known to be '
                    'the maximal tid: when the changes hold a later '
                    'revision (first written by the transaction the bound '
                    'names) the answer must end there -- validity intervals '
                    'of the two layers overlap')
        return st

    vs, stats = explore(g, 'start', at=at, edge=edge)
    R.count(stats)
    R.instance('DemoStorage.loadBefore', base_answers=sorted(res))
    R.require(seen[0] or vs, 'DemoStorage.loadBefore no longer returns the '
              'base\'s answer')
    for v in vs:
        R.violation(v.node, v.message, g, v.path)


# ----------------------------------------------------------------- C16.R13
@rule('C16.R13', 'blob reads go changes-over-base whatever the changes '
      'storage is: before a blob is asked of the changes storage it is '
      'established that this storage can hold blobs at all (one that was '
      'supplied without blob support answers with AttributeError / '
      'TypeError, not with "not here")', min_instances=2)
def r13(R):
    ds = R.prog.cls(DS)

    def consults(e):
        return _consults_changes_capability(ds, e)

    n = 0
    for meth in ('loadBlob', 'openCommittedBlobFile'):
        f = R.method(ds, meth)
        g, b, F = R.cfg(f, ds, max_depth=0)
        n += 1
        R.instance('DemoStorage.%s' % meth)

        def edge(node, st, lab, tgt):
            if node.kind == 'test' and consults(node.ast):
                return True
            return st

        def at(node, st, meth=meth, F=F):
            for op in F.ops(node):
                if op.kind == 'call' and path_is(
                        op.path, ('self', 'changes', meth)) and not st:
                    return Violation(
                        'DemoStorage.%s asks the changes storage for a blob '
                        'without having established that it can hold blobs: '
                        'a changes storage supplied without blob support '
                        '(MappingStorage, FileStorage without blob_dir) '
                        'answers with AttributeError / TypeError, which is '
                        'passed on -- the blobs of the base cannot be read '
                        'through the demo storage' % meth)
            return st

        vs, stats = explore(g, False, at=at, edge=edge)
        R.count(stats)
        for v in vs[:1]:
            R.violation(v.node, v.message, g, v.path,
                        key='changes storage asked for a blob it cannot '
                            'hold')
    R.require(n >= 2, 'blob readers of DemoStorage not found')


# ----------------------------------------------------------------- C16.R14
@rule('C16.R14', 'after a pack of the changes, "nothing before the bound" in '
      'the changes is taken for "ask the base" only when the pack cannot '
      'have removed what was there: pack() leaves a mark, and loadBefore '
      'consults it before it falls back to the base for an object the '
      'changes know', props=['C07', 'C08', 'C15'], min_instances=1)
def r14(R):
    ds = R.prog.cls(DS)
    pk = R.method(ds, 'pack')
    marks = set()
    for s in walk_local(pk.node):
        if isinstance(s, (ast.Assign, ast.AugAssign)):
            tg = s.targets if isinstance(s, ast.Assign) else [s.target]
            for t in tg:
                if isinstance(t, ast.Attribute) and isinstance(
                        t.value, ast.Name) and t.value.id == 'self':
                    marks.add(t.attr)
    f = R.method(ds, 'loadBefore')
    g, b, F = R.cfg(f, ds, max_depth=0)
    R.instance('DemoStorage.loadBefore', pack_marks=sorted(marks))
    res = set()
    for s in walk_local(f.node):
        if isinstance(s, ast.Assign) and isinstance(s.value, ast.Call) and \
                dotted(s.value.func) == ('self', 'changes', 'loadBefore'):
            res |= {t.id for t in s.targets if isinstance(t, ast.Name)}
    R.require(res, 'DemoStorage.loadBefore no longer asks the changes')

    def edge(node, st, lab, tgt):
        if node.kind == 'test' and lab in ('T', 'F'):
            if st == 'known-nothing-before' and any(
                    isinstance(x, ast.Attribute) and isinstance(
                        x.value, ast.Name) and x.value.id == 'self' and
                    x.attr in marks for x in ast.walk(node.ast)):
                return 'pack-considered'
            for e, truth in implied_atoms(node.ast, lab):
                if isinstance(e, ast.Compare) and len(e.ops) == 1 and \
                        isinstance(e.left, ast.Name) and e.left.id in res \
                        and isinstance(e.comparators[0], ast.Constant) and \
                        e.comparators[0].value is None and \
                        isinstance(e.ops[0], ast.Is) == truth and \
                        st == 'start':
                    return 'known-nothing-before'
                if isinstance(e, ast.Name) and e.id in res and not truth \
                        and st == 'start':
                    return 'known-nothing-before'
        return st

    def at(node, st):
        # ... and "a pack may have removed it" is concluded for the object
        # at hand, from the oldest revision the changes have of it (a pack
        # removes nothing of an object first changed after it)
        for op in F.ops(node):
            if op.kind == 'call' and path_is(
                    op.path, ('self', 'base', 'loadBefore')) and \
                    st == 'known-nothing-before':
                return Violation(
                    'DemoStorage.loadBefore answers with the base\'s '
                    'revision for an object the changes know but have '
                    'nothing of before the bound, without considering that '
                    'a pack of the changes may have removed what was there: '
                    'a reader whose snapshot is older than the pack silently '
                    'reads the base\'s (older) state where a plain storage '
                    'makes it fail with a retryable conflict error')
        return st

    vs, stats = explore(g, 'start', at=at, edge=edge)
    R.count(stats)
    for v in vs[:1]:
        R.violation(v.node, v.message, g, v.path,
                    key='base asked although a pack may have removed the '
                        'revision')

    # second pass: between the test of the pack mark and a `return None`
    # the changes are asked again (the walk to the object's oldest revision)
    def edge2(node, st, lab, tgt):
        st = edge(node, st, lab, tgt) if st in (
            'start', 'known-nothing-before') else st
        if st == 'pack-considered' and lab not in ('e', 'eb'):
            for op in F.ops(node):
                if op.kind == 'call' and path_is(
                        op.path, ('self', 'changes', 'loadBefore')):
                    return 'oldest-looked-up'
        return st

    def at2(node, st):
        if node.kind == 'return' and st == 'pack-considered' and (
                node.ast.value is None or (isinstance(
                    node.ast.value, ast.Constant) and
                    node.ast.value.value is None)):
            return Violation(
                'DemoStorage.loadBefore answers "nothing" for every bound '
                'not later than the last pack, whatever the object: an '
                'object whose FIRST change came after the pack lost nothing '
                'to it, and its base revision is the right answer for '
                'historical reads before the pack')
        return st

    vs, stats = explore(g, 'start', at=at2, edge=edge2)
    R.count(stats)
    for v in vs[:1]:
        R.violation(v.node, v.message, g, v.path,
                    key='nothing answered without looking at the object\'s '
                        'oldest revision')


# ----------------------------------------------------------------- C16.R15
@rule('C16.R15', 'a wrapper storage that takes a gc argument in pack() '
      'hands it on whenever it was given, False included: a demo storage '
      'passes gc=False so that the changes are NOT garbage-collected on '
      'their own (a sweep of the changes alone cannot follow references '
      'through the base)', props=['C07'], min_instances=1)
def r15(R):
    n = 0
    for cq in ('ZODB.blob.BlobStorage',):
        cls = R.prog.cls(cq)
        f = R.method(cls, 'pack')
        n += 1
        R.instance('%s.pack' % cls.name, takes_gc='gc' in f.params)
        if 'gc' not in f.params:
            continue
        g, b, F = R.cfg(f, cls, max_depth=0)

        def edge(node, st, lab, tgt):
            if node.kind == 'test' and lab in ('T', 'F'):
                for e, truth in implied_atoms(node.ast, lab):
                    if isinstance(e, ast.Compare) and len(e.ops) == 1 and \
                            isinstance(e.left, ast.Name) and \
                            e.left.id == 'gc' and isinstance(
                                e.comparators[0], ast.Constant) and \
                            e.comparators[0].value is None:
                        if isinstance(e.ops[0], ast.Is) == truth:
                            return 'not-given'
                        return 'given'
            return st

        def at(node, st, F=F):
            for op in F.ops(node):
                if op.kind == 'call' and op.path and \
                        op.path[-1] == 'pack' and op.path[0] != 'self' or (
                        op.kind == 'call' and op.path and
                        op.path[-1] == 'pack' and len(op.path) >= 3):
                    passes = any(kw.arg == 'gc' for kw in op.ast.keywords) \
                        or len(op.ast.args) >= 3
                    if not passes and st != 'not-given':
                        return Violation(
                            '%s.pack calls the wrapped storage\'s pack '
                            'without the gc argument on a path on which gc '
                            'may have been given as False: the wrapped '
                            'storage then garbage-collects by default -- for '
                            'the changes of a demo storage with a base that '
                            'removes everything reachable only through '
                            'objects of the base' % cls.name)
            return st

        vs, stats = explore(g, 'unknown', at=at, edge=edge)
        R.count(stats)
        for v in vs[:1]:
            R.violation(v.node, v.message, g, v.path,
                        key='gc argument dropped')
    R.require(n >= 1, 'wrapper pack not found')
