"""C14 -- object graphs round-trip; reference extraction is exact (narrow:
reference-format tables)."""

import ast

from ..engine import rule
from ..flow import PRUNE, Violation, explore, if_branches, \
    ifs_with_following, implied_atoms, \
    path_ends, \
    path_is, prov_has, provenance, store_value
from ..model import dotted, walk_local

WRITER = 'ZODB.serialize.ObjectWriter'
READER = 'ZODB.serialize.ObjectReader'
PREF = 'ZODB.ConflictResolution.PersistentReference'
SER = 'ZODB.serialize'


def elt_name(e):
    if isinstance(e, ast.Name):
        return e.id
    if isinstance(e, ast.Attribute):
        return e.attr
    return None


def writer_shapes(R):
    """Shapes persistent_id can return: ('list', tag, [roles]) /
    ('tuple', n, [roles]) / ('bare',) / ('none',).  A field is named by its
    ROLE -- where its value comes from -- not by what the local is called:
    'oid' (an object's _p_oid / a new oid), 'database_name' (a database's
    name), 'klass' (type(obj))."""
    w = R.prog.cls(WRITER)
    f = R.method(w, 'persistent_id')
    g, b, F = R.cfg(f, w, max_depth=0)

    def elt_name(e):                        # noqa: F811  (role, see above)
        if isinstance(e, ast.Attribute):
            return e.attr
        if isinstance(e, ast.Name):
            pv = provenance(e, g.root, F)
            if prov_has(pv, 'attr', lambda a: a == 'database_name'):
                return 'database_name'
            if prov_has(pv, 'call', lambda p: p[-1].lstrip('@') == 'type') or prov_has(
                    pv, 'attr', lambda a: a == '__class__'):
                return 'klass'
            if prov_has(pv, 'attr', lambda a: a in ('_p_oid', 'oid')) or \
                    prov_has(pv, 'call', lambda p: p[-1] == 'new_oid'):
                return 'oid'
            return e.id
        return None
    shapes = []
    for r in walk_local(f.node):
        if not isinstance(r, ast.Return):
            continue
        v = r.value
        if v is None or (isinstance(v, ast.Constant) and v.value is None):
            shapes.append(('none', r.lineno))
        elif isinstance(v, ast.List) and len(v.elts) == 2 and isinstance(
                v.elts[0], ast.Constant) and isinstance(v.elts[1], ast.Tuple):
            shapes.append(('list', v.elts[0].value,
                           [elt_name(e) for e in v.elts[1].elts], r.lineno))
        elif isinstance(v, ast.Tuple):
            shapes.append(('tuple', len(v.elts),
                           [elt_name(e) for e in v.elts], r.lineno))
        elif isinstance(v, ast.Name):
            shapes.append(('bare', v.id, r.lineno))
        else:
            shapes.append(('other', ast.unparse(v), r.lineno))
    return f, shapes


@rule('C14.R1', 'every reference format the writer emits is understood, '
      'with the same arity and field order, by the object reader, the '
      'conflict-resolution reader and the reference extractors',
      props=['C07', 'C10'], min_instances=6)
def r1(R):
    f, shapes = writer_shapes(R)
    for s in shapes:
        R.instance('writer emits %s' % (s[:-1],))
    others = [s for s in shapes if s[0] == 'other']
    for s in others:
        R.violation((f.module.relpath, f.qualname, s[1], s[-1]),
                    'persistent_id returns `%s`, a reference shape no reader '
                    'has a table entry for' % s[1])
    lists = [s for s in shapes if s[0] == 'list']
    tuples = [s for s in shapes if s[0] == 'tuple']
    R.require(len(lists) >= 3 and tuples, 'writer shapes not recognised: %s'
              % shapes)
    # --- ObjectReader.loaders
    rd = R.prog.cls(READER)
    loaders = {}
    for n in rd.node.body:
        if isinstance(n, ast.Assign) and isinstance(
                n.targets[0], ast.Subscript) and dotted(
                    n.targets[0].value) == ('loaders',) and isinstance(
                        n.targets[0].slice, ast.Constant) and isinstance(
                            n.value, ast.Name):
            loaders[n.targets[0].slice.value] = n.value.id
    R.instance('ObjectReader.loaders', tags=sorted(loaders))
    for kind, tag, names, ln in lists:
        where = (f.module.relpath, f.qualname, "reference ['%s', ...]" % tag,
                 ln)
        if tag not in loaders:
            R.violation(where, 'the writer emits a %r reference but '
                        'ObjectReader has no loader for it: the object '
                        'cannot be loaded again' % tag)
            continue
        m = rd.methods.get(loaders[tag])
        if m is None:
            R.violation(where, 'loader %s vanished' % loaders[tag])
            continue
        params = m.params[1:]
        ndef = len(m.node.args.defaults)
        if not (len(params) - ndef <= len(names) <= len(params)):
            R.violation(where, 'the writer emits %r with %d fields but %s '
                        'takes %d..%d' % (tag, len(names), m.short,
                                          len(params) - ndef, len(params)))
        elif [n for n in names] != params[:len(names)] and all(names):
            R.violation(where, 'the writer emits %r as %s but %s expects %s: '
                        'fields are read in the wrong order' % (
                            tag, names, m.short, params[:len(names)]))
    for kind, n_, names, ln in tuples:
        m = rd.methods.get('load_persistent')
        if m is None or len(m.params) - 1 != n_:
            R.violation((f.module.relpath, f.qualname, 'tuple reference', ln),
                        'the writer emits a %d-tuple reference but '
                        'load_persistent takes %s' % (
                            n_, m.params[1:] if m else None))
        elif all(names) and names != m.params[1:]:
            R.violation((f.module.relpath, f.qualname, 'tuple reference', ln),
                        'tuple reference fields %s do not match '
                        'load_persistent%s' % (names, tuple(m.params[1:])))
    # --- PersistentReference (conflict resolution)
    pr = R.prog.cls(PREF)
    init = R.method(pr, '__init__')
    handled = {}
    for x in walk_local(init.node):
        if not isinstance(x, ast.If):
            continue
        for atoms, block in if_branches(x):
            for e, truth in atoms:
                if not (isinstance(e, ast.Compare) and len(e.ops) == 1 and
                        isinstance(e.left, ast.Name) and isinstance(
                            e.comparators[0], ast.Constant) and isinstance(
                                e.comparators[0].value, str) and len(
                                    e.comparators[0].value) == 1 and
                        isinstance(e.ops[0], (ast.Eq, ast.NotEq)) and
                        isinstance(e.ops[0], ast.Eq) == truth):
                    continue
                tag = e.comparators[0].value
                arities = set()
                for y in block:
                    if isinstance(y, ast.If) and block is x.orelse:
                        continue        # the next link of an elif chain
                    for z in ast.walk(y):
                        if isinstance(z, ast.Assign) and isinstance(
                                z.targets[0], ast.Tuple) and any(
                                    isinstance(q, ast.Subscript) and
                                    isinstance(q.slice, ast.Constant) and
                                    q.slice.value == 1
                                    for q in ast.walk(z.value)):
                            arities.add(len(z.targets[0].elts))
                handled[tag] = arities
    R.instance('PersistentReference tags', tags={k: sorted(v)
                                                 for k, v in handled.items()})
    for kind, tag, names, ln in lists:
        where = (f.module.relpath, f.qualname,
                 "reference ['%s', ...] vs PersistentReference" % tag, ln)
        if tag not in handled:
            R.violation(where, 'conflict resolution does not know the %r '
                        'reference format: resolving an object that holds '
                        'such a reference misreads it' % tag)
        elif handled[tag] and len(names) not in handled[tag]:
            R.violation(where, 'conflict resolution unpacks %r references '
                        'into %s fields, the writer emits %d' % (
                            tag, sorted(handled[tag]), len(names)))
    # --- extractors treat tuple / bytes / list
    for fn in ('referencesf', 'get_refs'):
        m = R.prog.func(SER + '.' + fn)
        R.instance('%s shapes' % fn)
        tests = [ast.unparse(c.args[1]) for c in walk_local(m.node)
                 if isinstance(c, ast.Call) and isinstance(c.func, ast.Name)
                 and c.func.id == 'isinstance' and len(c.args) == 2]
        for ok, what in ((any(t == 'tuple' for t in tests), 'tuple'),
                         (any('bytes' in t for t in tests), 'bare oid')):
            if not ok:
                R.violation((m.module.relpath, m.qualname, what + ' branch'),
                            '%s no longer recognises %s references' % (
                                fn, what))


NORMALISERS = [
    (READER, 'load_persistent'), (READER, 'load_persistent_weakref'),
    (READER, 'load_oid'), (None, SER + '.referencesf'),
    (None, SER + '.get_refs'), (PREF, '__init__'),
]


@rule('C14.R2', 'every consumer of a reference turns a text oid back into '
      'bytes', min_instances=6)
def r2(R):
    for q, name in NORMALISERS:
        if q is None:
            f = R.prog.func(name)
        else:
            f = R.method(R.prog.cls(q), name)
        R.instance(f.short)
        ok = False
        for x, following in ifs_with_following(f.node):
            # the block entered when `isinstance(<x>, bytes)` is false
            for atoms, block in if_branches(x, following):
                tested = [ast.dump(e.args[0]) for e, truth in atoms
                          if isinstance(e, ast.Call) and isinstance(
                              e.func, ast.Name) and e.func.id == 'isinstance'
                          and len(e.args) == 2 and 'bytes' in ast.unparse(
                              e.args[1]) and not truth]
                if not tested:
                    continue
                # ... re-binds the SAME value it tested to its bytes form
                for y in block:
                    if not isinstance(y, ast.Assign):
                        continue
                    tg = [t for t in y.targets if ast.dump(
                        t).replace('Store()', 'Load()') in tested]
                    for c in ast.walk(y.value):
                        if tg and isinstance(c, ast.Call) and dotted(
                                c.func) and (
                                (dotted(c.func)[-1] == 'encode' and c.args
                                 and isinstance(c.args[0], ast.Constant) and
                                 c.args[0].value == 'ascii') or
                                dotted(c.func)[-1] in ('ascii_bytes',
                                                       'as_bytes')):
                            ok = True
        if not ok:
            R.violation((f.module.relpath, f.qualname, 'oid normalisation'),
                        '%s does not convert an oid that was unpickled as '
                        'text (all bytes < 0x80) back to bytes: such objects '
                        'are looked up under a key that never matches' %
                        f.short)


@rule('C14.R3', 'once persistent_id has established that the object is '
      'persistent it never answers "pickle it by value"', min_instances=1)
def r3(R):
    w = R.prog.cls(WRITER)
    f = R.method(w, 'persistent_id')
    g, b, F = R.cfg(f, w, max_depth=0)
    R.instance('ObjectWriter.persistent_id')

    def edge(node, st, lab, tgt):
        if lab == 'e':
            return st
        s = node.ast
        if node.kind == 'stmt' and isinstance(s, ast.Assign) and any(
                isinstance(t, ast.Attribute) and t.attr in ('_p_oid',
                                                            '_p_jar')
                for t in s.targets):
            return True
        if node.kind == 'test' and any(
                isinstance(x, ast.Attribute) and x.attr == '_p_jar'
                for x in ast.walk(node.ast)):
            return True
        return st

    def at(node, st):
        if st and node.kind == 'return' and (
                node.ast.value is None or (isinstance(
                    node.ast.value, ast.Constant) and
                    node.ast.value.value is None)):
            return Violation(
                'persistent_id returns None for an object it has treated as '
                'persistent: the object\'s state is embedded in the '
                'referring record instead of a reference')
        if st and node.id == g.exit_return and False:
            return st
        return st

    vs, stats = explore(g, False, at=at, edge=edge)
    R.count(stats)
    for v in vs:
        R.violation(v.node, v.message, g, v.path)
    # no fall-through
    last = f.node.body[-1]
    if not isinstance(last, ast.Return) or last.value is None:
        R.violation((f.module.relpath, f.qualname, 'final return'),
                    'persistent_id can fall off its end (returning None) for '
                    'a persistent object')


@rule('C14.R4', 'a reference resolves through the connection\'s cache: one '
      'in-memory object per oid', min_instances=2)
def r4(R):
    rd = R.prog.cls(READER)
    f = R.method(rd, 'load_persistent')
    g, b, F = R.cfg(f, rd, max_depth=0)
    R.instance('ObjectReader.load_persistent')

    def edge(node, st, lab, tgt):
        if lab == 'e':
            return st
        for op in F.ops(node):
            if op.kind == 'call' and path_is(op.path,
                                             ('self', '_cache', 'get')):
                st = st | {'looked-up'}
            if op.kind == 'call' and op.path and op.path[-1] == '__new__':
                if 'looked-up' not in st:
                    return Violation(
                        'a ghost is created for a reference without first '
                        'looking the oid up in the cache: two in-memory '
                        'objects for one oid')
                st = st | {'created'}
            if op.kind == 'call' and path_is(
                    op.path, ('self', '_cache', 'new_ghost')):
                st = st | {'registered'}
        return frozenset(st)

    def at(node, st):
        if node.kind == 'return' and 'created' in st and \
                'registered' not in st:
            return Violation('a freshly created ghost is returned without '
                             'being registered in the cache: the next '
                             'reference to the same oid creates another '
                             'object')
        return st

    vs, stats = explore(g, frozenset(), at=at, edge=edge)
    R.count(stats)
    for v in vs:
        R.violation(v.node, v.message, g, v.path)
    f2 = R.method(rd, 'load_oid')
    g2, b2, F2 = R.cfg(f2, rd, max_depth=0)
    R.instance('ObjectReader.load_oid')
    ok = any(op.kind == 'call' and path_is(op.path, ('self', '_cache', 'get'))
             for op in F2.all_ops())
    via_conn = any(op.kind == 'call' and path_is(op.path,
                                                 ('self', '_conn', 'get'))
                   for op in F2.all_ops())
    if not (ok or via_conn):
        R.violation((f2.module.relpath, f2.qualname, 'cache lookup'),
                    'load_oid no longer resolves the oid through the cache '
                    'or the connection')


@rule('C14.R5', 'reference extraction yields the oid of tuple and bare '
      'references and skips exactly the list-shaped (weak / cross-database) '
      'ones', props=['C07'], min_instances=2)
def r5(R):
    for fn in ('referencesf', 'get_refs'):
        f = R.prog.func(SER + '.' + fn)
        g, b, F = R.cfg(f, None, max_depth=0)
        R.instance(fn)
        # the list the unpickler's persistent_load appends to, the loop
        # over it, and the list the function returns -- by role, whatever
        # they are called
        collected = {
            a.value.id for c in walk_local(f.node)
            if isinstance(c, ast.Call) for a in c.args
            if isinstance(a, ast.Attribute) and a.attr == 'append' and
            isinstance(a.value, ast.Name)}
        sink = None
        for r_ in walk_local(f.node):
            if isinstance(r_, ast.Return) and isinstance(r_.value, ast.Name):
                sink = r_.value.id
        R.require(sink is not None, '%s does not return a list' % fn)
        loopvar = None
        for l in walk_local(f.node):
            if isinstance(l, ast.For) and isinstance(l.target, ast.Name) and \
                    isinstance(l.iter, ast.Name) and l.iter.id in collected:
                loopvar = l.target.id
        if loopvar is None:
            R.violation((f.module.relpath, f.qualname, 'reference loop'),
                        '%s no longer walks the collected references' % fn)
            continue

        def shape_of(e, truth):
            if isinstance(e, ast.Call) and isinstance(e.func, ast.Name) and \
                    e.func.id == 'isinstance' and len(e.args) == 2 and \
                    isinstance(e.args[0], ast.Name) and \
                    e.args[0].id == loopvar and truth:
                t = ast.unparse(e.args[1])
                if t == 'tuple':
                    return 'tuple'
                if 'bytes' in t:
                    return 'bare'
                if t == 'list':
                    return 'list'
            return None

        def edge(node, st, lab, tgt, loopvar=loopvar, sink=sink, F=F):
            if node.kind == 'for' and lab == 'T':
                return ('unknown', False)
            shape, got = st
            if node.kind == 'test' and lab in ('T', 'F') and (
                    shape == 'unknown' or shape.startswith('not:')):
                atoms = implied_atoms(node.ast, lab)
                for e, truth in atoms:
                    s_ = shape_of(e, truth)
                    if s_:
                        return (s_, got)
                # an isinstance test that failed excludes that shape;
                # neither tuple nor bare -> list-shaped
                excluded = set(shape[4:].split(',')) - {''} \
                    if shape.startswith('not:') else set()
                for e, truth in atoms:
                    s_ = shape_of(e, not truth) if not truth else None
                    if s_:
                        excluded.add(s_)
                if {'tuple', 'bare'} <= excluded:
                    return ('list', got)
                if excluded:
                    return ('not:' + ','.join(sorted(excluded)), got)
            if lab != 'e':
                for op in F.ops(node):
                    if op.kind == 'call' and op.path in (
                            ('%param', sink, 'append'),
                            ('%local', sink, 'append')):
                        if shape == 'list':
                            return Violation(
                                '%s reports the oid of a list-shaped (weak or '
                                'cross-database) reference as an ordinary '
                                'reference' % fn)
                        got = True
                    if op.kind == 'store' and op.path == ('%local', 'oid') \
                            and shape == 'tuple':
                        v = op.stmt.value if isinstance(
                            op.stmt, ast.Assign) else None
                        if isinstance(v, ast.Subscript) and isinstance(
                                v.slice, ast.Constant) and v.slice.value != 0:
                            return Violation(
                                '%s takes element %r of a tuple reference as '
                                'the oid' % (fn, v.slice.value))
            return (shape, got)

        def at(node, st, fn=fn):
            shape, got = st
            if node.kind == 'for' and shape in ('tuple', 'bare') and not got:
                return Violation(
                    '%s drops a %s reference: an object that is only '
                    'reachable through it is garbage-collected by pack' % (
                        fn, shape))
            return st

        vs, stats = explore(g, ('none', False), at=at, edge=edge)
        R.count(stats)
        for v in vs:
            R.violation(v.node if v.node.kind != 'for' else (
                f.module.relpath, f.qualname, 'reference kept'), v.message,
                g, v.path)


# ------------------------------------------------------------------ C14.R6
def _recv(call):
    """('self', 'X') / ('local', name) for X.meth() / self.X.meth()"""
    f = call.func
    if not isinstance(f, ast.Attribute):
        return None, None
    v = f.value
    if isinstance(v, ast.Name):
        return ('local', v.id), f.attr
    if isinstance(v, ast.Attribute) and isinstance(v.value, ast.Name) and \
            v.value.id == 'self':
        return ('self', v.attr), f.attr
    return None, None


@rule('C14.R6', 'the bytes taken from a pickle buffer are exactly what was '
      'written for this record: a reused buffer is rewound AND truncated, '
      'any other buffer is fresh', min_instances=3)
def r6(R):
    """Typestate of every in-memory buffer whose getvalue() is used:
    fresh --getvalue--> consumed; consumed --seek(0)--> rewound;
    rewound/consumed --truncate()--> fresh; `x = BytesIO()` --> fresh.
    A buffer kept in an attribute is 'consumed' on entry (an earlier call
    may have used it).  getvalue() in state consumed/rewound returns the
    tail of an earlier, longer record after the new one."""
    n = 0
    for f in R.prog.all_functions():
        sites = [c for c in walk_local(f.node) if isinstance(c, ast.Call)
                 and _recv(c)[1] == 'getvalue']
        if not sites:
            continue
        cls = f.cls
        g, b, F = R.cfg(f, cls, max_depth=0)
        bufs = {_recv(c)[0] for c in sites}
        for buf in sorted(bufs):
            n += 1
            R.instance('%s: buffer %s' % (f.short, '.'.join(
                ('self', buf[1]) if buf[0] == 'self' else (buf[1],))))
            init = 'consumed' if buf[0] == 'self' else 'unset'

            def edge(node, st, lab, tgt, buf=buf):
                if lab in ('e', 'eb'):
                    return st
                a = node.ast
                if node.kind == 'stmt' and isinstance(a, ast.Assign) and \
                        isinstance(a.value, ast.Call):
                    fn_ = dotted(a.value.func)
                    fresh = fn_ and fn_[-1] in ('BytesIO', 'StringIO',
                                                'TemporaryFile')
                    for t in a.targets:
                        if (buf[0] == 'local' and isinstance(t, ast.Name)
                                and t.id == buf[1]) or (
                                buf[0] == 'self' and dotted(t) ==
                                ('self', buf[1])):
                            return 'fresh' if fresh else 'unknown'
                if node.kind in ('stmt', 'return', 'test') and a is not None:
                    for c in ast.walk(a):
                        if isinstance(c, ast.Call) and _recv(c)[0] == buf:
                            m = _recv(c)[1]
                            if m == 'seek' and st in ('consumed',):
                                st = 'rewound'
                            elif m == 'truncate' and not c.args:
                                # cuts at the current position: only
                                # useful after the rewind
                                st = 'fresh' if st in (
                                    'rewound', 'fresh') else st
                            elif m == 'getvalue':
                                st = 'consumed' if st in (
                                    'fresh', 'unknown', 'unset') else st
                return st

            def at(node, st, buf=buf):
                a = node.ast
                if node.kind in ('stmt', 'return', 'test') and a is not None:
                    for c in ast.walk(a):
                        if isinstance(c, ast.Call) and _recv(c) == (
                                buf, 'getvalue') and st in (
                                    'consumed', 'rewound'):
                            return Violation(
                                'getvalue() on a buffer that was used '
                                'before and is %s: if the earlier content '
                                'was longer, its tail (state of another '
                                'object) is returned after the new record'
                                % ('rewound but not truncated'
                                   if st == 'rewound' else 'not reset'))
                return st

            vs, stats = explore(g, init, at=at, edge=edge)
            R.count(stats)
            for v in vs:
                R.violation(v.node, v.message, g, v.path)
    R.require(n >= 3, 'expected the writer\'s reused buffer and the '
              'per-record buffers of export and conflict resolution')


# ------------------------------------------------------------------ C14.R7
@rule('C14.R7', 'a reference carries the class only if the class (including '
      'what it inherits) takes no constructor arguments: the reader makes '
      'the ghost with klass.__new__(klass)', min_instances=2)
def r7(R):
    w = R.prog.cls(WRITER)
    f = R.method(w, 'persistent_id')
    g, b, F = R.cfg(f, w, max_depth=0)
    seen = [0]

    def newargs_atom(e):
        """hasattr(k, '__getnewargs__') / getattr(k, '__getnewargs__', ..):
        looks the attribute up through the MRO."""
        return isinstance(e, ast.Call) and isinstance(e.func, ast.Name) \
            and e.func.id in ('hasattr', 'getattr') and len(e.args) >= 2 \
            and isinstance(e.args[1], ast.Constant) and \
            e.args[1].value == '__getnewargs__'

    def edge(node, st, lab, tgt):
        if node.kind == 'test' and lab in ('T', 'F'):
            for e, truth in implied_atoms(node.ast, lab):
                if newargs_atom(e) and not truth and e.func.id == 'hasattr':
                    return True
                # getattr(k, '__getnewargs__', None) is None
                if isinstance(e, ast.Compare) and len(e.ops) == 1 and \
                        newargs_atom(e.left) and e.left.func.id == 'getattr' \
                        and len(e.left.args) == 3 and isinstance(
                            e.comparators[0], ast.Constant) and \
                        e.comparators[0].value is None and isinstance(
                            e.left.args[2], ast.Constant) and \
                        e.left.args[2].value is None:
                    isnone = isinstance(e.ops[0], ast.Is) == truth
                    if isnone:
                        return True
                if newargs_atom(e) and not truth and e.func.id == 'getattr' \
                        and len(e.args) == 3:
                    return True
        return st

    def with_class(v):
        if isinstance(v, ast.Tuple) and len(v.elts) == 2:
            return True
        if isinstance(v, ast.List) and len(v.elts) == 2 and isinstance(
                v.elts[0], ast.Constant) and v.elts[0].value == 'm':
            return True
        return False

    def at(node, st):
        if node.kind == 'return' and node.ast.value is not None and \
                with_class(node.ast.value):
            seen[0] += 1
            if not st:
                return Violation(
                    'a reference with class is written on a path where '
                    'hasattr(klass, \'__getnewargs__\') was not found false '
                    '(an own-__dict__ test misses inherited '
                    '__getnewargs__): the reader builds the ghost without '
                    'constructor arguments / cannot pickle a broken class')
        return st

    vs, stats = explore(g, False, at=at, edge=edge)
    R.count(stats)
    R.require(seen[0] >= 2 or vs, 'persistent_id has no (oid, class) returns')
    for r in walk_local(f.node):
        if isinstance(r, ast.Return) and r.value is not None and \
                with_class(r.value):
            R.instance('persistent_id: %s' % ast.unparse(r))
    for v in vs:
        R.violation(v.node, v.message, g, v.path)


# ------------------------------------------------------------------ C14.R8
@rule('C14.R8', 'conflict resolution rewrites a reference (class that '
      'cannot be imported -> its name) only within the shape it was read '
      'in: a two-field tuple is stored back only for a tuple reference',
      props=['C10'], min_instances=1)
def r8(R):
    cls = R.prog.cls(PREF)
    f = R.method(cls, '__init__')
    g, b, F = R.cfg(f, cls, max_depth=0)
    dparam = [p for p in f.params if p != 'self'][0]
    seen = [0]

    def edge(node, st, lab, tgt):
        if node.kind == 'test' and lab in ('T', 'F'):
            for e, truth in implied_atoms(node.ast, lab):
                if isinstance(e, ast.Call) and isinstance(
                        e.func, ast.Name) and e.func.id == 'isinstance' and \
                        len(e.args) == 2 and isinstance(
                            e.args[0], ast.Name) and \
                        e.args[0].id == dparam and ast.unparse(
                            e.args[1]) == 'tuple':
                    return 'tuple' if truth else 'not-tuple'
        return st

    def at(node, st):
        a = node.ast
        if node.kind == 'stmt' and isinstance(a, ast.Assign) and any(
                dotted(t) == ('self', 'data') for t in a.targets
                if isinstance(t, ast.Attribute)) and isinstance(
                    a.value, ast.Tuple):
            seen[0] += 1
            if st != 'tuple':
                return Violation(
                    'PersistentReference stores back a %d-field tuple '
                    'reference on a path where the reference read was not a '
                    'tuple (a cross-database or weak reference): the '
                    'resolved record holds a same-database reference to '
                    'another object than the one the original referred to'
                    % len(a.value.elts))
        return st

    vs, stats = explore(g, 'unknown', at=at, edge=edge)
    R.count(stats)
    R.instance('PersistentReference.__init__ rewrites', sites=seen[0])
    R.require(seen[0] or vs, 'PersistentReference no longer rewrites '
              'references to unimportable classes')
    for v in vs:
        R.violation(v.node, v.message, g, v.path)


# ------------------------------------------------------------------ C14.R9
@rule('C14.R9', 'a cross-database reference resolves through the CURRENT '
      'cache of the other connection: the reader does not keep a reader '
      '(or a cache) of another connection', min_instances=2)
def r9(R):
    cls = R.prog.cls(READER)
    n = 0
    for name, f in sorted(cls.methods.items()):
        uses = [c for c in walk_local(f.node) if isinstance(c, ast.Call)
                and dotted(c.func) and dotted(c.func)[-1] == 'ObjectReader']
        for c in uses:
            n += 1
            R.instance('ObjectReader.%s: %s' % (name, ast.unparse(c)[:60]))
        if not uses and not any(
                isinstance(x, ast.Attribute) and x.attr == '_cache' and
                not (isinstance(x.value, ast.Name) and x.value.id == 'self')
                for x in walk_local(f.node)):
            continue
        g, b, F = R.cfg(f, cls, max_depth=0)
        for op in F.all_ops():
            if op.kind not in ('store', 'setitem') or not op.path or \
                    op.path[0] != 'self':
                continue
            v = op.stmt.value if isinstance(op.stmt, ast.Assign) else None
            if v is None:
                continue
            pv = provenance(v, op.node.frame, F)
            foreign = prov_has(pv, 'call', lambda p: p[-1].split('.')[-1]
                               == 'ObjectReader') or (
                prov_has(pv, 'attr', lambda a: a == '_cache') and prov_has(
                    pv, 'call', lambda p: p[-1] == 'get_connection'))
            if foreign:
                R.violation(
                    op.node, 'ObjectReader.%s keeps `%s` in `%s`: a reader '
                    'bound to the cache another connection had at that '
                    'moment.  Connection._resetCache replaces that cache '
                    '(and fixes up only the connection\'s own reader), so '
                    'later cross-database references resolve through the '
                    'discarded cache: a second in-memory object for one id, '
                    'which gets no invalidations' % (
                        name, ast.unparse(v)[:40],
                        '.'.join(str(x) for x in op.path)))
    # ... and never through the cache of the REFERENCING connection: the
    # same oid names different objects in different databases
    m = 0
    for name, f in sorted(cls.methods.items()):
        if 'database_name' not in f.params:
            continue
        m += 1
        R.instance('ObjectReader.%s resolves in database_name' % name)
        for x in walk_local(f.node):
            if isinstance(x, ast.Attribute) and dotted(x) == ('self',
                                                              '_cache'):
                R.violation(
                    (f.module.relpath, f.qualname,
                     'self._cache used for another database', x.lineno),
                    'ObjectReader.%s looks an object of database '
                    '`database_name` up in the cache of the referencing '
                    'connection: an object of THIS database that happens to '
                    'have the same oid is returned instead (wrong database, '
                    'wrong class), silently' % name,
                    key='own cache probed for a cross-database reference')
    R.require(n + m >= 2, 'ObjectReader no longer resolves cross-database '
              'references')


# ------------------------------------------------------------------ C14.R10
@rule('C14.R10', 'a weak reference the reader builds has what the writer '
      'reads from it when it is stored again (sibling agreement between '
      'load_persistent_weakref and the weak-reference branch of '
      'persistent_id)', min_instances=1)
def r10(R):
    w = R.prog.cls(WRITER)
    pid = R.method(w, 'persistent_id')
    # what the writer reads from a weak reference it is given
    reads = set()
    for x in walk_local(pid.node):
        if isinstance(x, ast.Attribute) and isinstance(
                x.ctx, ast.Load) and isinstance(x.value, ast.Name) and \
                x.value.id in pid.params and x.attr in (
                    'oid', 'database_name'):
            reads.add(x.attr)
    R.require('oid' in reads, 'persistent_id no longer reads the oid of a '
              'weak reference')
    rd = R.prog.cls(READER)
    f = R.method(rd, 'load_persistent_weakref')
    g, b, F = R.cfg(f, rd, max_depth=0)
    R.instance('ObjectReader.load_persistent_weakref', writer_reads=sorted(
        reads))
    newobj = None
    for a in walk_local(f.node):
        if isinstance(a, ast.Assign) and isinstance(
                a.targets[0], ast.Name) and isinstance(a.value, ast.Call) \
                and '__new__' in ast.unparse(a.value.func):
            newobj = a.targets[0].id
    R.require(newobj is not None, 'load_persistent_weakref no longer '
              'creates the reference object')

    def edge(node, st, lab, tgt):
        if lab in ('e', 'eb'):
            return st
        for op in F.ops(node):
            if op.kind == 'store' and isinstance(op.ast, ast.Attribute) and \
                    isinstance(op.ast.value, ast.Name) and \
                    op.ast.value.id == newobj:
                st = st | {op.ast.attr}
        return st

    def at(node, st):
        if node.kind == 'return' and node.frame.parent is None:
            missing = reads - st
            if missing:
                return Violation(
                    'load_persistent_weakref returns a weak reference '
                    'without %s, which ObjectWriter.persistent_id reads '
                    'when the reference is stored again: re-storing a '
                    'loaded same-database weak reference from an object of '
                    'another database fails (AttributeError) instead of '
                    'writing the cross-database form' % ', '.join(
                        sorted(missing)))
        return st

    vs, stats = explore(g, frozenset(), at=at, edge=edge)
    R.count(stats)
    for v in vs:
        R.violation(v.node, v.message, g, v.path)


# ----------------------------------------------------------------- C14.R11
@rule('C14.R11', 'the writer stores a weak reference under the oid its '
      'target has NOW: the oid a weak reference remembers is used only '
      'after it was held against the target\'s current oid (the target of a '
      'reference made in an aborted transaction was disowned and gets a new '
      'oid)', props=['C11'], min_instances=1)
def r11(R):
    w = R.prog.cls(WRITER)
    f = R.method(w, 'persistent_id')
    g, b, F = R.cfg(f, w, max_depth=0)
    seen = [0]
    from ..flow import Flags
    oidvars = {t.id for s_ in walk_local(f.node) if isinstance(s_, ast.Assign)
               and isinstance(s_.value, ast.Attribute) and
               s_.value.attr == 'oid'
               for t in s_.targets if isinstance(t, ast.Name)}
    flags = Flags(F, lambda e, fr: e.id if isinstance(e, ast.Name) and
                  e.id in oidvars else None)

    def edge(node, st0, lab, tgt):
        st, fl = st0
        fl = flags.learn(node, fl, lab)
        if fl is PRUNE:
            return PRUNE
        if lab not in ('e', 'eb'):
            fl = flags.assign(node, fl, lab)
        return (edge1(node, st, lab, tgt), fl)

    def edge1(node, st, lab, tgt):
        if node.kind == 'test' and lab in ('T', 'F') and st == 'remembered':
            for x in ast.walk(node.ast):
                # `<target>._p_oid != oid`: against the REMEMBERED oid (a
                # test for None only says that the target is unowned now;
                # re-added, it has another oid than the remembered one)
                sides = [x.left] + list(x.comparators) if isinstance(
                    x, ast.Compare) else []
                if any(isinstance(y, ast.Attribute) and y.attr == '_p_oid'
                       for y in sides) and any(
                        isinstance(y, ast.Name) and y.id in oidvars
                        for y in sides):
                    return 'held-against-target'
        if lab in ('e', 'eb'):
            return st
        for op in F.ops(node):
            if op.kind == 'store' and op.path and op.path[0] == '%local':
                v = store_value(op)
                if isinstance(v, ast.Attribute) and v.attr == 'oid' and \
                        isinstance(v.value, ast.Name) and \
                        v.value.id in f.params:
                    st = 'remembered'        # oid = obj.oid
                elif st == 'remembered' and op.path[1] != '%tmp':
                    if isinstance(v, ast.Attribute) and v.attr == '_p_oid':
                        st = 'fresh'
                    elif isinstance(v, ast.Call) and dotted(v.func) and \
                            dotted(v.func)[-1] == 'new_oid':
                        st = 'fresh'
        return st

    def at(node, st):
        if node.kind == 'return' and isinstance(node.ast.value, ast.List) \
                and node.ast.value.elts and isinstance(
                    node.ast.value.elts[0], ast.Constant) and \
                node.ast.value.elts[0].value == 'w':
            seen[0] += 1
            if st[0] == 'remembered':
                return Violation(
                    'persistent_id stores a weak reference under the oid '
                    'the reference remembers without holding it against '
                    'the target\'s current oid: a reference first '
                    'serialised in a transaction that was aborted keeps the '
                    'oid of the disowned target; stored again it dangles '
                    'for every other connection')
        return st

    vs, stats = explore(g, ('start', frozenset()), at=at, edge=edge)
    R.count(stats)
    R.instance('ObjectWriter.persistent_id weak-reference branch',
               returns=seen[0])
    R.require(seen[0] or vs, 'persistent_id no longer writes weak references')
    for v in vs[:1]:
        R.violation(v.node, v.message, g, v.path,
                    key='remembered oid of a weak reference not checked')


# ----------------------------------------------------------------- C14.R12
@rule('C14.R12', 'the importer looks an old oid up in its table of new oids '
      'in ONE spelling: the bytes form is established after the reference '
      'was taken apart, for every shape of reference (an all-ASCII oid '
      'written by Python 2 arrives as str, alone or inside (oid, class))',
      min_instances=1)
def r12(R):
    ei = R.prog.cls('ZODB.ExportImport.ExportImport')
    outer = R.method(ei, '_importDuringCommit')
    inner = [x for x in ast.walk(outer.node) if isinstance(
        x, ast.FunctionDef) and x.name == 'persistent_load']
    R.require(inner, 'the import\'s persistent_load vanished')
    fn = inner[0]
    oidvar = fn.args.args[0].arg
    R.instance('ExportImport._importDuringCommit.persistent_load',
               oid_local=oidvar)

    def established(test):
        return any(isinstance(c, ast.Call) and isinstance(
            c.func, ast.Name) and c.func.id == 'isinstance' and c.args and
            isinstance(c.args[0], ast.Name) and c.args[0].id == oidvar and
            'bytes' in ast.unparse(c.args[1]) for c in ast.walk(test))

    def uses_as_key(s):
        for x in ast.walk(s):
            if isinstance(x, ast.Subscript) and isinstance(
                    x.slice, ast.Name) and x.slice.id == oidvar:
                return x
            if isinstance(x, ast.Compare) and len(x.ops) == 1 and \
                    isinstance(x.ops[0], (ast.In, ast.NotIn)) and \
                    isinstance(x.left, ast.Name) and x.left.id == oidvar:
                return x
        return None

    def assigns(s):
        return any(isinstance(t, ast.Name) and t.id == oidvar and isinstance(
            t.ctx, ast.Store) for t in ast.walk(s))

    # walk the body in order; an `if` whose test establishes the spelling
    # counts only if it is not the `elif` of the taking-apart
    def walk(block, known):
        for s in block:
            if isinstance(s, ast.If):
                if established(s.test):
                    # both branches leave the spelling established (the
                    # body converts, the other branch is bytes already)
                    known = True
                    continue
                kb = walk(s.body, known)
                ko = walk(s.orelse, known)
                if kb is None or ko is None:
                    return None
                known = kb and ko
                continue
            u = uses_as_key(s)
            if u is not None and not known:
                R.violation(
                    (outer.module.relpath, outer.qualname,
                     ' '.join(ast.unparse(u).split())[:80], u.lineno),
                    'the importer uses `%s` as a key of its oid table on a '
                    'path on which its bytes spelling was not established '
                    'after the reference was taken apart: an all-ASCII oid '
                    'that arrives as str inside an (oid, class) reference '
                    'gets a second new oid -- one object is split in two, '
                    'one reference dangles' % oidvar,
                    key='oid used as a key without its spelling established')
                return None
            if assigns(s):
                known = False
        return known

    walk(fn.body, False)


# ----------------------------------------------------------------- C14.R13
@rule('C14.R13', 'a reference is written with a database NAME only after '
      'the name was held against the referrer\'s multi-database: it must '
      'stand there for the target\'s database (sibling agreement of the '
      'ordinary and the weak-reference branch of the writer)',
      min_instances=1)
def r13(R):
    w = R.prog.cls(WRITER)
    f = R.method(w, 'persistent_id')
    g, b, F = R.cfg(f, w, max_depth=0)
    seen = [0]
    # the local that carries the target's database name, by role: bound to
    # somebody's `.database_name`
    dbnames = {t.id for a in walk_local(f.node)
               if isinstance(a, ast.Assign) and isinstance(
                   a.value, ast.Attribute) and
               a.value.attr == 'database_name'
               for t in a.targets if isinstance(t, ast.Name)}
    R.require(dbnames, 'persistent_id no longer keeps the target\'s '
              'database name in a local')

    def names_db(e):
        """the returned reference carries a database name"""
        for x in ast.walk(e):
            if isinstance(x, ast.Name) and x.id in dbnames:
                return True
            if isinstance(x, ast.Attribute) and x.attr == 'database_name':
                return True
        return False

    from ..flow import Flags
    flags = Flags(F, lambda e, fr: 'dbname' if isinstance(e, ast.Name) and
                  e.id in dbnames else None)

    def edge(node, st0, lab, tgt):
        st, fl = st0
        fl = flags.learn(node, fl, lab)
        if fl is PRUNE:
            return PRUNE
        if lab not in ('e', 'eb'):
            fl = flags.assign(node, fl, lab)
        return (edge1(node, st, lab, tgt), fl)

    def edge1(node, st, lab, tgt):
        if node.kind == 'test' and any(
                isinstance(x, ast.Attribute) and x.attr == 'databases'
                for x in ast.walk(node.ast)):
            return True
        # the ordinary branch: no database name at all on this path
        if node.kind == 'test' and lab in ('T', 'F'):
            for e, truth in implied_atoms(node.ast, lab):
                if isinstance(e, ast.Compare) and len(e.ops) == 1 and \
                        isinstance(e.left, ast.Name) and \
                        e.left.id in dbnames and isinstance(
                            e.comparators[0], ast.Constant) and \
                        e.comparators[0].value is None and \
                        isinstance(e.ops[0], ast.Is) == truth:
                    return 'no-name'
                if isinstance(e, ast.Name) and e.id in dbnames and \
                        not truth:
                    return 'no-name'
        return st

    def at(node, st):
        if node.kind == 'return' and node.ast.value is not None and \
                isinstance(node.ast.value, (ast.List, ast.Tuple)) and \
                names_db(node.ast.value):
            seen[0] += 1
            if st[0] is not True and st[0] != 'no-name':
                return Violation(
                    'persistent_id writes a reference with a database name '
                    '(`%s`) on a path that never held the name against the '
                    'multi-database of the referrer: a reference into a '
                    'FOREIGN database is stored; where both databases have '
                    'the same name it is resolved in the referrer\'s own '
                    'database -- to an unrelated object, silently' %
                    ' '.join(ast.unparse(node.ast.value).split())[:60])
        return st

    vs, stats = explore(g, (False, frozenset()), at=at, edge=edge)
    R.count(stats)
    R.instance('ObjectWriter.persistent_id', named_returns=seen[0])
    R.require(seen[0] >= 2 or vs, 'persistent_id no longer writes references '
              'with a database name')
    for v in vs[:1]:
        R.violation(v.node, v.message, g, v.path,
                    key='database name written unchecked')


# ----------------------------------------------------------------- C14.R14
@rule('C14.R14', 'whether a reference is written with a database name is '
      'decided by `is None` tests of the name, in every branch of the writer '
      'alike: a database may be named "" (a truth test takes that name for '
      '"this database")', min_instances=2)
def r14(R):
    w = R.prog.cls(WRITER)
    f = R.method(w, 'persistent_id')
    dbnames = {t.id for a in walk_local(f.node)
               if isinstance(a, ast.Assign) and isinstance(
                   a.value, ast.Attribute) and
               a.value.attr == 'database_name'
               for t in a.targets if isinstance(t, ast.Name)}
    R.require(dbnames, 'persistent_id no longer keeps the target\'s '
              'database name in a local')
    n = 0
    for t in walk_local(f.node):
        if not isinstance(t, (ast.If, ast.IfExp, ast.While)):
            continue

        def atoms(e):
            if isinstance(e, ast.BoolOp):
                for v in e.values:
                    yield from atoms(v)
            elif isinstance(e, ast.UnaryOp) and isinstance(e.op, ast.Not):
                yield from atoms(e.operand)
            else:
                yield e
        for e in atoms(t.test):
            if isinstance(e, ast.Compare) and len(e.ops) == 1 and \
                    isinstance(e.left, ast.Name) and e.left.id in dbnames \
                    and isinstance(e.comparators[0], ast.Constant) and \
                    e.comparators[0].value is None:
                n += 1
                R.instance('persistent_id: %s' % ast.unparse(e))
            if isinstance(e, ast.Name) and e.id in dbnames:
                n += 1
                R.instance('persistent_id: truth test of %s' % e.id)
                R.violation(
                    (f.module.relpath, f.qualname,
                     ' '.join(ast.unparse(t.test).split()), t.lineno),
                    'persistent_id decides with the TRUTH of `%s` whether '
                    'the reference gets a database name: a reference into '
                    'a database named "" is written as a plain oid and '
                    'resolves, on load, to whatever object of the '
                    'referrer\'s own database has that oid (the sibling '
                    'branches test `is None`)' % e.id,
                    key='database name decided by truth, not None-ness')
    R.require(n >= 2, 'expected the None tests of the database name in the '
              'two named-reference branches; found %d' % n)


# ----------------------------------------------------------------- C14.R15
@rule('C14.R15', 'after the connection\'s cache was replaced, its reader '
      'resolves references in the NEW cache (one in-memory object per id '
      'per connection: get()/root() and reference loading agree)',
      props=['C11'], min_instances=1)
def r15(R):
    conn = R.prog.cls('ZODB.Connection.Connection')
    f = R.method(conn, '_resetCache')
    g, b, F = R.cfg(f, conn, max_depth=0)

    def token(e, st):
        """which cache object an expression denotes"""
        conn_t, reader_t, loc = st
        if dotted(e) == ('self', '_cache'):
            return conn_t
        if isinstance(e, ast.Name):
            return dict(loc).get(e.id, 'unknown:' + e.id)
        if isinstance(e, ast.Call) and dotted(e.func) and \
                dotted(e.func)[-1] == 'PickleCache':
            return 'new@%d' % e.lineno
        return 'unknown'

    def edge(node, st, lab, tgt):
        conn_t, reader_t, loc = st
        if node.kind == 'test' and lab in ('T', 'F'):
            # no reader yet: nothing to rebind
            for e, truth in implied_atoms(node.ast, lab):
                if isinstance(e, ast.Compare) and len(e.ops) == 1 and \
                        isinstance(e.comparators[0], ast.Constant) and \
                        e.comparators[0].value is None and any(
                            isinstance(x, ast.Constant) and
                            x.value == '_reader' or
                            isinstance(x, ast.Attribute) and
                            x.attr == '_reader' for x in ast.walk(e.left)):
                    if isinstance(e.ops[0], ast.Is) == truth:
                        return (conn_t, 'absent', loc)
        if lab in ('e', 'eb'):
            return st
        s_ = node.ast
        if isinstance(s_, ast.Assign):
            v = s_.value
            if isinstance(v, ast.Call) and dotted(v.func) and \
                    dotted(v.func)[-1] == 'ObjectReader':
                arg = v.args[1] if len(v.args) > 1 else None
                t = token(arg, st) if arg is not None else 'unknown'
                if any(dotted(x) == ('self', '_reader') for x in s_.targets):
                    reader_t = t
            else:
                t = token(v, st)
                d = dict(loc)
                for x in s_.targets:
                    if dotted(x) == ('self', '_cache'):
                        conn_t = t
                    elif dotted(x) == ('self', '_reader', '_cache'):
                        reader_t = t
                    elif isinstance(x, ast.Name):
                        d[x.id] = t
                loc = tuple(sorted(d.items()))
        return (conn_t, reader_t, loc)

    def at(node, st):
        conn_t, reader_t, loc = st
        if node.id == g.exit_return and reader_t != 'absent' and \
                reader_t != conn_t:
            return Violation(
                '_resetCache leaves the connection with the cache `%s` and '
                'its reader with `%s`: get() and root() use the new cache '
                'while every reference is resolved in the other one -- two '
                'in-memory objects for one id; a change made through one '
                'of them cannot be committed ("Cache values may only be in '
                'one cache")' % (conn_t, reader_t))
        return st

    vs, stats = explore(g, ('old', 'old', ()), at=at, edge=edge)
    R.count(stats)
    R.instance('Connection._resetCache')
    for v in vs[:1]:
        R.violation(v.node, v.message, g, v.path, at_root=True,
                    key='reader left with another cache than the '
                        'connection')
