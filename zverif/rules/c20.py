"""C20 -- object ids are never issued twice."""

import ast

from ..engine import rule
from ..flow import PRUNE, Violation, explore, path_ends, path_is, prov_has, \
    provenance, store_value, strip_not
from ..locks import lock_delta
from ..model import dotted, walk_local
from ..twopc import BS, DS, FS, MS

COUNTER_WRITERS = {'new_oid', 'set_max_oid'}


def is_self_oid(path):
    return path_is(path, ('self', '_oid'))


def monotone_value(v):
    """max(self._oid, ...)"""
    return isinstance(v, ast.Call) and isinstance(v.func, ast.Name) and \
        v.func.id == 'max' and any(dotted(a) == ('self', '_oid')
                                   for a in v.args)


@rule('C20.R1', 'the id counter is written only by allocation, the guarded '
      'raise and the constructor, and only under the storage lock',
      min_instances=5)
def r1(R):
    n = 0
    for q in (FS, MS):
        cls = R.prog.cls(q)
        seen = set()
        for k in R.prog.mro(cls):
            for f in getattr(k, 'methods', {}).values():
                if f.qualname in seen:
                    continue
                seen.add(f.qualname)
                if R.prog.find_method(cls, f.name) is None or \
                        R.prog.find_method(cls, f.name)[0] is not f:
                    continue
                if not any(isinstance(x, ast.Attribute) and x.attr == '_oid'
                           and isinstance(x.ctx, ast.Store)
                           for x in walk_local(f.node)):
                    continue
                g, b, F = R.cfg(f, cls, max_depth=0)

                def reads_counter(node):
                    if node.ast is None:
                        return False
                    if isinstance(node.ast, ast.AugAssign) and dotted(
                            node.ast.target) == ('self', '_oid'):
                        return True
                    return any(isinstance(x, ast.Attribute) and
                               isinstance(x.ctx, ast.Load) and
                               dotted(x) == ('self', '_oid')
                               for x in ast.walk(node.ast))

                def edge(node, st, lab, tgt, F=F,
                         reads_counter=reads_counter):
                    held, read = st
                    h2 = max(0, held + lock_delta(F, node))
                    if h2 == 0:
                        read = False       # the hold ended
                    elif reads_counter(node):
                        read = True
                    return (h2, read)

                def at(node, st, F=F, f=f, cls=cls,
                       reads_counter=reads_counter):
                    state = st
                    st, read = state
                    for op in F.ops(node):
                        if op.kind in ('store', 'aug') and \
                                is_self_oid(op.path):
                            if f.name == '__init__':
                                continue
                            if st > 0 and not (read or reads_counter(node)):
                                return Violation(
                                    '%s.%s writes the id counter under the '
                                    'storage lock, but the value it is '
                                    'compared with / derived from was read '
                                    'before the lock was taken: between the '
                                    'check and the write another thread can '
                                    'move the counter, which is then set '
                                    'back and ids are issued twice' % (
                                        cls.name, f.name))
                            if st == 0:
                                return Violation(
                                    '%s.%s writes the id counter without '
                                    'holding the storage lock: two threads '
                                    'allocating at once can be handed the '
                                    'same id' % (cls.name, f.name))
                            if f.name not in COUNTER_WRITERS and not \
                                    monotone_value(store_value(op)):
                                return Violation(
                                    '%s.%s assigns the id counter; only '
                                    'allocation and the guarded raise '
                                    '(set_max_oid / max()) may, otherwise '
                                    'the counter can move backwards and ids '
                                    'are issued twice' % (cls.name, f.name))
                    return state

                vs, stats = explore(g, (0, False), at=at, edge=edge)
                R.count(stats)
                for op in F.all_ops():
                    if op.kind in ('store', 'aug') and is_self_oid(op.path):
                        n += 1
                        R.instance('%s.%s writes _oid' % (cls.name, f.name),
                                   stmt=op.node.text(60))
                for v in vs:
                    R.violation(v.node, v.message, g, v.path)
    R.named_exception('FileStorage.__init__, BaseStorage.__init__, '
                      'MappingStorage.__init__',
                      'object not yet shared between threads')
    R.require(n >= 5, 'only %d writes of the id counter found' % n)


def cmp_under_oid_greater(test, F, fr, oidp):
    """Truth value of `test` when oid > counter, or None if the test does not
    compare the two."""
    inner, pol = strip_not(test)
    if not (isinstance(inner, ast.Compare) and len(inner.ops) == 1):
        return None
    a, c = inner.left, inner.comparators[0]

    def role(e):
        if isinstance(e, ast.Call) and len(e.args) == 1:
            e = e.args[0]           # u64(oid)
        p = F.canon(e, fr) if dotted(e) else None
        if p == ('%param', oidp):
            return 'oid'
        if p == ('self', '_oid'):
            return 'ctr'
        return None

    ra, rc = role(a), role(c)
    if {ra, rc} != {'oid', 'ctr'}:
        return None
    op = inner.ops[0]
    if ra == 'oid':
        v = {ast.Gt: True, ast.GtE: True, ast.NotEq: True, ast.Lt: False,
             ast.LtE: False, ast.Eq: False}.get(type(op))
    else:
        v = {ast.Lt: True, ast.LtE: True, ast.NotEq: True, ast.Gt: False,
             ast.GtE: False, ast.Eq: False}.get(type(op))
    if v is None:
        return None
    return v if pol else (not v)


STAGERS = [(FS, 'store', 'fs'), (FS, 'restore', 'fs'), (MS, 'store', 'ms')]


@rule('C20.R2', 'a store or restore of an id above the counter raises the '
      'counter on every normal path', min_instances=3)
def r2(R):
    for q, meth, kind in STAGERS:
        cls = R.prog.cls(q)
        f = R.method(cls, meth)
        g, b, F = R.cfg(f, cls, max_depth=2,
                        inline=lambda t, fr: t.func.name == 'set_max_oid')
        oidp = [p for p in f.params if p != 'self'][0]
        name = '%s.%s' % (cls.name, meth)
        R.instance(name, cfg_nodes=len(g.reachable()))
        stag = [0]

        def edge(node, st, lab, tgt, F=F, oidp=oidp, kind=kind, stag=stag):
            raised, staged = st
            if node.kind == 'test' and lab in ('T', 'F'):
                v = cmp_under_oid_greater(node.ast, F, node.frame, oidp)
                if v is not None and (lab == 'T') != v:
                    return PRUNE        # not taken when oid > counter
            if lab == 'e':
                return st
            for op in F.ops(node):
                if op.kind == 'store' and is_self_oid(op.path):
                    v = store_value(op)
                    if v is None:
                        continue
                    p = F.canon(v, node.frame) if dotted(v) else None
                    names = {F.canon(x, node.frame) for x in ast.walk(v)
                             if isinstance(x, ast.Name)}
                    if p == ('%param', oidp) or (
                            monotone_value(v) and ('%param', oidp) in names):
                        raised = True
                if (kind == 'fs' and op.kind == 'setitem' and path_is(
                        op.path, ('self', '_tindex'))) or (
                        kind == 'ms' and op.kind == 'setitem' and path_is(
                            op.path, ('self', '_tdata'))):
                    stag[0] += 1
                    staged = node.id
            return (raised, staged)

        def at(node, st, g=g, name=name):
            raised, staged = st
            if node.id == g.exit_return and staged and not raised:
                return Violation(
                    '%s stages a record for a caller-supplied id above the '
                    'allocation counter without raising the counter: '
                    'new_oid() later hands out that id again' % name)
            return st

        vs, stats = explore(g, (False, None), at=at, edge=edge)
        R.count(stats)
        R.require(stag[0] or vs, '%s: no staging site recognised' % name)
        for v in vs:
            n = g.nodes[v.state[1]] if v.state and v.state[1] else v.node
            R.violation(n, v.message, g, v.path, instance=name)
    R.named_exception('FileStorage.deleteObject',
                      'requires an existing record, whose store already '
                      'raised the counter')


@rule('C20.R3', 'reopening takes the id counter from the largest id in the '
      'index', min_instances=3)
def r3(R):
    cls = R.prog.cls(FS)
    f = R.method(cls, '__init__')
    n = 0
    for x in walk_local(f.node):
        if isinstance(x, ast.Assign) and isinstance(x.value, ast.Call) and \
                dotted(x.value.func) == ('read_index',):
            n += 1
            R.instance('FileStorage.__init__ read_index call',
                       targets=ast.unparse(x.targets[0]))
            t = x.targets[0]
            ok = isinstance(t, ast.Tuple) and len(t.elts) == 3 and \
                dotted(t.elts[1]) == ('self', '_oid')
            if not ok:
                R.violation((f.module.relpath, f.qualname,
                             ast.unparse(x)[:80], x.lineno),
                            'the id counter is not taken from the scan '
                            'result on reopen: ids stored before the close '
                            'are issued again')
    R.require(n >= 2, 'read_index call sites vanished')
    ri = R.prog.func('ZODB.FileStorage.FileStorage.read_index')
    g, b, F = R.cfg(ri, None, max_depth=0)
    rets = [x for x in walk_local(ri.node) if isinstance(x, ast.Return)
            and isinstance(x.value, ast.Tuple) and len(x.value.elts) == 3]
    final = [r for r in rets if not (isinstance(r.value.elts[1], ast.Constant))]
    R.instance('read_index result', returns=len(rets))
    ok = False
    for r in final:
        root = g.nodes[g.entry]
        pv = provenance(r.value.elts[1], g.root, F)
        if prov_has(pv, 'call', lambda p: p[-1] == 'maxKey'):
            ok = True
    if not ok:
        R.violation((ri.module.relpath, ri.qualname, 'max oid result'),
                    'read_index no longer returns the largest id of the '
                    'index as the id counter')


@rule('C20.R4', 'a demo storage issues an id only if it was not issued '
      'before and is absent from both layers, and records it as issued',
      props=['C16'], min_instances=1)
def r4(R):
    cls = R.prog.cls(DS)
    f = R.method(cls, 'new_oid')
    g, b, F = R.cfg(f, cls, max_depth=0)
    R.instance('DemoStorage.new_oid', cfg_nodes=len(g.reachable()))

    def probe(node):
        for op in F.ops(node):
            if op.kind == 'call' and op.path and op.path[-1].endswith(
                    'load_current') and op.ast.args:
                p = F.canon(op.ast.args[0], node.frame)
                if p in (('self', 'changes'), ('self', 'base')):
                    return p[1]
            if op.kind == 'call' and op.path and op.path[0] == 'self' and \
                    len(op.path) == 3 and op.path[1] in ('changes', 'base') \
                    and op.path[2] in ('load', 'loadBefore', 'getTid'):
                return op.path[1]
        return None

    def edge(node, st, lab, tgt):
        if node.kind == 'loophead':
            return frozenset(x for x in st if x == 'locked')
        # the storage lock: "not issued before" is only worth something
        # until the lock is given up
        dl = lock_delta(F, node)
        if dl > 0:
            st = st | {'locked'}
        elif dl < 0:
            st = st - {'locked'}
            if 'fresh' in st:
                st = st | {'unlocked-since-check'}
        pr = probe(node)
        if pr is not None:
            if lab == 'e':
                return st | {'miss-' + pr}
            return st - {'miss-' + pr}
        if node.kind == 'test' and lab in ('T', 'F'):
            from ..flow import implied_atoms
            verdict = None
            mentions = False
            for inner, truth in implied_atoms(node.ast, lab):
                for x in ast.walk(inner):
                    if isinstance(x, ast.Compare) and len(x.ops) == 1 and \
                            dotted(x.comparators[0]) == ('self',
                                                         '_issued_oids'):
                        mentions = True
                if isinstance(inner, ast.Compare) and len(inner.ops) == 1 \
                        and dotted(inner.comparators[0]) == (
                            'self', '_issued_oids') and isinstance(
                                inner.ops[0], (ast.In, ast.NotIn)):
                    verdict = isinstance(inner.ops[0], ast.NotIn) == truth
            if mentions:
                # (a conjunction that failed, a disjunction that held: the
                # id is not known to be unissued)
                fresh = verdict is True
                st = st - {'unlocked-since-check'}
                if fresh and 'locked' not in st:
                    st = st | {'unlocked-since-check'}
                return (st | {'fresh'}) if fresh else (st - {'fresh'})
        if lab != 'e':
            for op in F.ops(node):
                if op.kind == 'call' and path_is(
                        op.path, ('self', '_issued_oids', 'add')):
                    if 'unlocked-since-check' in st or 'locked' not in st:
                        return Violation(
                            'DemoStorage.new_oid records the id as issued in '
                            'another critical section than the one in which '
                            'it found it not issued (the storage lock is '
                            'released, or not held, in between): two '
                            'concurrent callers both find the id free and '
                            'both get it')
                    st = st | {'recorded'}
        return st

    def at(node, st):
        if node.kind == 'return' and node.ast.value is not None and \
                node.frame.parent is None:
            missing = {'fresh', 'miss-changes', 'miss-base', 'recorded'} - st
            if missing:
                return Violation(
                    'DemoStorage.new_oid can return an id without: %s -- '
                    'the id may collide with an object of one of the layers '
                    'or be handed out twice' % ', '.join(sorted(missing)))
        return st

    vs, stats = explore(g, frozenset(), at=at, edge=edge)
    R.count(stats)
    for v in vs:
        R.violation(v.node, v.message, g, v.path)
    # ids are forgotten only when the objects stored under them committed
    for m in cls.methods.values():
        for c in walk_local(m.node):
            shrink = None
            if isinstance(c, ast.Call) and isinstance(
                    c.func, ast.Attribute) and dotted(c.func.value) == (
                        'self', '_issued_oids') and c.func.attr in (
                            'difference_update', 'discard', 'remove', 'clear',
                            'pop', 'intersection_update',
                            'symmetric_difference_update'):
                shrink = c
            if isinstance(c, ast.Assign) and any(
                    dotted(t) == ('self', '_issued_oids') for t in c.targets
                    if isinstance(t, ast.Attribute)) and \
                    m.name != '__init__':
                shrink = c
            if shrink is not None:
                R.instance('DemoStorage.%s shrinks the issued set' % m.name)
                if m.name != 'tpc_finish':
                    R.violation((m.module.relpath, m.qualname,
                                 ' '.join(ast.unparse(shrink).split())[:80],
                                 shrink.lineno),
                                'DemoStorage.%s removes ids from the set of '
                                'issued ids: only a finished commit makes '
                                'them findable in the storage; after an '
                                'abort the issued set is all that keeps a '
                                'random re-draw from handing the same id '
                                'out again' % m.name)


OID_ASSIGN_MODULES = ('ZODB.Connection', 'ZODB.serialize', 'ZODB.ExportImport')


@rule('C20.R5', 'ids given to new objects by a connection always come from '
      'the storage\'s allocator', min_instances=4)
def r5(R):
    n = 0
    for mn in OID_ASSIGN_MODULES:
        m = R.prog.module(mn)
        funcs = list(m.functions.values()) + [
            f for c in m.classes.values() for f in c.methods.values()]
        for f in funcs:
            stores = [x for x in walk_local(f.node)
                      if isinstance(x, ast.Assign) and any(
                          isinstance(t, ast.Attribute) and t.attr == '_p_oid'
                          for t in x.targets)]
            if not stores:
                continue
            g, b, F = R.cfg(f, f.cls, max_depth=0)
            for s in stores:
                n += 1
                R.instance('%s: %s' % (f.short, ast.unparse(s)[:60]))
                pv = provenance(s.value, g.root, F)
                if prov_has(pv, 'call', lambda p: p[-1] == 'new_oid'):
                    continue
                if f.qualname == 'ZODB.Connection.Connection.exchange':
                    R.named_exception('Connection.exchange', 'deprecated '
                                      'ZClasses hook: reuses the id of the '
                                      'object it replaces')
                    continue
                if f.name == '_add':
                    # the id is a parameter: every caller passes new_oid()
                    ok = True
                    callers = 0
                    for cf in R.prog.all_functions():
                        for c in walk_local(cf.node):
                            if isinstance(c, ast.Call) and isinstance(
                                    c.func, ast.Attribute) and \
                                    c.func.attr == '_add' and \
                                    len(c.args) >= 2:
                                callers += 1
                                if dotted(c.args[1]) == ('z64',) and \
                                        R.prog.qualify(cf.module, ('z64',)) \
                                        == 'ZODB.utils.z64':
                                    R.named_exception(
                                        cf.short, 'creates the root object '
                                        'under the reserved id 0, which the '
                                        'allocator never issues')
                                    continue
                                if not any(isinstance(y, ast.Call) and
                                           isinstance(y.func, ast.Attribute)
                                           and y.func.attr == 'new_oid'
                                           for y in ast.walk(c.args[1])):
                                    ok = False
                    if ok and callers:
                        continue
                R.violation((f.module.relpath, f.qualname,
                             ' '.join(ast.unparse(s).split()), s.lineno),
                            'an object is given an id that does not come '
                            'from the storage\'s new_oid(): it can collide '
                            'with an existing or later allocated id')
    R.require(n >= 4, 'only %d _p_oid assignments found' % n)


# ------------------------------------------------------------------ C20.R6
@rule('C20.R6', 'a demo storage\'s new_oid looks at every set of ids its own '
      'store methods record an id in: an id the transaction in progress '
      'stores a (copied) record under is taken although no layer has the '
      'record yet', min_instances=1)
def r6(R):
    from ..twopc import DS
    ds = R.prog.cls(DS)
    recorded = {}
    for meth in ('store', 'storeBlob', 'restore', 'restoreBlob',
                 'deleteObject'):
        r = R.prog.find_method(ds, meth)
        if r is None:
            continue
        f = r[0]
        if f.cls is None or f.cls.name != 'DemoStorage':
            continue
        oid = [p for p in f.params if p != 'self'][0]
        for c in walk_local(f.node):
            if isinstance(c, ast.Call) and isinstance(
                    c.func, ast.Attribute) and c.func.attr == 'add' and \
                    dotted(c.func.value) and len(dotted(c.func.value)) == 2 \
                    and dotted(c.func.value)[0] == 'self' and c.args and \
                    isinstance(c.args[0], ast.Name) and c.args[0].id == oid:
                recorded.setdefault(dotted(c.func.value)[1], set()).add(meth)
    R.require(recorded, 'DemoStorage.store no longer records the ids it '
              'stores')
    f = R.method(ds, 'new_oid')
    consulted = set()
    for c in walk_local(f.node):
        if isinstance(c, ast.Compare) and len(c.ops) == 1 and isinstance(
                c.ops[0], (ast.In, ast.NotIn)):
            d_ = dotted(c.comparators[0])
            if d_ and len(d_) == 2 and d_[0] == 'self':
                consulted.add(d_[1])
    R.instance('DemoStorage.new_oid', consults=sorted(consulted),
               store_records_in=sorted(recorded))
    for attr, meths in sorted(recorded.items()):
        if attr not in consulted:
            R.violation(
                (f.module.relpath, f.qualname,
                 'self.%s not consulted' % attr),
                'DemoStorage.new_oid does not look at self.%s, in which %s '
                'record%s the id of a record of the transaction in '
                'progress: an id that a copied record is being stored under '
                '(and that this storage did not issue) is handed out as '
                'new; the store under it silently replaces the copied '
                'record' % (attr, ' and '.join(sorted(meths)),
                            's' if len(meths) == 1 else ''))


# ------------------------------------------------------------------ C20.R7
@rule('C20.R7', 'the set of ids the transaction in progress stores records '
      'under (which new_oid consults, C20.R6) is emptied only by the owner of '
      'the commit lock: after the acquire in tpc_begin, or behind the '
      'transaction-identity check of finish/abort -- never by a committer '
      'that is still waiting', props=['C10', 'C11'], min_instances=3)
def r7(R):
    from ..twopc import commit_lock_ops, identity_guard
    ds = R.prog.cls(DS)
    # the sets, as C20.R6 finds them: `self.<attr>.add(<oid parameter>)` in
    # a store method
    recorded = set()
    for meth in ('store', 'storeBlob', 'restore', 'restoreBlob',
                 'deleteObject'):
        r = R.prog.find_method(ds, meth)
        if r is None or r[0].cls is None or r[0].cls.name != 'DemoStorage':
            continue
        f = r[0]
        oid = [p for p in f.params if p != 'self'][0]
        for c in walk_local(f.node):
            # `self.<attr>.add(oid)` / `.append(oid)`: the ids stored under,
            # the ids of resolved conflicts (what the vote returns)
            if isinstance(c, ast.Call) and isinstance(
                    c.func, ast.Attribute) and c.func.attr in (
                        'add', 'append') and \
                    dotted(c.func.value) and len(dotted(c.func.value)) == 2 \
                    and dotted(c.func.value)[0] == 'self' and c.args and \
                    isinstance(c.args[0], ast.Name) and c.args[0].id == oid:
                recorded.add(dotted(c.func.value)[1])
    R.require(recorded, 'DemoStorage.store no longer records the ids it '
              'stores')
    EMPTIERS = {'clear', 'difference_update', 'intersection_update',
                'discard', 'remove', 'pop'}
    n = 0
    for name, f in sorted(ds.methods.items()):
        if name == '__init__':
            continue

        def empties(node, F):
            out = []
            for op in F.ops(node):
                if op.kind == 'store' and op.path is not None and \
                        len(op.path) == 2 and op.path[0] == 'self' and \
                        op.path[1] in recorded:
                    out.append(op)
                elif op.kind == 'call' and op.path is not None and \
                        len(op.path) == 3 and op.path[0] == 'self' and \
                        op.path[1] in recorded and op.path[2] in EMPTIERS:
                    out.append(op)
                elif op.kind in ('delitem', 'del') and \
                        op.path is not None and len(op.path) >= 2 and \
                        op.path[0] == 'self' and op.path[1] in recorded:
                    out.append(op)           # del self.<attr>[:]
            return out

        if not any(isinstance(x, ast.Attribute) and x.attr in recorded
                   for x in ast.walk(f.node)):
            continue
        g, b, F = R.cfg(f, ds, max_depth=0)
        if not any(empties(nd, F) for nd in g.nodes):
            continue
        n += 1
        R.instance('DemoStorage.%s empties %s' % (
            name, ', '.join('self.' + a for a in sorted(recorded))))

        def edge(node, st, lab, tgt, F=F):
            same = identity_guard(node, F)
            if same is not None and lab in ('T', 'F'):
                return st or lab == same
            if lab not in ('e', 'eb') and any(
                    k == 'acq' for k, _ in commit_lock_ops(F, node)):
                return True
            return st

        def at(node, st, F=F, name=name):
            if not st:
                for op in empties(node, F):
                    return Violation(
                        'DemoStorage.%s empties self.%s (`%s`) on a path on '
                        'which the caller is not known to own the commit '
                        'lock: a committer still WAITING for the lock wipes '
                        'what the transaction in progress has recorded -- '
                        'the ids it stores copied records under (new_oid() '
                        'then hands one out, and the store under it '
                        'replaces the copied record), the ids of the '
                        'conflicts it resolved (its vote returns none: the '
                        'writer keeps its un-merged copy under the new '
                        'serial, and its next commit loses the other '
                        'update)' % (
                            name, op.path[1],
                            ' '.join(ast.unparse(op.stmt).split())[:60]))
            return st

        vs, stats = explore(g, False, at=at, edge=edge)
        R.count(stats)
        for v in vs:
            R.violation(v.node, v.message, g, v.path, key='the ids of '
                        'the transaction in progress emptied without '
                        'owning the commit lock')
    R.require(n >= 3, 'expected tpc_begin, tpc_finish and tpc_abort to '
              'empty the set; found %d method(s)' % n)
