"""C15 -- historical connections read exactly the chosen past state, never
write."""

import ast

from ..engine import rule
from ..flow import PRUNE, Violation, explore, implied_atoms, path_ends, \
    path_is, prov_has, provenance
from ..model import FunctionInfo, dotted, walk_local

HIST = 'ZODB.mvccadapter.HistoricalStorageAdapter'
CONN = 'ZODB.Connection.Connection'
DBQ = 'ZODB.DB.DB'
WRITERS = {'store', 'storeBlob', 'restore', 'restoreBlob', 'deleteObject',
           'undo', 'pack', 'new_oid'}


def copy_methods(R, cls):
    """names in the (statically evaluated) _copy_methods tuple"""
    out = set()

    def ev(c, e):
        if isinstance(e, ast.Tuple):
            return {x.value for x in e.elts if isinstance(x, ast.Constant)}
        if isinstance(e, ast.BinOp) and isinstance(e.op, ast.Add):
            return ev(c, e.left) | ev(c, e.right)
        d = dotted(e)
        if d and d[-1] == '_copy_methods':
            if len(d) == 2:
                k = R.prog.resolve_dotted(c.module, d[:1])
                if hasattr(k, 'attrs') and '_copy_methods' in k.attrs:
                    return ev(k, k.attrs['_copy_methods'])
        return set()
    for k in R.prog.mro(cls):
        if hasattr(k, 'attrs') and '_copy_methods' in k.attrs:
            return ev(k, k.attrs['_copy_methods'])
    return out


@rule('C15.R1', 'a historical adapter loads strictly before its fixed bound, '
      'which is set once', min_instances=2)
def r1(R):
    cls = R.prog.cls(HIST)
    f = R.method(cls, 'load')
    g, b, F = R.cfg(f, cls, max_depth=0)
    n = 0
    for op in F.all_ops():
        if op.kind == 'call' and path_is(op.path,
                                         ('self', '_storage', 'loadBefore')):
            n += 1
            a = op.ast.args[1] if len(op.ast.args) > 1 else None
            R.instance('HistoricalStorageAdapter.load bound',
                       expr=ast.unparse(a) if a is not None else None)
            if not (a is not None and dotted(a) == ('self', '_before')):
                R.violation(op.node, 'the historical adapter loads before '
                            '`%s`, not before the bound the connection was '
                            'opened with' % (ast.unparse(a) if a is not None
                                             else '?'))
    if not n:
        R.violation((f.module.relpath, f.qualname, 'loadBefore'),
                    'historical load no longer goes through loadBefore')
    for m in cls.methods.values():
        for x in walk_local(m.node):
            if isinstance(x, (ast.Assign, ast.AugAssign)):
                tg = x.targets if isinstance(x, ast.Assign) else [x.target]
                if any(isinstance(t, ast.Attribute) and dotted(t) == (
                        'self', '_before') for t in tg):
                    R.instance('%s sets _before' % m.short)
                    if m.name != '__init__':
                        R.violation((m.module.relpath, m.qualname,
                                     ' '.join(ast.unparse(x).split()),
                                     x.lineno),
                                    'the bound of a historical connection is '
                                    'changed after it was opened')
    f2 = R.method(cls, 'poll_invalidations')
    rets = [x for x in walk_local(f2.node) if isinstance(x, ast.Return)]
    ok = all(isinstance(r.value, (ast.List, ast.Tuple)) and not r.value.elts
             for r in rets) and rets
    if not ok:
        R.violation((f2.module.relpath, f2.qualname, 'no invalidations'),
                    'a historical adapter reports invalidations: its fixed '
                    'snapshot must not follow later commits')


@rule('C15.R2', 'a historical adapter exposes no operation that writes',
      min_instances=4)
def r2(R):
    cls = R.prog.cls(HIST)
    names = copy_methods(R, cls)
    R.instance('HistoricalStorageAdapter._copy_methods', names=sorted(names))
    R.require(len(names) >= 8, '_copy_methods not evaluated: %s' % names)
    bad = names & WRITERS
    for nm in sorted(bad):
        R.violation((cls.module.relpath, cls.qualname, 'forwards ' + nm),
                    'the historical adapter forwards `%s` to the real '
                    'storage: a historical connection could write' % nm)
    for nm in ('new_oid', 'pack', 'store'):
        r = R.prog.find_attr(cls, nm)
        R.instance('HistoricalStorageAdapter.%s' % nm)
        ok = False
        if r is not None and isinstance(r[0], FunctionInfo):
            body = [s for s in r[0].node.body
                    if not isinstance(s, ast.Expr)]
            ok = len(body) == 1 and isinstance(body[0], ast.Raise) and \
                'ReadOnlyError' in ast.unparse(body[0])
        if not ok:
            R.violation((cls.module.relpath, cls.qualname, 'stub ' + nm),
                        '`%s` of the historical adapter is not the raising '
                        'read-only stub' % nm)
    ro = R.prog.find_method(cls, 'isReadOnly')
    if ro is None or 'return True' not in ast.unparse(ro[0].node):
        R.violation((cls.module.relpath, cls.qualname, 'isReadOnly'),
                    'the historical adapter does not report itself '
                    'read-only')


@rule('C15.R3', 'a commit through a historical connection is refused before '
      'anything is stored', min_instances=1)
def r3(R):
    cls = R.prog.cls(CONN)
    f = R.method(cls, '_commit')
    g, b, F = R.cfg(f, cls, max_depth=0)
    R.instance('Connection._commit')
    seen = [0]

    def edge(node, st, lab, tgt):
        if node.kind == 'test' and lab in ('T', 'F'):
            for e, truth in implied_atoms(node.ast, lab):
                if isinstance(e, ast.Compare) and dotted(e.left) == (
                        'self', 'before') and isinstance(
                            e.comparators[0], ast.Constant) and \
                        e.comparators[0].value is None:
                    seen[0] += 1
                    historical = isinstance(e.ops[0], ast.IsNot) == truth
                    return 'historical' if historical else 'live'
                if dotted(e) == ('self', 'before'):
                    seen[0] += 1
                    return 'historical' if truth else 'live'
        if st != 'live':
            for op in F.ops(node):
                if op.kind == 'call' and op.path and op.path[0] == 'self' \
                        and op.path[-1] in ('_store_objects',
                                            '_importDuringCommit', 'store',
                                            'storeBlob'):
                    return Violation(
                        'objects are stored %s: a historical connection '
                        'could commit' % (
                            'although the connection is historical'
                            if st == 'historical' else
                            'before checking whether the connection is '
                            'historical'))
        return st

    def at(node, st):
        if st == 'historical' and node.id == g.exit_return:
            return Violation('_commit returns normally for a historical '
                             'connection')
        return st

    vs, stats = explore(g, 'unknown', at=at, edge=edge)
    R.count(stats)
    R.require(seen[0] or vs, 'no test of self.before in _commit')
    for v in vs:
        R.violation(v.node if v.node.id != g.exit_return else (
            f.module.relpath, f.qualname, 'historical check'), v.message, g,
            v.path)


@rule('C15.R4', 'at/before are normalised to one exclusive bound, and a '
      'bound later than the newest transaction is refused', min_instances=2)
def r4(R):
    f = R.prog.func('ZODB.DB.getTID')
    R.instance('getTID')
    src = ast.unparse(f.node)
    ok_at = any(isinstance(x, ast.Assign) and any(
        isinstance(t, ast.Name) and t.id == 'before' for t in x.targets) and
        isinstance(x.value, ast.Call) and 'laterThan' in ast.unparse(x.value)
        and ast.unparse(x.value).count('at') >= 2
        for x in walk_local(f.node))
    if not ok_at:
        R.violation((f.module.relpath, f.qualname, 'at -> before'),
                    'an `at` point is no longer turned into the exclusive '
                    'bound just after it (at.laterThan(at)): the state AT '
                    'the transaction is excluded, or a later one included')
    both = any(isinstance(x, ast.Raise) for x in walk_local(f.node))
    if not both:
        R.violation((f.module.relpath, f.qualname, 'at and before'),
                    'passing both `at` and `before` is no longer refused')
    db = R.prog.cls(DBQ)
    o = R.method(db, 'open')
    g, b, F = R.cfg(o, db, max_depth=0)
    R.instance('DB.open future check')
    tests = []
    for nid in g.reachable():
        node = g.nodes[nid]
        if node.kind == 'test':
            cmps = [c for c in ast.walk(node.ast) if isinstance(c, ast.Compare)
                    and len(c.ops) == 1 and isinstance(c.left, ast.Name) and
                    c.left.id == 'before' and 'lastTransaction' in
                    ast.unparse(c.comparators[0])]
            if cmps:
                tests.append((node, cmps))
    if not tests:
        R.violation((o.module.relpath, o.qualname, 'future check'),
                    'DB.open no longer compares the bound with the newest '
                    'transaction: a connection can be opened "in the future" '
                    'and then silently follows later commits')
        return
    node, cmps = tests[0]
    for c in cmps:
        if not isinstance(c.ops[0], ast.Gt):
            R.violation(node, 'the future check uses `%s`: a bound equal to '
                        'last tid + 1 (the present) must be accepted and '
                        'anything later refused' % ast.unparse(c))
    pv = provenance(ast.Name(id='before', ctx=ast.Load()), g.root, F)
    if not prov_has(pv, 'call', lambda p: p[-1].endswith('getTID')):
        R.violation(node, 'the bound checked is not the normalised one')
    raises = False
    for t, lab in node.succ:
        if lab == 'T':
            stack, seen = [t], set()
            while stack:
                i = stack.pop()
                if i in seen:
                    continue
                seen.add(i)
                nd = g.nodes[i]
                if nd.kind == 'raise':
                    raises = True
                    break
                if nd.kind in ('test', 'stmt'):
                    stack.extend(x for x, l in nd.succ if l != 'e')
    if not raises:
        R.violation(node, 'a bound in the future is detected but not refused')


@rule('C15.R5', 'connections to other databases opened from a historical '
      'connection get exactly the same bound', min_instances=1)
def r5(R):
    cls = R.prog.cls(CONN)
    f = R.method(cls, 'get_connection')
    g, b, F = R.cfg(f, cls, max_depth=0)
    n = 0
    for c in walk_local(f.node):
        if isinstance(c, ast.Call) and isinstance(c.func, ast.Attribute) and \
                c.func.attr == 'open':
            n += 1
            kws = {k.arg: k.value for k in c.keywords}
            R.instance('Connection.get_connection open()',
                       before=ast.unparse(kws['before'])
                       if 'before' in kws else None)
            where = (f.module.relpath, f.qualname,
                     'open(... before=...)', c.lineno)
            if 'before' not in kws:
                R.violation(where, 'the secondary connection is opened '
                            'without the historical bound: it is a live, '
                            'writable connection under a historical one')
            elif dotted(kws['before']) != ('self', 'before'):
                R.violation(where, 'the secondary connection is opened with '
                            '`before=%s`, not with the bound of this '
                            'connection: under some condition it is a live, '
                            'writable connection that follows later commits' %
                            ast.unparse(kws['before']))
            if 'transaction_manager' in kws and dotted(
                    kws['transaction_manager']) != (
                        'self', 'transaction_manager'):
                R.violation(where, 'the secondary connection does not share '
                            'the transaction manager')
    R.require(n >= 1, 'get_connection no longer opens a connection')


# ------------------------------------------------------------------ C15.R6
@rule('C15.R6', 'a datetime given as the historical point is turned into a '
      'transaction id through its UTC form (an aware datetime with an '
      'offset names another wall-clock reading)', min_instances=1)
def r6(R):
    f = R.prog.func('ZODB.DB.toTimeStamp')
    dt = f.params[0]
    R.instance('ZODB.DB.toTimeStamp')
    utc = any(isinstance(c, ast.Call) and isinstance(
        c.func, ast.Attribute) and c.func.attr in (
            'utctimetuple', 'astimezone', 'utcoffset', 'timestamp')
        for c in walk_local(f.node))
    local_fields = [x for x in walk_local(f.node) if isinstance(
        x, ast.Attribute) and isinstance(x.value, ast.Name) and
        x.value.id == dt and x.attr in ('year', 'month', 'day', 'hour',
                                        'minute')]
    if not utc or (local_fields and not any(
            isinstance(c, ast.Call) and isinstance(c.func, ast.Attribute) and
            c.func.attr in ('utcoffset', 'astimezone')
            for c in walk_local(f.node))):
        x = local_fields[0] if local_fields else f.node
        R.violation(
            (f.module.relpath, f.qualname, 'time stamp of a datetime',
             getattr(x, 'lineno', None)),
            'toTimeStamp builds the time stamp from the datetime\'s own '
            'fields without normalising to UTC: 12:30+02:00 opens the state '
            'of 12:30 UTC instead of 10:30 UTC; past moments with a positive '
            'offset are refused as "in the future", future ones with a '
            'negative offset accepted',
            key='datetime not normalised to UTC')


# ------------------------------------------------------------------ C15.R7
@rule('C15.R7', 'a historical connection is refused when its point is later '
      'than the LAST COMMITTED transaction (ids are assigned at begin: a '
      'commit with an earlier id may still be in flight below any bound the '
      'clock alone would allow, and a historical connection never gets '
      'invalidations)', props=['C02'], min_instances=1)
def r7(R):
    cls = R.prog.cls('ZODB.DB.DB')
    f = R.method(cls, 'open')
    n = 0
    ok = False
    for t in walk_local(f.node):
        if not isinstance(t, ast.If) or not any(
                isinstance(x, ast.Raise) for s_ in t.body
                for x in ast.walk(s_)):
            continue
        if not any(isinstance(x, ast.Constant) and isinstance(
                x.value, str) and 'future' in x.value
                for s_ in t.body for x in ast.walk(s_)):
            continue
        n += 1
        R.instance('DB.open: %s' % ' '.join(ast.unparse(t.test).split())[:70])
        # a comparison whose one side IS the last transaction (not a value
        # computed from it) -- as a conjunct of the refusing test
        # (anywhere in the test, whatever its spelling: a conjunction, or
        # the negated disjunction De Morgan makes of it)
        for c in ast.walk(t.test):
            if isinstance(c, ast.Compare) and len(c.ops) == 1 and any(
                    isinstance(s_, ast.Call) and dotted(s_.func) and
                    dotted(s_.func)[-1] == 'lastTransaction' and
                    not s_.args for s_ in [c.left, c.comparators[0]]):
                ok = True
        if not ok:
            R.violation(
                (f.module.relpath, f.qualname,
                 ' '.join(ast.unparse(t.test).split()), t.lineno),
                'DB.open refuses a historical connection "in the future" '
                'without holding the point against the last committed '
                'transaction: a point between that and the clock is '
                'accepted, a writer stopped between begin and finish '
                'commits BELOW it afterwards -- the connection mixes what '
                'it had cached with what it loads later (it never receives '
                'invalidations)',
                key='future test without the last committed transaction')
    R.require(n >= 1, 'DB.open no longer refuses points in the future')
