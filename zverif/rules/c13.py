"""C13 -- blob data follows its object record."""

import ast

from ..engine import rule
from ..flow import PRUNE, Violation, explore, implied_atoms, path_ends, \
    path_is, prov_has, \
    provenance, raising_node, store_value, truth_test
from ..model import dotted, walk_local
from ..twopc import BLOBSTORAGE, FS, identity_guard

CONN = 'ZODB.Connection.Connection'
MIXIN = 'ZODB.blob.BlobStorageMixin'
PACKER = 'ZODB.FileStorage.fspack.FileStoragePacker'


def calls_method(F, node, name):
    if node.kind == 'call' and node.info['target'].func.name == name:
        return True
    for op in F.ops(node):
        if op.kind == 'call' and op.path is not None and \
                op.path[-1] == name and not op.inlined:
            return True
    return False


@rule('C13.R1', 'abort always removes the blob files of the transaction; '
      'finish always forgets the list', min_instances=4)
def r1(R):
    for q in (FS, BLOBSTORAGE):
        cls = R.prog.cls(q)
        for meth, hook in (('tpc_abort', '_blob_tpc_abort'),
                           ('tpc_finish', '_blob_tpc_finish')):
            f = R.method(cls, meth)
            g, b, F = R.cfg(f, cls)
            name = '%s.%s' % (cls.name, meth)
            R.instance(name, hook=hook, cfg_nodes=len(g.reachable()))
            delegated = q == BLOBSTORAGE and meth == 'tpc_finish'

            def edge(node, st, lab, tgt, F=F, hook=hook, meth=meth,
                     delegated=delegated):
                matched, cleaned = st
                same = identity_guard(node, F)
                if same is not None and lab in ('T', 'F'):
                    return (lab == same, cleaned)
                if delegated and matched is None and lab != 'e' and \
                        calls_method(F, node, meth):
                    matched = True       # the delegate raises otherwise
                if calls_method(F, node, hook) and lab != 'e':
                    cleaned = True
                if lab != 'e':
                    for op in F.ops(node):
                        # the wrapper detaches / resets the list itself
                        if 'finish' in hook and op.kind == 'store' and \
                                path_is(op.path, ('self', 'dirty_oids')):
                            cleaned = True
                        if 'abort' in hook and op.kind == 'call' and \
                                path_is(op.path,
                                        ('self', '_blob_remove_files')):
                            cleaned = True
                return (matched, cleaned)

            def at(node, st, g=g, name=name, hook=hook):
                matched, cleaned = st
                if node.id == g.exit_return and matched is True and \
                        not cleaned:
                    return Violation(
                        '%s can complete for the transaction being '
                        'committed without calling %s: %s' % (
                            name, hook,
                            'blob files already moved into place stay in the '
                            'blob directory for ever'
                            if 'abort' in hook else
                            'the dirty list survives and a later abort '
                            'removes committed blob files'))
                return st

            vs, stats = explore(g, (None, False), at=at, edge=edge)
            R.count(stats)
            for v in vs:
                R.violation((cls.module.relpath, cls.qualname + '.' + meth,
                             hook), v.message, g, v.path, instance=name)


@rule('C13.R2', 'storeBlob / restoreBlob stage the record before the blob '
      'file is moved into place', min_instances=2)
def r2(R):
    cls = R.prog.cls(FS)
    for meth, rec in (('storeBlob', 'store'), ('restoreBlob', 'restore')):
        f = R.method(cls, meth)
        g, b, F = R.cfg(f, cls, max_depth=0)
        R.instance('%s.%s' % (f.cls.name, meth))
        seen = {'rec': 0, 'file': 0}

        def edge(node, st, lab, tgt, F=F, rec=rec, seen=seen, meth=meth):
            for op in F.ops(node):
                if op.kind == 'call' and path_is(op.path, ('self', rec)):
                    seen['rec'] += 1
                    if lab != 'e':
                        st = True
                if op.kind == 'call' and path_is(
                        op.path, ('self', '_blob_storeblob')):
                    seen['file'] += 1
                    if not st:
                        return Violation(
                            '%s moves the blob file into the committed '
                            'namespace before the record is staged: a store '
                            'that raises (conflict, wrong transaction) '
                            'leaves the file behind' % meth)
            return st

        vs, stats = explore(g, False, edge=edge)
        R.count(stats)
        R.require(vs or (seen['rec'] and seen['file']),
                  '%s: record/file steps not recognised' % meth)
        for v in vs:
            R.violation(v.node, v.message, g, v.path)


WRITE_MODES = set('wax+')


def committed_name(expr, fr, F):
    pv = provenance(expr, fr, F)
    return prov_has(pv, 'call', lambda p: p[-1] == 'getBlobFilename')


def creation_ops(F, node):
    """Ops of `node` that create a file in the committed blob namespace:
    -> [(op, filename expr)]"""
    out = []
    fr = node.frame
    for op in F.ops(node):
        if op.kind != 'call' or op.path is None:
            continue
        last = op.path[-1]
        a = op.ast.args
        tgt = None
        if last.endswith('rename_or_copy_blob') or last.endswith(
                'link_or_copy') or op.path in (('@os', 'rename'),
                                               ('@os', 'link'),
                                               ('@shutil', 'copy'),
                                               ('@shutil', 'copyfile'),
                                               ('@shutil', 'move')):
            tgt = a[1] if len(a) > 1 else None
        elif op.path == ('@open',) and a:
            mode = a[1] if len(a) > 1 else None
            for kw in op.ast.keywords:
                if kw.arg == 'mode':
                    mode = kw.value
            if isinstance(mode, ast.Constant) and \
                    set(str(mode.value)) & WRITE_MODES:
                tgt = a[0]
        if tgt is not None and committed_name(tgt, fr, F):
            out.append((op, tgt))
    return out


def filename_call(expr, fr, F):
    """the getBlobFilename(...) call an expression derives from"""
    defs = F.b.local_defs(fr.func)
    seen = set()
    todo = [expr]
    while todo:
        e = todo.pop()
        for n in ast.walk(e):
            if isinstance(n, ast.Call) and isinstance(n.func, ast.Attribute) \
                    and n.func.attr == 'getBlobFilename':
                return n
            if isinstance(n, ast.Name) and n.id not in seen:
                seen.add(n.id)
                todo.extend(d for d in defs.get(n.id, [])
                            if isinstance(d, ast.AST))
    return None


@rule('C13.R3', 'a blob file is entered in the dirty list before it is '
      'created in the committed namespace', props=['C06', 'C05'], min_instances=2)
def r3(R):
    sites = 0
    for q, meth in ((MIXIN, '_blob_storeblob'), (BLOBSTORAGE, 'undo')):
        cls = R.prog.cls(q)
        f = R.method(cls, meth)
        g, b, F = R.cfg(f, cls, max_depth=0)

        def edge(node, st, lab, tgt, F=F):
            if node.kind == 'for' and lab == 'T':
                return None
            for op in F.ops(node):
                if op.kind == 'call' and path_is(
                        op.path, ('self', 'dirty_oids', 'append')):
                    a = op.ast.args[0] if op.ast.args else None
                    if isinstance(a, ast.Tuple):
                        st = tuple(ast.dump(e) for e in a.elts)
                    else:
                        st = ('?',)
            for op, tgt_expr in creation_ops(F, node):
                fc = filename_call(tgt_expr, node.frame, F)
                want = tuple(ast.dump(e) for e in fc.args) if fc else None
                if st is None:
                    return Violation(
                        'the file `%s` is created in the committed blob '
                        'namespace before (oid, tid) is entered in the dirty '
                        'list: a failure half way (copy, chmod) leaves a file '
                        'that no abort removes' % ast.unparse(tgt_expr))
                if want is not None and st != want:
                    return Violation(
                        'the dirty-list entry %s does not name the file that '
                        'is created (%s)' % (st, want))
            return st

        vs, stats = explore(g, None, edge=edge)
        R.count(stats)
        for nid in sorted(g.reachable()):
            for op, tgt_expr in creation_ops(F, g.nodes[nid]):
                sites += 1
                R.instance('%s.%s creates %s' % (cls.name, meth,
                                                 ast.unparse(tgt_expr)))
        for v in vs:
            R.violation(v.node, v.message, g, v.path)
    R.require(sites >= 2, 'committed-namespace creation sites vanished (%d)' %
              sites)


def committed_source(expr, fr, F):
    pv = provenance(expr, fr, F)
    return (('attr', '_p_blob_committed') in pv or
            prov_has(pv, 'call', lambda p: p[-1] in (
                'loadBlob', 'getBlobFilename', 'committed')))


@rule('C13.R4', 'committed blob files are only ever opened for reading, and '
      'the in-memory blob never moves or removes them', props=['C12'],
      min_instances=5)
def r4(R):
    n = 0
    mods = ('ZODB.blob', 'ZODB.Connection', 'ZODB.FileStorage.FileStorage',
            'ZODB.DemoStorage', 'ZODB.ExportImport')
    for mn in mods:
        m = R.prog.module(mn)
        funcs = list(m.functions.values()) + [
            f for c in m.classes.values() for f in c.methods.values()]
        for f in funcs:
            if not any(isinstance(x, ast.Call) and dotted(x.func) and
                       dotted(x.func)[-1] in ('open', 'BlobFile')
                       for x in walk_local(f.node)):
                continue
            g, b, F = R.cfg(f, f.cls, max_depth=0)

            def edge(node, st, lab, tgt, F=F):
                if node.kind == 'test' and lab in ('T', 'F'):
                    for e, truth in implied_atoms(node.ast, lab):
                        if isinstance(e, ast.Compare) and \
                                len(e.ops) == 1 and \
                                isinstance(e.ops[0], (ast.Eq, ast.NotEq)) and \
                                isinstance(e.left, ast.Name) and \
                                e.left.id == 'mode' and \
                                isinstance(e.comparators[0], ast.Constant):
                            if isinstance(e.ops[0], ast.Eq) == truth:
                                return e.comparators[0].value
                return st

            opens = []

            def at(node, st, F=F, f=f, opens=opens):
                for op in F.ops(node):
                    if op.kind != 'call' or op.path is None:
                        continue
                    a = op.ast.args
                    if op.path == ('@open',) and a:
                        name, mode = a[0], (a[1] if len(a) > 1 else None)
                    elif op.path[-1].endswith('BlobFile') and len(a) >= 2:
                        name, mode = a[0], a[1]
                    else:
                        continue
                    if not committed_source(name, node.frame, F):
                        continue
                    opens.append(node.id)
                    if any(t is not None for o, t in creation_ops(F, node)):
                        continue       # creation site (C13.R3)
                    if mode is None:
                        continue
                    if isinstance(mode, ast.Constant):
                        mv = mode.value
                    elif isinstance(mode, ast.Name) and mode.id == 'mode' \
                            and st is not None:
                        mv = st
                    else:
                        mv = None
                    if mv is None or set(str(mv)) - set('rb'):
                        return Violation(
                            'a committed blob file (`%s`) is opened with '
                            'mode %s: committed blob data must never be '
                            'modified in place' % (
                                ast.unparse(name),
                                repr(mv) if mv is not None
                                else ast.unparse(mode)))
                return st

            vs, stats = explore(g, None, at=at, edge=edge)
            R.count(stats)
            for nid in sorted(set(opens)):
                n += 1
                R.instance('%s opens committed blob' % f.short,
                           stmt=g.nodes[nid].text(70))
            for v in vs:
                R.violation(v.node, v.message, g, v.path)
    R.require(n >= 5, 'only %d opens of committed blob files found' % n)
    # ... and the in-memory Blob never moves or removes the file its
    # committed (or savepoint) data lives in: the storage -- or the savepoint
    # store, whose records a rollback returns to -- owns that file
    blob = R.prog.cls('ZODB.blob.Blob')
    MOVERS = {('@os', 'replace'), ('@os', 'rename'), ('@os', 'remove'),
              ('@os', 'unlink'), ('@shutil', 'move'),
              ('@ZODB.blob.remove_committed',),
              ('@ZODB.blob.rename_or_copy_blob',)}
    nm = 0
    for name, f in sorted(blob.methods.items()):
        g, b, F = R.cfg(f, blob, max_depth=0)
        # locals flow-insensitively bound to the committed file name
        for nid in sorted(g.reachable()):
            node = g.nodes[nid]
            for op in F.ops(node):
                if op.kind != 'call' or op.path is None:
                    continue
                if tuple(op.path) not in MOVERS and not (
                        op.path[-1] in ('remove_committed',
                                        'rename_or_copy_blob')):
                    continue
                nm += 1
                a = op.ast.args[0] if op.ast.args else None
                if a is None:
                    continue
                pv = provenance(a, node.frame, F)
                if ('attr', '_p_blob_committed') in pv or (
                        'path', ('self', '_p_blob_committed')) in pv:
                    R.violation(
                        node, 'Blob.%s moves or removes the file named by '
                        '_p_blob_committed (`%s`): that file belongs to the '
                        'storage, or to a savepoint record a rollback '
                        'returns to -- after a rollback the blob shows the '
                        'previously committed bytes (or POSKeyError), and '
                        'the commit stores them' % (name, ast.unparse(a)))
    R.instance('Blob: %d move/remove call(s) looked at' % nm)


@rule('C13.R5', 'after a pack only the blob files the packer listed are '
      'removed', props=['C07'], min_instances=2)
def r5(R):
    cls = R.prog.cls(FS)
    f = R.method(cls, '_remove_blob_files_tagged_for_removal_during_pack')
    g, b, F = R.cfg(f, cls, max_depth=0)
    n = 0
    # the locals that stand for "remove (or move away) this path": a nested
    # function, or an alias of remove_committed / remove_committed_dir or of
    # another such local -- whatever they are called
    defs = b.local_defs(f)
    nested_rm = {
        x.name for x in walk_local(f.node)
        if isinstance(x, ast.FunctionDef) and x is not f.node and any(
            isinstance(c, ast.Call) and dotted(c.func) in (
                ('os', 'rename'), ('os', 'remove'), ('os', 'unlink'),
                ('shutil', 'rmtree')) for c in ast.walk(x))}
    handlers = set()
    changed = True
    while changed:
        changed = False
        for name, ds in defs.items():
            if name in handlers or not ds:
                continue
            ok = True
            for d in ds:
                if d is None and name in nested_rm:
                    continue
                dn = dotted(d) if isinstance(d, ast.AST) else None
                if dn and (dn[-1] in ('remove_committed',
                                      'remove_committed_dir') or
                           (len(dn) == 1 and dn[0] in handlers)):
                    continue
                ok = False
            if ok:
                handlers.add(name)
                changed = True
    for op in F.all_ops():
        if op.kind != 'call' or op.path is None:
            continue
        last = op.path[-1]
        is_rm = (last in handlers and op.path[0] in ('%local',)) or \
            last.endswith('remove_committed') or \
            last.endswith('remove_committed_dir') or \
            op.path in (('@os', 'remove'), ('@os', 'unlink'),
                        ('@shutil', 'rmtree'))
        if not is_rm or not op.ast.args:
            continue
        if op.node.frame.func is not f:
            continue                     # inside a helper: its caller counts
        a = op.ast.args[0]
        pv = provenance(a, op.node.frame, F)
        if any(isinstance(x, ast.Constant) and x.value == '.removed'
               for x in ast.walk(a)):
            continue                     # the list file itself
        n += 1
        R.instance('removal: %s' % ast.unparse(op.ast)[:60])
        # the path is computed from a line of the packer's list
        from_list = prov_has(pv, 'call', lambda p: p[-1] in (
            'unhexlify',)) and prov_has(pv, 'call', lambda p: p[-1] in (
                'getPathForOID', 'getBlobFilename'))
        if not from_list:
            R.violation(op.node, 'a blob file or directory that the packer '
                        'did not list in `.removed` is removed after the '
                        'pack (`%s`)' % ast.unparse(op.ast)[:60])
    R.require(n >= 2, 'no removal sites found')


@rule('C13.R6', 'the working file a blob hands over at commit is consumed by '
      'the storage or removed on every exit', min_instances=1)
def r6(R):
    cls = R.prog.cls(CONN)
    f = R.method(cls, '_store_objects')
    g, b, F = R.cfg(f, cls, max_depth=2,
                    inline=lambda t, fr: t.func.name.startswith(
                        '_store_objects'))
    seen = [0]

    def holder(node):
        for op in F.ops(node):
            if op.kind == 'call' and op.path is not None and \
                    op.path[-1] == '_uncommitted':
                s = op.stmt
                if isinstance(s, ast.Assign) and isinstance(
                        s.targets[0], ast.Name):
                    return s.targets[0].id
        return None

    def edge(node, st, lab, tgt):
        h = holder(node)
        if h is not None:
            seen[0] += 1
            if lab != 'e':
                return h
            return st
        if st is None:
            return st
        if node.kind == 'test' and lab in ('T', 'F'):
            e, truthy_when_true, none_test = truth_test(node.ast)
            if isinstance(e, ast.Name) and e.id == st:
                truthy = truthy_when_true if lab == 'T' else \
                    not truthy_when_true
                if not truthy:
                    return None         # there is no file
            t = node.ast
            pol = True
            while isinstance(t, ast.UnaryOp) and isinstance(t.op, ast.Not):
                t, pol = t.operand, not pol
            if isinstance(t, ast.Call) and dotted(t.func) == (
                    'os', 'path', 'exists') and t.args and \
                    isinstance(t.args[0], ast.Name) and t.args[0].id == st:
                if (lab == 'T') != pol:
                    return None         # the file is already gone
        for op in F.ops(node):
            if op.kind != 'call' or op.path is None:
                continue
            args = [a.id for a in op.ast.args if isinstance(a, ast.Name)]
            if op.path[-1] == 'storeBlob' and st in args and lab != 'e':
                return None             # consumed
            if op.path in (('@os', 'remove'), ('@os', 'unlink')) and \
                    st in args:
                return None             # removed
            if op.path[-1].endswith('remove_committed') and st in args:
                return None
        return st

    def at(node, st):
        if st is not None and node.id in (g.exit_raise, g.exit_return):
            return Violation(
                'the blob working file handed over by `_uncommitted()` is '
                'neither taken by the storage nor removed when the commit '
                'step fails: it stays in the blob temporary directory for '
                'ever' if node.id == g.exit_raise else
                'the blob working file handed over by `_uncommitted()` is '
                'dropped without being stored or removed')
        if st is not None and node.kind == 'for' and \
                node.frame.func.name.startswith('_store_objects') and \
                isinstance(node.ast, ast.For):
            return Violation('the blob working file handed over by '
                             '`_uncommitted()` is forgotten at the next '
                             'object')
        return st

    vs, stats = explore(g, None, at=at, edge=edge)
    R.count(stats)
    R.instance('Connection._store_objects', handover_sites=seen[0])
    R.require(seen[0] or vs, 'no `_uncommitted()` hand-over found')
    for v in vs:
        n = raising_node(g, v.path) if v.node.id == g.exit_raise else v.node
        R.violation(n, v.message, g, v.path)


@rule('C13.R7', 'every entry the packer writes to the blob removal list '
      'names the revision (oid and tid) it drops', props=['C07'],
      min_instances=1)
def r7(R):
    cls = R.prog.cls(PACKER)
    n = 0
    for f in cls.methods.values():
        if not any(isinstance(x, ast.Attribute) and x.attr == 'blob_removed'
                   for x in walk_local(f.node)):
            continue
        g, b, F = R.cfg(f, cls, max_depth=0)
        for op in F.all_ops():
            if op.kind == 'call' and path_is(
                    op.path, ('self', 'blob_removed', 'write')):
                n += 1
                a = op.ast.args[0] if op.ast.args else None
                attrs = {x.attr for x in ast.walk(a)
                         if isinstance(x, ast.Attribute)} if a else set()
                R.instance('%s writes %s' % (f.short, ast.unparse(a)[:50]))
                if not ({'oid', 'tid'} <= attrs):
                    R.violation(op.node, 'the packer tags a whole object '
                                '(bare oid) for blob removal while copying '
                                'the pre-pack-time records: it cannot know '
                                'yet whether the object is written again '
                                'after the pack time, and the files of those '
                                'later revisions are removed with the '
                                'directory')
    R.require(n >= 1, 'no writes to the blob removal list found')


@rule('C13.R8', 'the packer tags a blob revision for removal only after '
      'comparing it with the revision it keeps (two records of one '
      'transaction share the blob file)', props=['C07', 'C08'], min_instances=1)
def r8(R):
    cls = R.prog.cls(PACKER)
    f = R.method(cls, 'copyDataRecords')
    g, b, F = R.cfg(f, cls, max_depth=0)
    writes = [0]

    def compares_with_kept(node):
        """evaluates <header of the reachable record>.tid == h.tid"""
        if node.ast is None:
            return False
        for c in ast.walk(node.ast):
            if isinstance(c, ast.Compare) and len(c.ops) == 1 and \
                    isinstance(c.ops[0], (ast.Eq, ast.NotEq)):
                sides = [c.left, c.comparators[0]]
                if all(isinstance(x, ast.Attribute) and x.attr == 'tid'
                       for x in sides):
                    pv = provenance(c, node.frame, F)
                    if any(k == 'path' and v[-1] == 'reachable'
                           for k, v in pv) or prov_has(
                            pv, 'call', lambda p: 'reachable' in p):
                        return True
        return False

    def no_kept_revision(node, lab):
        """branch establishing that there is no reachable record of the
        object at all"""
        from ..flow import implied_atoms
        if node.kind != 'test' or lab not in ('T', 'F'):
            return False
        for e, truth in implied_atoms(node.ast, lab):
            if isinstance(e, ast.Name) and not truth:
                ds = F.b.local_defs(node.frame.func).get(e.id, [])
                if len(ds) == 1 and isinstance(ds[0], ast.Call) and \
                        isinstance(ds[0].func, ast.Attribute) and \
                        ds[0].func.attr == 'get' and dotted(
                            ds[0].func.value) and dotted(
                                ds[0].func.value)[-1] == 'reachable':
                    return True
        return False

    def edge(node, st, lab, tgt):
        if node.kind == 'loophead':
            return False
        if compares_with_kept(node) or no_kept_revision(node, lab):
            return True
        return st

    def at(node, st):
        for op in F.ops(node):
            if op.kind == 'call' and path_is(
                    op.path, ('self', 'blob_removed', 'write')):
                writes[0] += 1
                if not st:
                    return Violation(
                        'a blob revision is tagged for removal on a path '
                        'that never compared its tid with the tid of the '
                        'revision that is kept: when a transaction wrote the '
                        'object twice (multi-undo), the file of the kept '
                        'revision is deleted')
        return st

    vs, stats = explore(g, False, at=at, edge=edge)
    R.count(stats)
    R.instance('FileStoragePacker.copyDataRecords', removal_writes=writes[0])
    R.require(writes[0] or vs, 'no removal-list writes')
    for v in vs:
        R.violation(v.node, v.message, g, v.path)


@rule('C13.R9', 'the blob wrapper touches the shared list of dirty blob '
      'files only while the transaction still holds the commit lock, i.e. '
      'not after the wrapped storage\'s tpc_abort / tpc_finish returned',
      props=['C05'], min_instances=2)
def r9(R):
    cls = R.prog.cls(BLOBSTORAGE)
    for meth in ('tpc_abort', 'tpc_finish'):
        f = R.method(cls, meth)
        g, b, F = R.cfg(f, cls, max_depth=3)
        R.instance('BlobStorage.%s' % meth, cfg_nodes=len(g.reachable()))
        seen = [0]

        def touches(node):
            if node.ast is None or node.kind in ('call', 'callret', 'entry',
                                                 'def'):
                return False
            a = node.ast
            if node.kind in ('acq', 'rel', 'withenter', 'withexit',
                             'handler', 'loophead', 'for', 'reraise'):
                return False
            for x in ast.walk(a):
                if isinstance(x, ast.Attribute) and x.attr == 'dirty_oids' \
                        and dotted(x) and F.canon(x, node.frame) == (
                            'self', 'dirty_oids'):
                    return True
            return False

        def edge(node, st, lab, tgt, meth=meth):
            for op in F.ops(node):
                if op.kind == 'call' and op.path and len(op.path) == 3 and \
                        op.path[0] == 'self' and op.path[2] == meth and \
                        not op.inlined:
                    seen[0] += 1
                    return True          # the commit lock has been released
            return st

        def at(node, st, meth=meth):
            if st and touches(node):
                return Violation(
                    'BlobStorage.%s uses the shared dirty-blob list after '
                    'the wrapped storage\'s %s returned, i.e. after the '
                    'commit lock was released: a transaction that was '
                    'waiting in tpc_begin can have stored a blob meanwhile, '
                    'and this cleanup then %s' % (
                        meth, meth,
                        'removes that transaction\'s blob file (it commits a '
                        'record without a file)' if meth == 'tpc_abort' else
                        'forgets that transaction\'s entry (its file stays '
                        'for ever if it aborts)'))
            return st

        vs, stats = explore(g, False, at=at, edge=edge)
        R.count(stats)
        R.require(seen[0] or vs, 'BlobStorage.%s no longer delegates' % meth)
        for v in vs:
            R.violation(v.node, v.message, g, v.path, at_root=True)


# ------------------------------------------------------------------ C13.R10
def _contains_call(e, name):
    return any(isinstance(c, ast.Call) and dotted(c.func) and
               dotted(c.func)[-1] == name for c in ast.walk(e))


@rule('C13.R10', 'every undo record of a blob revision gets its own copy of '
      'the blob file: once the restored state is found to be a blob record '
      'the copy is made, whatever else holds', props=['C06'],
      min_instances=1)
def r10(R):
    cls = R.prog.cls(FS)
    f = R.method(cls, '_txn_undo_write')
    g, b, F = R.cfg(f, cls, max_depth=0)
    R.instance('FileStorage._txn_undo_write blob copy')
    seen = [0]
    # copies may be SCHEDULED: the record's id goes into a local list that a
    # later `for` loop of this function works off, storing a blob file for
    # each entry (so that a refused undo has stored nothing, C06.R14)
    deferred = {l.iter.id for l in walk_local(f.node)
                if isinstance(l, ast.For) and isinstance(l.iter, ast.Name)
                and any(_contains_call(x, '_blob_storeblob')
                        for x in l.body)}

    def schedules(op):
        c = op.ast
        return op.kind == 'call' and isinstance(c, ast.Call) and isinstance(
            c.func, ast.Attribute) and c.func.attr == 'append' and \
            isinstance(c.func.value, ast.Name) and \
            c.func.value.id in deferred

    def edge(node, st, lab, tgt):
        blob, stored, pending = st
        if node.kind == 'loophead':
            return (False, False, pending)
        if node.kind == 'foriter' and isinstance(node.ast, ast.Name) and \
                node.ast.id in deferred and lab not in ('e', 'eb'):
            pending = False
        if node.kind == 'test' and lab in ('T', 'F') and _contains_call(
                node.ast, 'is_blob_record'):
            seen[0] += 1
            atoms = [(e, t) for e, t in implied_atoms(node.ast, lab)
                     if isinstance(e, ast.Call) and dotted(e.func) and
                     dotted(e.func)[-1] == 'is_blob_record']
            if atoms:
                blob = atoms[0][1]
            else:
                # the test failed (or held) for some other reason: the
                # record may well be a blob record -- unless every other
                # condition only says that there is no data at all
                blob = True
                calls = [c for c in ast.walk(node.ast)
                         if isinstance(c, ast.Call) and dotted(c.func) and
                         dotted(c.func)[-1] == 'is_blob_record' and c.args]
                t = node.ast
                if lab == 'F' and isinstance(t, ast.BoolOp) and isinstance(
                        t.op, ast.And) and calls:
                    arg = ast.dump(calls[0].args[0])

                    def no_data(v):
                        if v is calls[0]:
                            return True
                        if isinstance(v, ast.Compare) and len(v.ops) == 1 \
                                and isinstance(v.ops[0], ast.IsNot) and \
                                isinstance(v.comparators[0], ast.Constant) \
                                and v.comparators[0].value is None:
                            v = v.left
                        return ast.dump(v) == arg
                    if all(no_data(v) for v in t.values):
                        blob = False
        if lab not in ('e', 'eb'):
            for op in F.ops(node):
                if op.kind == 'call' and op.path and \
                        op.path[-1] == '_blob_storeblob':
                    stored = True
                if schedules(op):
                    stored = pending = True
        return (blob, stored, pending)

    def at(node, st):
        blob, stored, pending = st
        if pending and node.id == g.exit_return:
            return Violation(
                'a blob copy that was scheduled for an undo record is never '
                'made on this path: the function returns without working '
                'off the list')
        if blob and not stored:
            for op in F.ops(node):
                if op.kind == 'call' and path_is(
                        op.path, ('self', '_tfile', 'write')):
                    return Violation(
                        'an undo record is staged for a state that is a blob '
                        'record although no blob file was copied for it on '
                        'this path (the copy depends on something besides '
                        'the record being a blob record): when one '
                        'transaction undoes two revisions of a blob the '
                        'record points to the older state while the file '
                        'keeps the bytes of the first undo')
        return st

    vs, stats = explore(g, (False, False, False), at=at, edge=edge)
    R.count(stats)
    R.require(seen[0] or vs, '_txn_undo_write no longer tests for blob '
              'records')
    for v in vs:
        R.violation(v.node, v.message, g, v.path)


# ------------------------------------------------------------------ C13.R11
@rule('C13.R11', 'when the packer drops a record and blobs are packed, it '
      'finds out from the record\'s DATA (directly or through its '
      'backpointer) whether a blob file goes with it', props=['C07'],
      min_instances=1)
def r11(R):
    pk = R.prog.cls(PACKER)
    f = R.method(pk, 'copyDataRecords')
    g, b, F = R.cfg(f, pk, max_depth=0)
    R.instance('FileStoragePacker.copyDataRecords dropped records')
    seen = [0]

    def edge(node, st, lab, tgt):
        dropped, blobs, asked = st
        if node.kind == 'loophead':
            return (False, None, False)
        if node.kind == 'test' and lab in ('T', 'F'):
            atoms = implied_atoms(node.ast, lab)
            for e, t in atoms:
                if isinstance(e, ast.Call) and dotted(e.func) and \
                        dotted(e.func)[-1] == 'isReachable':
                    dropped = not t
                    seen[0] += 1
            mentions = any(dotted(x) == ('self', 'pack_blobs')
                           for x in ast.walk(node.ast))
            if mentions:
                definite = [t for e, t in atoms
                            if dotted(e) == ('self', 'pack_blobs')]
                blobs = definite[0] if definite else True   # may be set
            if _contains_call(node.ast, 'is_blob_record'):
                asked = True
        return (dropped, blobs, asked)

    def at(node, st):
        dropped, blobs, asked = st
        if dropped and blobs and not asked and node.kind in (
                'loophead', 'continue'):
            return Violation(
                'a record is dropped by the pack without its data having '
                'been checked for a blob (for instance when the record is a '
                'backpointer, as the records written by undo are): the blob '
                'file the undo copied for that revision is never listed for '
                'removal and stays for ever')
        return st

    vs, stats = explore(g, (False, None, False), at=at, edge=edge)
    R.count(stats)
    R.require(seen[0] or vs, 'copyDataRecords no longer asks the collector '
              'whether a record is reachable')
    for v in vs:
        R.violation(v.node, v.message, g, v.path)


# ------------------------------------------------------------------ C13.R12
@rule('C13.R12', 'committing savepoint data decides "blob or not" from the '
      'record itself, not from what happens to be in the object cache',
      props=['C12'], min_instances=1)
def r12(R):
    conn = R.prog.cls(CONN)
    f = R.method(conn, '_commit_savepoint')
    g, b, F = R.cfg(f, conn, max_depth=0)
    n = 0
    for node in (g.nodes[i] for i in g.reachable()):
        if node.kind != 'test':
            continue
        for c in ast.walk(node.ast):
            if isinstance(c, ast.Call) and isinstance(c.func, ast.Name) and \
                    c.func.id == 'isinstance' and len(c.args) == 2 and \
                    dotted(c.args[1]) and dotted(c.args[1])[-1] == 'Blob':
                n += 1
                R.instance('_commit_savepoint: %s' % ast.unparse(c))
                pv = provenance(c.args[0], node.frame, F)
                from_cache = prov_has(pv, 'path', lambda p: '_cache' in p) \
                    or prov_has(pv, 'call', lambda p: '_cache' in p)
                from_data = prov_has(pv, 'call', lambda p: p[-1] in (
                    'getGhost', 'is_blob_record', 'load'))
                if from_cache or not from_data:
                    R.violation(
                        node, 'whether a savepoint record is committed with '
                        'its blob file is decided from `%s`, which comes '
                        'from the object cache: the cache holds objects '
                        'weakly, so after the blob left it (references '
                        'dropped, cacheMinimize) the record is committed '
                        'with store() and the blob file is thrown away' %
                        ast.unparse(c.args[0]))
    R.require(n >= 1, '_commit_savepoint no longer distinguishes blob '
              'records')


# ------------------------------------------------------------------ C13.R13
@rule('C13.R13', 'the blob sweep of the wrapper removes a file of an '
      'EXISTING object only after the wrapped storage said that this '
      'revision is gone (it asks per file)', props=['C07', 'C15'],
      min_instances=2)
def r13(R):
    cls = R.prog.cls(BLOBSTORAGE)
    n = 0
    for meth in ('_packUndoing', '_packNonUndoing'):
        f = R.method(cls, meth)
        g, b, F = R.cfg(f, cls, max_depth=0)
        n += 1
        R.instance('BlobStorage.%s' % meth)

        def edge(node, st, lab, tgt, F=F):
            exists, asked = st
            if node.kind == 'for' and lab == 'T':
                stmt = node.info.get('stmt') if node.info else None
                outer = stmt is not None and any(
                    isinstance(c, ast.Call) and dotted(c.func) and
                    dotted(c.func)[-1] == 'listOIDs'
                    for c in ast.walk(stmt.iter))
                # a new object: nothing known; a new file: nothing asked
                return ('unknown', False) if outer else (exists, False)
            for op in F.ops(node):
                if op.kind == 'call' and op.path and op.path[-1] in (
                        'loadSerial',):
                    asked = lab in ('e', 'eb')     # POSKeyError: gone
                if op.kind == 'call' and op.path and op.path[-1].split(
                        '.')[-1] in ('load_current', 'load'):
                    exists = 'no' if lab in ('e', 'eb') else 'yes'
            if node.kind == 'test' and lab in ('T', 'F'):
                for e, truth in implied_atoms(node.ast, lab):
                    if isinstance(e, ast.Name) and e.id == 'exists':
                        exists = 'yes' if truth else 'no'
                    if isinstance(e, ast.Call) and dotted(e.func) and \
                            dotted(e.func)[-1] == 'listdir' and not truth:
                        exists = 'empty-dir'
            return (exists, asked)

        def at(node, st, F=F, meth=meth):
            exists, asked = st
            for op in F.ops(node):
                # a storage WITH undo keeps the revisions of an object that
                # is gone now (snapshots between the pack time and the
                # deletion read them): only an empty directory goes as a
                # whole, files go one by one
                if meth == '_packUndoing' and op.kind == 'call' and \
                        op.path and op.path[-1].split('.')[-1] in (
                            'remove_committed_dir', 'rmtree') and \
                        exists != 'empty-dir':
                    return Violation(
                        'BlobStorage._packUndoing removes a whole blob '
                        'directory that is not known to be empty (for '
                        'instance because the object does not exist NOW): '
                        'the wrapped storage keeps the revisions from the '
                        'pack time up to the deletion, so snapshots in '
                        'between keep the record and lose the blob bytes')
                if meth == '_packUndoing' and op.kind == 'call' and \
                        op.path and op.path[-1].split('.')[-1] == \
                        'remove_committed' and not asked:
                    return Violation(
                        'BlobStorage._packUndoing removes a blob file '
                        'without having asked the wrapped storage whether '
                        'THIS revision is gone')
                if op.kind == 'call' and op.path and op.path[-1].split(
                        '.')[-1] == 'remove_committed':
                    if exists != 'no' and not asked:
                        return Violation(
                            'BlobStorage.%s removes a blob file of an object '
                            'that exists without having asked the wrapped '
                            'storage whether THIS revision is gone (it keeps '
                            'the newest file and removes the rest): a '
                            'storage without undo still keeps every revision '
                            'from the one current at the pack time on, so '
                            'snapshots not older than the pack lose their '
                            'blob bytes' % meth)
            return st

        vs, stats = explore(g, ('unknown', False), at=at, edge=edge)
        R.count(stats)
        for v in vs:
            R.violation(v.node, v.message, g, v.path,
                        key='file removed without asking for its revision')
        if meth == '_packNonUndoing':
            # what this sweep does keep for an existing object -- the newest
            # file not later than the cutoff -- it keeps whatever else is in
            # the directory (a newer file belongs to a commit in flight,
            # which may still abort)
            def edge_s(node, st, lab, tgt, F=F):
                exists, spared = st
                if node.kind == 'for' and lab == 'T':
                    stmt = node.info.get('stmt') if node.info else None
                    if stmt is not None and any(
                            isinstance(c, ast.Call) and dotted(c.func) and
                            dotted(c.func)[-1] == 'listOIDs'
                            for c in ast.walk(stmt.iter)):
                        return ('unknown', False)
                for op in F.ops(node):
                    if op.kind == 'call' and op.path and op.path[-1].split(
                            '.')[-1] in ('load_current', 'load'):
                        exists = 'no' if lab in ('e', 'eb') else 'yes'
                    if op.kind == 'call' and op.path and len(op.path) == 3 \
                            and op.path[0] == '%local' and op.path[2] in (
                                'remove', 'pop') and lab not in ('e', 'eb'):
                        spared = True
                    if op.kind in ('delitem',) and lab not in ('e', 'eb'):
                        spared = True
                if node.kind == 'test' and lab in ('T', 'F'):
                    atoms = implied_atoms(node.ast, lab)
                    for e, truth in atoms:
                        if isinstance(e, ast.Name) and e.id == 'exists':
                            exists = 'yes' if truth else 'no'
                    # nothing to spare: the list is empty -- only when the
                    # test is about the list alone
                    if isinstance(node.ast, ast.Name) and lab == 'F' and \
                            node.ast.id != 'exists':
                        spared = True
                return (exists, spared)

            def at_s(node, st, F=F):
                exists, spared = st
                for op in F.ops(node):
                    if op.kind == 'call' and op.path and op.path[-1].split(
                            '.')[-1] == 'remove_committed' and \
                            exists == 'yes' and not spared:
                        return Violation(
                            'BlobStorage._packNonUndoing removes the files '
                            'of an existing object without having spared the '
                            'newest one on this path (for instance because a '
                            'still newer file is there): that newer file '
                            'belongs to a commit in flight -- if it aborts, '
                            'the current revision has no blob file')
                return st

            vs, stats = explore(g, ('unknown', False), at=at_s, edge=edge_s)
            R.count(stats)
            for v in vs[:1]:
                R.violation(v.node, v.message, g, v.path,
                            key='newest file of an existing object not '
                                'spared')
    R.require(n >= 2, 'sweeps not found')


# ----------------------------------------------------------------- C13.R14
@rule('C13.R14', 'two blob files are reported to hold the same (or other) '
      'bytes only after every chunk read from one has been compared with '
      'the corresponding chunk of the other', props=['C06', 'C03'],
      min_instances=1)
def r14(R):
    n = 0
    for cq in (FS, BLOBSTORAGE):
        cls = R.prog.cls(cq)
        done = set()
        for k in R.prog.mro(cls):
            if not hasattr(k, 'methods'):
                continue
            for name, f in sorted(k.methods.items()):
                if name in done or not compares_file_bytes(f.node):
                    continue
                done.add(name)
                n += 1
                _same_bytes(R, cls, f)
    R.require(n >= 1, 'no byte comparison of blob files found')


def _same_bytes(R, cls, f):
    g, b, F = R.cfg(f, cls, max_depth=0)
    R.instance('%s.%s' % (cls.name, f.name))

    def is_read(e):
        return isinstance(e, ast.Call) and isinstance(
            e.func, ast.Attribute) and e.func.attr == 'read'

    def edge(node, st, lab, tgt):
        if node.kind == 'test' and lab in ('T', 'F'):
            for x in ast.walk(node.ast):
                if isinstance(x, ast.Compare) and len(x.ops) == 1 and \
                        isinstance(x.ops[0], (ast.Eq, ast.NotEq)):
                    sides = [x.left, x.comparators[0]]
                    names = {s_.id for s_ in sides
                             if isinstance(s_, ast.Name)}
                    reads = [s_ for s_ in sides if is_read(s_)]
                    if (names & st) and (len(names & st) == 2 or reads):
                        return frozenset()     # this chunk was compared
        if lab in ('e', 'eb'):
            return frozenset()      # an I/O failure is another answer
        for op in F.ops(node):
            if op.kind == 'store' and op.path and op.path[0] == '%local':
                v = store_value(op)
                if v is not None and is_read(v):
                    st = st | {op.path[1]}
                else:
                    st = st - {op.path[1]}
        return st

    def at(node, st):
        if node.kind == 'return' and st and isinstance(
                node.ast.value, ast.Constant) and isinstance(
                    node.ast.value.value, bool):
            return Violation(
                '%s answers %r with the chunk in `%s` not compared with the '
                'other file: when the first file ends (empty, or a multiple '
                'of the chunk size long) a longer second file that merely '
                'starts with its bytes counts as the same, and undo accepts '
                'to discard what a later transaction appended' % (
                    f.name, node.ast.value.value, ', '.join(sorted(st))))
        return st

    vs, stats = explore(g, frozenset(), at=at, edge=edge)
    R.count(stats)
    for v in vs:
        R.violation(v.node, v.message, g, v.path)


# ----------------------------------------------------------------- C13.R15
def compares_file_bytes(fnode):
    """The function reads from (at least) two opened files and compares
    what it read."""
    opens = sum(1 for c in ast.walk(fnode) if isinstance(c, ast.Call) and
                isinstance(c.func, ast.Name) and c.func.id == 'open')
    if opens < 2:
        return False
    readvars = {t.id for s in ast.walk(fnode) if isinstance(s, ast.Assign)
                and isinstance(s.value, ast.Call) and isinstance(
                    s.value.func, ast.Attribute) and
                s.value.func.attr == 'read'
                for t in s.targets if isinstance(t, ast.Name)}

    def is_read(e):
        return (isinstance(e, ast.Call) and isinstance(
            e.func, ast.Attribute) and e.func.attr == 'read') or (
                isinstance(e, ast.Name) and e.id in readvars)
    return any(isinstance(c, ast.Compare) and len(c.ops) == 1 and isinstance(
        c.ops[0], (ast.Eq, ast.NotEq)) and is_read(c.left) and is_read(
            c.comparators[0]) for c in ast.walk(fnode))


@rule('C13.R15', 'the blob wrapper\'s undo copies an earlier blob file into '
      'the undo revision only after the bytes of the undone revision were '
      'compared with the blob\'s current bytes (the data records of a blob '
      'are all alike: the wrapped storage cannot tell a later change)',
      props=['C03', 'C06'], min_instances=1)
def r15(R):
    cls = R.prog.cls(BLOBSTORAGE)
    f = R.method(cls, 'undo')
    g, b, F = R.cfg(f, cls, max_depth=0)
    comparers = {n for k in R.prog.mro(cls) if hasattr(k, 'methods')
                 for n, m in k.methods.items()
                 if compares_file_bytes(m.node)}
    copies = [0]

    def calls_comparer(x):
        return isinstance(x, ast.Call) and isinstance(
            x.func, ast.Attribute) and isinstance(x.func.value, ast.Name) \
            and x.func.value.id == 'self' and x.func.attr in comparers

    def iter_source(loop):
        c = [x for x in ast.walk(loop.iter) if isinstance(x, ast.Call)
             and isinstance(x.func, ast.Attribute)]
        return c[0].func.attr if c else ast.unparse(loop.iter)
    loops = [l for l in walk_local(f.node) if isinstance(l, ast.For)]
    copy_sources = {iter_source(l) for l in loops if any(
        isinstance(x, ast.Call) and isinstance(x.func, ast.Attribute) and
        x.func.attr == 'cp' for s_ in l.body for x in ast.walk(s_))}
    # a loop that checks every blob of the undone transaction (the same
    # enumeration the copy loop walks): passing it establishes the check,
    # also with nothing to enumerate -- then nothing is copied either
    checking = {id(l) for l in loops if iter_source(l) in copy_sources and
                any(calls_comparer(x) for s_ in l.body
                    for x in ast.walk(s_))}

    def edge(node, st, lab, tgt):
        if lab in ('e', 'eb'):
            return st
        if node.kind == 'for' and id(node.ast) in checking:
            return True
        for op in F.ops(node):
            if op.kind == 'call' and op.path and len(op.path) == 2 and \
                    op.path[0] == 'self' and op.path[1] in comparers:
                st = True
        return st

    def is_copy(op):
        return op.kind == 'call' and op.path and (
            op.path[-1] in ('cp', 'copyfile', 'copy', 'copyfileobj',
                            'rename_or_copy_blob') or
            op.path[-1].split('.')[-1] in ('cp', 'copyfile', 'copyfileobj'))

    def at(node, st):
        for op in F.ops(node):
            if is_copy(op):
                if not st:
                    return Violation(
                        'BlobStorage.undo copies the blob file of the '
                        'revision before the undone transaction into the '
                        'undo revision without any comparison of blob '
                        'bytes: when a LATER transaction rewrote the blob, '
                        'the wrapped storage sees identical data records, '
                        'accepts the undo, and the later bytes are lost')
        return st

    for nid in g.reachable():
        for op in F.ops(g.nodes[nid]):
            if is_copy(op):
                copies[0] += 1
    R.instance('BlobStorage.undo', copies=copies[0],
               byte_comparers=sorted(comparers))
    R.require(copies[0] >= 1, 'BlobStorage.undo no longer copies blob files')
    vs, stats = explore(g, False, at=at, edge=edge)
    R.count(stats)
    for v in vs:
        R.violation(v.node, v.message, g, v.path)


# ----------------------------------------------------------------- C13.R16
@rule('C13.R16', 'whether a record is a blob record is decided on its '
      'UNTRANSFORMED bytes only: under a transforming wrapper (compression, '
      'hex) the stored bytes say nothing', props=['C06', 'C17'],
      min_instances=1)
def r16(R):
    mix = R.prog.cls('ZODB.blob.BlobStorageMixin')
    f = R.method(mix, 'is_blob_record')
    rec = [p for p in f.params if p != 'self'][0]
    parents = {}
    for p in ast.walk(f.node):
        for c in ast.iter_child_nodes(p):
            parents[id(c)] = p
    n = 0
    for x in ast.walk(f.node):
        if not (isinstance(x, ast.Name) and x.id == rec and isinstance(
                x.ctx, ast.Load)):
            continue
        n += 1
        p = parents.get(id(x))
        # allowed: the truth of the record, and the untransform call
        if isinstance(p, (ast.If, ast.While, ast.IfExp)) and p.test is x:
            continue
        if isinstance(p, ast.UnaryOp) and isinstance(p.op, ast.Not):
            continue
        if isinstance(p, ast.BoolOp):
            continue
        if isinstance(p, ast.Compare) and len(p.ops) == 1 and isinstance(
                p.ops[0], (ast.Is, ast.IsNot)):
            continue
        if isinstance(p, ast.Call) and isinstance(p.func, ast.Attribute) \
                and 'untransform' in p.func.attr and x in p.args:
            continue
        R.violation(
            (f.module.relpath, f.qualname,
             ' '.join(ast.unparse(p).split())[:80], x.lineno),
            'BlobStorageMixin.is_blob_record looks at the stored bytes of '
            'the record (`%s`) instead of its untransformed bytes: under a '
            'transforming wrapper no record is recognised as a blob record '
            '-- undo of a blob change copies no blob file, the check for a '
            'later blob change is skipped, a copy loses the blob files' %
            ' '.join(ast.unparse(p).split())[:60],
            key='stored bytes of the record inspected')
    R.instance('BlobStorageMixin.is_blob_record', uses_of_record=n)
    R.require(n >= 1, 'is_blob_record no longer looks at its record')


# ------------------------------------------------------------------ C13.R17
@rule('C13.R17', 'the blob files of the transaction in progress are removed '
      'only when the TRANSACTION is abandoned: the removers of the dirty '
      'list are called from the abort path only (a refused call -- an undo, '
      'a store -- leaves the files of the calls that succeeded)',
      props=['C06', 'C05'], min_instances=2)
def r17(R):
    REMOVERS = ('_blob_tpc_abort', '_blob_remove_files')
    ABORT = ('tpc_abort', '_abort', 'abort')
    # who calls whom, by method name, over the whole package
    callers = {}
    sites = []
    for f in R.prog.all_functions():
        if '/tests/' in f.module.relpath or f.module.relpath.startswith(
                'ZODB/tests'):
            continue
        for c in walk_local(f.node):
            if isinstance(c, ast.Call) and isinstance(c.func, ast.Attribute):
                callers.setdefault(c.func.attr, set()).add(f.name)
                if c.func.attr in REMOVERS:
                    sites.append((f, c))

    def abort_only(name, seen=()):
        if name in ABORT or name in REMOVERS:
            return True
        if name in seen:
            return True
        cs = callers.get(name)
        if not cs:
            return False
        return all(abort_only(c, seen + (name,)) for c in cs)

    for f, c in sites:
        R.instance('%s calls %s' % (f.qualname, c.func.attr))
        if not abort_only(f.name):
            R.violation(
                (f.module.relpath, f.qualname,
                 ' '.join(ast.unparse(c).split()), c.lineno),
                '%s calls %s outside the abort of the transaction: EVERY '
                'blob file the transaction in progress has stored so far is '
                'removed -- also those of calls that succeeded; when the '
                'caller goes on (a refused undo or store is an exception of '
                'one call) the transaction commits records whose blob files '
                'are gone' % (f.qualname, c.func.attr),
                key='dirty blob files removed outside abort')
    R.require(len(sites) >= 2, 'expected the abort paths of FileStorage and '
              'the blob wrapper to call the removers; found %d call site(s)'
              % len(sites))


# ------------------------------------------------------------------ C13.R18
@rule('C13.R18', 'the blob wrapper\'s undo makes a copy for EVERY blob of the '
      'undone transaction, each time it is called: no pass through its copy '
      'loop goes on to the next blob without the copy (sibling of C13.R10 '
      'for the native blob support)', props=['C06'], min_instances=1)
def r18(R):
    cls = R.prog.cls(BLOBSTORAGE)
    f = R.method(cls, 'undo')
    g, b, F = R.cfg(f, cls, max_depth=0)

    def is_copy(op):
        return op.kind == 'call' and op.path and (
            op.path[-1] in ('cp', 'copyfile', 'copy', 'copyfileobj',
                            'rename_or_copy_blob', 'link_or_copy') or
            op.path[-1].split('.')[-1] in ('cp', 'copyfile', 'copyfileobj'))

    loops = {id(l) for l in walk_local(f.node) if isinstance(l, ast.For)
             and any(isinstance(x, ast.Call) and isinstance(
                 x.func, (ast.Attribute, ast.Name)) and (
                     x.func.attr if isinstance(x.func, ast.Attribute)
                     else x.func.id) in ('cp', 'copyfile', 'copyfileobj',
                                         'rename_or_copy_blob',
                                         'link_or_copy')
                 for s_ in l.body for x in ast.walk(s_))}
    R.require(loops, 'BlobStorage.undo no longer copies blob files in a '
              'loop')
    R.instance('BlobStorage.undo copy loop', loops=len(loops))

    def edge(node, st, lab, tgt):
        if lab in ('e', 'eb'):
            return st
        if node.kind == 'for' and id(node.ast) in loops:
            return 'pending' if lab == 'T' else 'out'
        if st == 'pending' and any(is_copy(op) for op in F.ops(node)):
            return 'done'
        return st

    def at(node, st):
        if node.kind == 'for' and id(node.ast) in loops and st == 'pending':
            return Violation(
                'BlobStorage.undo can go on to the next blob of the undone '
                'transaction without having copied a file for this one: '
                'the undo transaction\'s record says the earlier state, '
                'the blob file of the undo revision is missing or -- when '
                'one transaction undoes two changes of the blob -- still '
                'holds the bytes the first undo put there')
        return st

    vs, stats = explore(g, 'out', at=at, edge=edge)
    R.count(stats)
    for v in vs[:1]:
        R.violation(v.node, v.message, g, v.path,
                    key='blob of the undone transaction passed over '
                        'without a copy')


# ------------------------------------------------------------------ C13.R19
@rule('C13.R19', 'an object that the store loop records as created gets a '
      'record in the same pass: no path goes on to the next object after '
      '`self._creating[oid] = ...` without a store (a new blob without '
      'working data must not be passed over: the reference to it would '
      'dangle)', props=['C11', 'C14'], min_instances=1)
def r19(R):
    from ..twopc import DS  # noqa: F401
    conn = R.prog.cls('ZODB.Connection.Connection')
    f = R.method(conn, '_store_objects_of')
    g, b, F = R.cfg(f, conn, max_depth=0)
    heads = [n for n in g.reachable() if g.nodes[n].kind == 'for']
    R.require(heads, '_store_objects_of no longer loops over the writer')
    creates = [0]
    # boolean locals set to literals (the "this object is new" flag): the
    # branch on it is followed only the way the flag was set
    from ..flow import PRUNE, Flags
    consts = {t.id for s_ in walk_local(f.node) if isinstance(s_, ast.Assign)
              and isinstance(s_.value, ast.Constant) and isinstance(
                  s_.value.value, bool)
              for t in s_.targets if isinstance(t, ast.Name)}
    flags = Flags(F, lambda e, fr: e.id if isinstance(e, ast.Name) and
                  e.id in consts else None)

    def edge(node, st0, lab, tgt):
        st, fl = st0
        if node.kind == 'for':
            return ('out' if lab == 'F' else 'none', frozenset())
        fl = flags.learn(node, fl, lab)
        if fl is PRUNE:
            return PRUNE
        if lab in ('e', 'eb'):
            return (st, fl)
        fl = flags.assign(node, fl, lab)
        return (edge1(node, st, lab, tgt), fl)

    def edge1(node, st, lab, tgt):
        for op in F.ops(node):
            if op.kind == 'setitem' and op.path is not None and \
                    tuple(op.path[:2]) == ('self', '_creating'):
                st = 'created'
            if op.kind == 'call' and op.path is not None and \
                    op.path[-1] in ('store', 'storeBlob') and \
                    '_storage' in op.path:
                if st == 'created':
                    st = 'stored'
        return st

    def at(node, st):
        if node.kind == 'for' and st[0] == 'created':
            return Violation(
                'Connection._store_objects_of goes on to the next object '
                'although the one it has just recorded as created was not '
                'stored: the commit succeeds, the objects that refer to the '
                'new one are stored, the new one has no record -- every '
                'other connection gets POSKeyError for it (a new blob '
                'whose data went with an aborted savepoint: added again, '
                'it has no working file and is passed over)')
        return st

    for nid in g.reachable():
        for op in F.ops(g.nodes[nid]):
            if op.kind == 'setitem' and op.path is not None and \
                    tuple(op.path[:2]) == ('self', '_creating'):
                creates[0] += 1
    R.instance('Connection._store_objects_of', creating_entries=creates[0])
    R.require(creates[0] >= 1, '_store_objects_of no longer records created '
              'objects')
    vs, stats = explore(g, ('out', frozenset()), at=at, edge=edge)
    R.count(stats)
    for v in vs[:1]:
        R.violation(v.node, v.message, g, v.path,
                    key='created object passed over without a record')


# ------------------------------------------------------------------ C13.R20
@rule('C13.R20', 'the cut-off of the non-undoing blob sweep is what was '
      'committed when the sweep BEGAN: it is read once, before the loop over '
      'the blob directories (read per directory, after the existence test of '
      'the object, a commit that finishes in between has its new blob '
      'directory removed)', props=['C08'], min_instances=1)
def r20(R):
    cls = R.prog.cls(BLOBSTORAGE)
    f = R.method(cls, '_packNonUndoing')
    n = 0
    inloop = set()
    for l in walk_local(f.node):
        if isinstance(l, (ast.For, ast.While)):
            inloop |= {id(x) for s_ in l.body for x in ast.walk(s_)}
    for c in walk_local(f.node):
        if isinstance(c, ast.Call) and isinstance(c.func, ast.Attribute) and \
                c.func.attr == 'lastTransaction':
            n += 1
            R.instance('_packNonUndoing: %s' % ast.unparse(c)[:50])
            if id(c) in inloop:
                R.violation(
                    (f.module.relpath, f.qualname,
                     ' '.join(ast.unparse(c).split()), c.lineno),
                    '_packNonUndoing reads the last committed transaction '
                    'inside its loop over the blob directories: a commit '
                    'that creates a blob can finish between the existence '
                    'test of the object ("does not exist") and this read '
                    '("its file is not newer than the cut-off") -- the '
                    'sweep removes the directory of a blob that was just '
                    'committed', key='sweep cut-off read inside the loop')
    R.require(n >= 1, '_packNonUndoing no longer reads the last committed '
              'transaction as its cut-off')


# ------------------------------------------------------------------ C13.R21
@rule('C13.R21', 'the copies _txn_undo_write has scheduled are all made: no '
      'pass through the loop that works the list off goes on to the next '
      'entry without storing a blob file (two undone changes of one blob in '
      'one transaction each get their copy: the later one must win)',
      props=['C06'], min_instances=1)
def r21(R):
    cls = R.prog.cls(FS)
    f = R.method(cls, '_txn_undo_write')
    g, b, F = R.cfg(f, cls, max_depth=0)
    loops = {id(l) for l in walk_local(f.node)
             if isinstance(l, ast.For) and isinstance(l.iter, ast.Name)
             and any(_contains_call(x, '_blob_storeblob') for x in l.body)}
    R.instance('FileStorage._txn_undo_write', deferred_loops=len(loops))
    if not loops:
        return           # copies made in place: C13.R10 judges them

    def edge(node, st, lab, tgt):
        if lab in ('e', 'eb'):
            return st
        if node.kind == 'for' and id(node.ast) in loops:
            return 'pending' if lab == 'T' else 'out'
        if st == 'pending' and any(
                op.kind == 'call' and op.path and
                op.path[-1] == '_blob_storeblob' for op in F.ops(node)):
            return 'done'
        return st

    def at(node, st):
        if node.kind == 'for' and id(node.ast) in loops and st == 'pending':
            return Violation(
                '_txn_undo_write passes over a scheduled blob copy: when '
                'one transaction undoes two changes of a blob (newest '
                'first) the second undo\'s record points at the oldest '
                'state while the file keeps the bytes the first undo put '
                'there')
        return st

    vs, stats = explore(g, 'out', at=at, edge=edge)
    R.count(stats)
    for v in vs[:1]:
        R.violation(v.node, v.message, g, v.path,
                    key='scheduled blob copy passed over')


# ------------------------------------------------------------------ C13.R22
@rule('C13.R22', 'for a record the packer drops that has no data of its own '
      'the backpointer IS followed before the record is judged not to be a '
      'blob record (the undo of a blob change writes exactly such a record, '
      'and a blob file of its own)', props=['C07'], min_instances=1)
def r22(R):
    pk = R.prog.cls(PACKER)
    f = R.method(pk, 'copyDataRecords')
    g, b, F = R.cfg(f, pk, max_depth=0)
    n = 0
    # the block entered for a record that is dropped: the `if` on the
    # reachability test
    blocks = [t for t in walk_local(f.node) if isinstance(t, ast.If) and any(
        isinstance(x, ast.Call) and dotted(x.func) and
        dotted(x.func)[-1] == 'isReachable' for x in ast.walk(t.test))]
    for t in blocks:
        inside = [x for s_ in t.body + t.orelse for x in ast.walk(s_)]
        calls = [c for c in inside if isinstance(c, ast.Call) and
                 dotted(c.func) and dotted(c.func)[-1] == 'is_blob_record']
        if not calls:
            continue
        # the branch that holds the judgement
        branch = t.body if any(x is calls[0] for s_ in t.body
                               for x in ast.walk(s_)) else t.orelse
        follows = any(isinstance(x, ast.Call) and dotted(x.func) and
                      dotted(x.func)[-1] in ('fetchDataViaBackpointer',
                                             '_loadBackTxn', '_loadBack_impl')
                      for s_ in branch for x in ast.walk(s_))
        for c in calls:
            n += 1
            R.instance('copyDataRecords: %s' % ast.unparse(c)[:50])
            if not follows:
                R.violation(
                    (f.module.relpath, f.qualname,
                     ' '.join(ast.unparse(c).split()), c.lineno),
                    'copyDataRecords judges `%s` for a dropped record '
                    'without ever following the backpointer of a record '
                    'that has no data of its own: the undo of a blob '
                    'change is such a record and has a blob file -- the '
                    'pack drops the record and leaves the file' %
                    ' '.join(ast.unparse(c).split())[:50],
                    key='dropped backpointer record judged without its '
                        'data')
    R.require(n >= 1, 'copyDataRecords no longer asks is_blob_record for '
              'the records it drops')


# ------------------------------------------------------------------ C13.R23
@rule('C13.R23', 'a temporary file made in a blob directory is not left '
      'there when a step fails before the storage has taken it: between its '
      'creation and the hand-over every failing step leads to its removal',
      props=['C05'], min_instances=3)
def r23(R):
    """Path rule with exception edges over the three functions that make
    such a file: from the statement that creates the name (mktemp/mkstemp)
    to the call that hands the file over (storeBlob, restoreBlob,
    _blob_storeblob), an exception that leaves the function must have
    passed an os.remove/os.unlink of that name."""
    sites = [(R.prog.cls(FS), R.method(R.prog.cls(FS), '_txn_undo_write')),
             (None, R.prog.func('ZODB.blob.copyTransactionsFromTo')),
             (R.prog.cls('ZODB.ExportImport.ExportImport'),
              R.method(R.prog.cls('ZODB.ExportImport.ExportImport'),
                       '_importDuringCommit'))]
    HANDOVER = ('storeBlob', 'restoreBlob', '_blob_storeblob')
    n = 0
    for cls, f in sites:
        g, b, F = R.cfg(f, cls, max_depth=0)
        # the names of the temporary files, by role
        tmpvars = set()
        for a in walk_local(f.node):
            if isinstance(a, ast.Assign) and isinstance(a.value, ast.Call) \
                    and dotted(a.value.func) and \
                    dotted(a.value.func)[-1] in ('mktemp', 'mkstemp'):
                for t in a.targets:
                    if isinstance(t, ast.Name):
                        tmpvars.add(t.id)
                    elif isinstance(t, ast.Tuple):
                        tmpvars |= {e.id for e in t.elts
                                    if isinstance(e, ast.Name)}
        if not tmpvars:
            R.violation((f.module.relpath, f.qualname, 'temporary blob file'),
                        '%s no longer makes its temporary file with '
                        'mktemp/mkstemp: the rule cannot follow it' %
                        f.qualname)
            continue
        n += 1
        R.instance('%s: temporary file(s) %s' % (
            f.qualname, ', '.join(sorted(tmpvars))))

        def makes(node):
            s_ = node.ast
            return isinstance(s_, ast.Assign) and isinstance(
                s_.value, ast.Call) and dotted(s_.value.func) and \
                dotted(s_.value.func)[-1] in ('mktemp', 'mkstemp')

        def edge(node, st, lab, tgt, F=F, tmpvars=tmpvars):
            # st: 'none' | 'live' (created, ours) | 'gone' (removed or
            # handed over)
            if makes(node) and lab not in ('e', 'eb'):
                return 'live'
            # closing the descriptor mkstemp has just opened does not fail
            if lab in ('e', 'eb') and isinstance(node.ast, ast.Expr) and \
                    isinstance(node.ast.value, ast.Call) and dotted(
                        node.ast.value.func) == ('os', 'close'):
                return PRUNE
            # a name that was just bound by mktemp is not None
            if node.kind == 'test' and lab in ('T', 'F') and st == 'live':
                for e, truth in implied_atoms(node.ast, lab):
                    if isinstance(e, ast.Compare) and len(e.ops) == 1 and \
                            isinstance(e.left, ast.Name) and \
                            e.left.id in tmpvars and isinstance(
                                e.comparators[0], ast.Constant) and \
                            e.comparators[0].value is None and \
                            isinstance(e.ops[0], ast.Is) == truth:
                        return PRUNE
            # `if os.path.exists(tmp):` not taken: the file is not there
            if node.kind == 'test' and lab == 'F' and any(
                    isinstance(c, ast.Call) and dotted(c.func) and
                    dotted(c.func)[-1] == 'exists' and c.args and
                    isinstance(c.args[0], ast.Name) and
                    c.args[0].id in tmpvars for c in ast.walk(node.ast)):
                return 'gone'
            for op in F.ops(node):
                if op.kind == 'call' and op.path is not None:
                    if op.path[-1] in ('remove', 'unlink') and isinstance(
                            op.ast, ast.Call) and op.ast.args and isinstance(
                                op.ast.args[0], ast.Name) and \
                            op.ast.args[0].id in tmpvars:
                        return 'gone'
                    if op.path[-1] in HANDOVER and lab not in ('e', 'eb') \
                            and st == 'live':
                        return 'gone'
            if node.kind in ('for', 'loophead') and st == 'gone':
                return 'none'
            return st

        def at(node, st, f=f):
            if node.id == g.exit_raise and st == 'live':
                return Violation(
                    '%s can fail between making its temporary blob file and '
                    'handing it to the storage without removing the file: '
                    'after the abort a (partial) copy stays in the blob '
                    'directory\'s tmp for ever -- nothing records it, no '
                    'abort and no pack removes it' % f.qualname)
            return st

        vs, stats = explore(g, 'none', at=at, edge=edge)
        R.count(stats)
        for v in vs[:1]:
            R.violation(v.node, v.message, g, v.path, at_root=True,
                        key='temporary blob file left behind on a failing '
                            'path')
    R.require(n >= 3, 'expected three makers of temporary blob files; '
              'found %d' % n)


# ------------------------------------------------------------------ C13.R24
@rule('C13.R24', 'the blob sweep takes a file whose serial EQUALS its '
      'cut-off (the last transaction committed when the sweep began) for '
      'what it is, a committed file: only files later than the cut-off are '
      'set aside as belonging to a commit in progress', props=['C07'],
      min_instances=1)
def r24(R):
    from ..flow import boundary_classes
    cls = R.prog.cls(BLOBSTORAGE)
    n = 0
    for f in cls.methods.values():
        params = [a.arg for a in f.node.args.args]
        for nm in params[1:]:
            # the parameter that receives the cut-off: every caller in the
            # class passes what lastTransaction() returned
            cs = boundary_classes(f.node, nm)
            if not cs or not _receives_last_transaction(cls, f.name,
                                                        params.index(nm) - 1):
                continue
            for k, c in cs:
                n += 1
                R.instance('%s: `%s` (%s)' % (f.short, ast.unparse(c), k))
                # `serial > cutoff` sets aside: equality must NOT be set
                # aside, i.e. the boundary class is 'included'
                if k != 'included':
                    R.violation(
                        (f.module.relpath, f.qualname,
                         ' '.join(ast.unparse(c).split()), c.lineno),
                        'the sweep sets a blob file aside as "newer than '
                        'the sweep" when its serial EQUALS the last '
                        'committed transaction: that file is the committed '
                        'current revision, so it drops out of the list the '
                        'newest of which is spared, and the newest '
                        'superseded file is spared instead -- a pack '
                        'leaves the blob file of a removed revision behind',
                        key='file at the cut-off set aside')
    R.require(n >= 1, 'no comparison with the sweep cut-off found in the '
              'blob wrapper')


def _receives_last_transaction(cls, mname, argpos):
    hit = False
    for f in cls.methods.values():
        lt = set()
        for s in walk_local(f.node):
            if isinstance(s, ast.Assign) and isinstance(s.value, ast.Call) \
                    and isinstance(s.value.func, ast.Attribute) and \
                    s.value.func.attr == 'lastTransaction':
                lt |= {t.id for t in s.targets if isinstance(t, ast.Name)}
        for c in walk_local(f.node):
            if isinstance(c, ast.Call) and isinstance(c.func, ast.Attribute) \
                    and c.func.attr == mname and len(c.args) > argpos:
                a = c.args[argpos]
                if isinstance(a, ast.Name) and a.id in lt:
                    hit = True
                else:
                    return False
    return hit
