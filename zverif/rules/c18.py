"""C18 -- repozo recover reproduces the backed-up file (narrow: length
provenance, ordering, agreement of the .dat line with what was copied)."""

import ast

from ..engine import rule
from ..flow import PRUNE, Violation, explore, implied_atoms, path_ends, \
    path_is, prov_has, provenance
from ..model import dotted, walk_local

REPOZO = 'ZODB.scripts.repozo'


def fn(R, name):
    return R.prog.func(REPOZO + '.' + name)


@rule('C18.R1', 'a backup copies up to the end of the last complete '
      'transaction as seen by a read-only storage, never the raw file size',
      min_instances=2)
def r1(R):
    for name in ('do_full_backup', 'do_incremental_backup'):
        f = fn(R, name)
        g, b, F = R.cfg(f, None, max_depth=0)
        calls = [op for op in F.all_ops() if op.kind == 'call' and op.path and
                 op.path[-1].endswith('copyfile')]
        R.instance(name, copyfile_calls=len(calls))
        if not calls:
            R.violation((f.module.relpath, f.qualname, 'copyfile'),
                        '%s no longer copies the data' % name)
        # the storage the size comes from is opened read-only
        opens = [x for x in walk_local(f.node) if isinstance(x, ast.Assign)
                 and isinstance(x.value, ast.Call) and dotted(x.value.func)
                 and dotted(x.value.func)[-1] == 'FileStorage']
        ro = [x for x in opens if any(
            kw.arg == 'read_only' and isinstance(kw.value, ast.Constant) and
            kw.value.value is True for kw in x.value.keywords)]
        if not ro:
            R.violation((f.module.relpath, f.qualname, 'read-only open'),
                        '%s does not open the source storage read-only: a '
                        'backup can truncate or lock a live database' % name)
        for op in calls:
            n = op.ast.args[3] if len(op.ast.args) > 3 else None
            pv = provenance(n, op.node.frame, F) if n is not None else set()
            if prov_has(pv, 'call', lambda p: p[-1] in (
                    'getsize', 'stat', 'fstat', 'tell')):
                R.violation(op.node, 'the number of bytes copied derives '
                            'from the raw size of the file: a transaction '
                            'that is being written is copied partially into '
                            'the backup')
            elif not prov_has(pv, 'call', lambda p: p[-1] == 'getSize'):
                R.violation(op.node, 'the number of bytes copied does not '
                            'derive from the storage\'s end of committed '
                            'data (getSize())')


@rule('C18.R7', 'what the backup takes for "the end of the last complete '
      'transaction" is one: FileStorage.getSize() is the committed end '
      '(_pos), not the size of the file', min_instances=1)
def r7(R):
    from ..twopc import FS
    cls = R.prog.cls(FS)
    f = R.method(cls, 'getSize')
    g, b, F = R.cfg(f, cls, max_depth=0)
    n = 0
    for node in (g.nodes[i] for i in g.reachable()):
        if node.kind != 'return' or node.ast.value is None:
            continue
        n += 1
        R.instance('FileStorage.getSize: %s' % ast.unparse(node.ast))
        pv = provenance(node.ast.value, node.frame, F)
        other = sorted('.'.join(str(x) for x in v) for k, v in pv
                       if k in ('call', 'path') and v != ('self', '_pos'))
        if ('path', ('self', '_pos')) not in pv or other:
            R.violation(
                node, 'FileStorage.getSize() returns `%s`, which is not '
                '(only) the end of the committed data%s: while a '
                'transaction is voted but unfinished repozo copies its '
                'checkpointed record into the backup and records the larger '
                'size, so the backup is not a prefix of complete '
                'transactions' % (
                    ast.unparse(node.ast.value)[:60],
                    ' (it depends on ' + ', '.join(other) + ')'
                    if other else ''))
    R.require(n >= 1, 'FileStorage.getSize not found')


@rule('C18.R2', 'backup files are synced before they get their final name; '
      'recovery writes a .part file and renames it at the end',
      min_instances=2)
def r2(R):
    f = fn(R, 'copyfile')
    g, b, F = R.cfg(f, None, max_depth=0)
    R.instance('copyfile')

    nparam = f.params[3] if len(f.params) > 3 else 'n'
    done_var = [None]

    def edge(node, st, lab, tgt):
        if node.kind in ('test', 'assert') and done_var[0]:
            from ..flow import implied_atoms as _ia
            for lb in ('T', 'F'):
                pass
            if lab in ('T', 'F'):
                for e, truth in _ia(node.ast if node.kind == 'test'
                                    else node.ast.test, lab):
                    if isinstance(e, ast.Compare) and len(e.ops) == 1 and {
                            ast.unparse(e.left),
                            ast.unparse(e.comparators[0])} == {
                                done_var[0], nparam}:
                        eq = isinstance(e.ops[0], ast.Eq) == truth
                        if st == 'written-unchecked':
                            return 'written' if eq else 'short'
        if lab == 'e':
            return st
        for op in F.ops(node):
            if op.kind != 'call' or op.path is None:
                continue
            last = op.path[-1]
            if last.endswith('dofile'):
                s_ = op.stmt
                if isinstance(s_, ast.Assign) and isinstance(
                        s_.targets[0], ast.Name):
                    done_var[0] = s_.targets[0].id
                st = 'written-unchecked'
            elif last.endswith('fsync') and st == 'written':
                st = 'synced'
            elif op.path in (('@os', 'rename'), ('@os', 'replace')):
                if st in ('written-unchecked', 'short'):
                    return Violation(
                        'the backup chunk is renamed into place although the '
                        'number of bytes copied was %s: if the data file '
                        'shrank (a pack) between the scan and the copy, a '
                        'short chunk is recorded with the intended range, and '
                        'verification and recovery of an untouched '
                        'repository fail' % (
                            'found to differ from the number wanted'
                            if st == 'short' else
                            'not compared with the number wanted'))
                if st != 'synced':
                    return Violation(
                        'the backup file is given its final name before its '
                        'data has been forced to disk: a crash leaves a '
                        'complete-looking but truncated backup file')
                st = 'renamed'
        return st

    def at(node, st):
        if node.id == g.exit_return and st != 'renamed':
            return Violation('copyfile can return without having written, '
                             'synced and renamed the file (state: %s)' % st)
        return st

    vs, stats = explore(g, 'none', at=at, edge=edge)
    R.count(stats)
    for v in vs:
        R.violation(v.node if v.node.id != g.exit_return else (
            f.module.relpath, f.qualname, 'write-sync-rename'), v.message, g,
            v.path)
    # the rename's source is the temporary file that was written
    f2 = fn(R, 'do_recover')
    R.instance('do_recover')
    src = ast.unparse(f2.node)
    opens = [x for x in walk_local(f2.node) if isinstance(x, ast.Assign) and
             isinstance(x.value, ast.Call) and dotted(x.value.func) == (
                 'open',) and x.value.args]
    tmp_ok = False
    for x in opens:
        a = x.value.args[0]
        g2, b2, F2 = R.cfg(f2, None, max_depth=0)
        pv = provenance(a, g2.root, F2)
        if any(k == 'const' and v == '.part' for k, v in pv):
            tmp_ok = True
    if not tmp_ok:
        R.violation((f2.module.relpath, f2.qualname, 'temporary output'),
                    'recovery writes directly to the output file: a failed '
                    'or interrupted recovery leaves a partial data file '
                    'under the real name')
    renames = [c for c in walk_local(f2.node) if isinstance(c, ast.Call) and
               dotted(c.func) in (('os', 'rename'), ('os', 'replace'))]
    if not renames or not any(dotted(c.args[1]) == ('options', 'output')
                              for c in renames if len(c.args) == 2):
        R.violation((f2.module.relpath, f2.qualname, 'final rename'),
                    'the recovered file is never renamed to the requested '
                    'output name')


@rule('C18.R3', 'the .dat line records exactly the range and checksum of '
      'the chunk that was copied, and is synced', min_instances=2)
def r3(R):
    for name in ('do_full_backup', 'do_incremental_backup'):
        f = fn(R, name)
        cp = [c for c in walk_local(f.node) if isinstance(c, ast.Assign) and
              isinstance(c.value, ast.Call) and dotted(c.value.func) == (
                  'copyfile',)]
        pr = [c for c in walk_local(f.node) if isinstance(c, ast.Call) and
              dotted(c.func) == ('print',) and any(
                  kw.arg == 'file' for kw in c.keywords)]
        R.instance(name, copyfile=len(cp), dat_lines=len(pr))
        if not cp or not pr:
            R.violation((f.module.relpath, f.qualname, '.dat line'),
                        '%s no longer records the chunk in the .dat file' %
                        name)
            continue
        c, p = cp[0], pr[0]
        where = (f.module.relpath, f.qualname, '.dat line', p.lineno)
        if len(c.value.args) != 4 or len(p.args) != 4:
            R.violation(where, 'unexpected shape of copyfile()/.dat line')
            continue
        dst, start, n = c.value.args[1], c.value.args[2], c.value.args[3]
        pd, ps, pe, psum = p.args
        u = ast.unparse
        if u(pd) != u(dst):
            R.violation(where, 'the .dat line names `%s`, the chunk was '
                        'written to `%s`' % (u(pd), u(dst)))
        if u(ps) != u(start):
            R.violation(where, 'the .dat line records start `%s`, the copy '
                        'started at `%s`' % (u(ps), u(start)))
        want_n = {u(ast.BinOp(left=pe, op=ast.Sub(), right=ps))}
        if isinstance(ps, ast.Constant) and ps.value == 0:
            want_n.add(u(pe))
        if u(n) not in want_n:
            R.violation(where, 'the .dat line records the range [%s, %s) but '
                        '%s bytes were copied: verification and incremental '
                        'backups work from wrong offsets' % (u(ps), u(pe),
                                                             u(n)))
        tgt = c.targets[0]
        if not (isinstance(tgt, ast.Name) and isinstance(psum, ast.Name) and
                tgt.id == psum.id):
            R.violation(where, 'the checksum in the .dat line is not the one '
                        'computed while copying')
        src = u(f.node)
        if 'os.fsync(fp.fileno())' not in src and 'fsync(fp' not in src:
            R.violation(where, 'the .dat file is not synced to disk')


@rule('C18.R4', 'verification compares the size of every file always and '
      'its checksum unless quick; any mismatch or missing file raises',
      min_instances=1)
def r4(R):
    f = fn(R, 'do_verify')
    g, b, F = R.cfg(f, None, max_depth=0)
    R.instance('do_verify')
    seen = set()

    # roles of the locals, by where their values come from:
    #   recorded: `fn, start, end, sum = line.split()` of the .dat line
    #   actual:   `sum, size = get_checksum_and_size_of_*(file, quick)`
    rec_sum, rec_pos, act_sum, act_size = set(), set(), set(), set()
    for a in walk_local(f.node):
        if isinstance(a, ast.Assign) and isinstance(
                a.targets[0], ast.Tuple) and isinstance(a.value, ast.Call) \
                and all(isinstance(x, ast.Name) for x in a.targets[0].elts):
            el = [x.id for x in a.targets[0].elts]
            fnm = dotted(a.value.func)
            if len(el) == 4 and isinstance(a.value.func, ast.Attribute) and \
                    a.value.func.attr in ('split', 'rsplit'):
                rec_pos |= {el[1], el[2]}
                rec_sum.add(el[3])
            elif len(el) == 2 and fnm and 'checksum_and_size' in fnm[-1]:
                act_sum.add(el[0])
                act_size.add(el[1])
    R.require(rec_sum and act_sum and act_size,
              'do_verify no longer reads the .dat record / the actual '
              'checksum and size')
    defs = b.local_defs(f)

    def from_positions(e, depth=0):
        """an expression computed from the recorded start / end"""
        for x in ast.walk(e):
            if isinstance(x, ast.Name):
                if x.id in rec_pos:
                    return True
                if depth < 3 and x.id not in act_size | act_sum:
                    for d in defs.get(x.id, []):
                        if isinstance(d, ast.AST) and from_positions(
                                d, depth + 1):
                            return True
        return False

    def classify(e):
        if isinstance(e, ast.Compare) and len(e.ops) == 1 and isinstance(
                e.ops[0], (ast.NotEq, ast.Eq)):
            sides = [e.left, e.comparators[0]]
            for x, y in (sides, sides[::-1]):
                if isinstance(x, ast.Name) and x.id in act_size and \
                        from_positions(y):
                    return 'size'
                if isinstance(x, ast.Name) and x.id in act_sum and \
                        isinstance(y, ast.Name) and y.id in rec_sum:
                    return 'sum'
        return None

    # the loop over the lines of the .dat file: the one that unpacks them
    dat_loops = {id(l) for l in walk_local(f.node) if isinstance(l, ast.For)
                 and any(isinstance(a, ast.Assign) and isinstance(
                     a.targets[0], ast.Tuple) and len(
                         a.targets[0].elts) == 4 and isinstance(
                             a.value, ast.Call) and isinstance(
                                 a.value.func, ast.Attribute) and
                         a.value.func.attr in ('split', 'rsplit')
                         for b_ in l.body for a in ast.walk(b_))}

    def is_dat_loop(node):
        return node.kind == 'for' and id(node.ast) in dat_loops

    def edge(node, st, lab, tgt):
        checked, quick, differs = st
        if node.kind == 'for' and not is_dat_loop(node):
            return (frozenset(), None, differs)   # another loop: no entry
        if node.kind == 'for' and lab == 'T':
            return (frozenset({'<in-iteration>'}), None, None)
        if node.kind == 'test' and lab in ('T', 'F'):
            for e, truth in implied_atoms(node.ast, lab):
                if dotted(e) == ('options', 'quick'):
                    quick = truth
                k = classify(e)
                if k:
                    seen.add(k)
                    checked = checked | {k}
                    ne = isinstance(e.ops[0], ast.NotEq) == truth
                    if ne:
                        differs = k
        return (frozenset(checked), quick, differs)

    def at(node, st):
        checked, quick, differs = st
        if differs and (is_dat_loop(node) or node.id == g.exit_return):
            return Violation('a %s mismatch does not make verification '
                             'fail' % ('size' if differs == 'size'
                                       else 'checksum'))
        if node.kind == 'for' and node.frame.parent is None and \
                checked is not None and 'started' in ():
            return st
        return st

    def at2(node, st):
        r = at(node, st)
        if isinstance(r, Violation):
            return r
        checked, quick, differs = st
        # arriving at the loop head again / leaving: this file was verified?
        if is_dat_loop(node) and '<in-iteration>' in checked and \
                'size' not in checked and node.frame.parent is None:
            # back at the loop head having skipped this entry
            return Violation('an entry of the .dat file is passed without '
                             'comparing the size of its file with the '
                             'recorded one (for instance an empty '
                             'increment): a missing or altered file is not '
                             'reported')
        if (is_dat_loop(node) or node.id == g.exit_return) and \
                quick is not None or (is_dat_loop(node) and checked):
            if 'size' not in checked and checked is not None and (
                    quick is not None):
                return Violation('a file is passed without comparing its '
                                 'size with the recorded one')
            if quick is False and 'sum' not in checked:
                return Violation('full verification passes a file without '
                                 'comparing its checksum')
        return st

    vs, stats = explore(g, (frozenset(), None, None), at=at2, edge=edge)
    R.count(stats)
    for missing in {'size', 'sum'} - seen:
        R.violation((f.module.relpath, f.qualname, missing + ' comparison'),
                    'verification no longer compares the %s of the backup '
                    'files with the .dat record' % (
                        'size' if missing == 'size' else 'checksum'))
    for v in vs:
        R.violation((f.module.relpath, f.qualname, 'verification outcome'),
                    v.message, g, v.path)
    # a missing file raises
    ok = False
    for t in walk_local(f.node):
        if isinstance(t, ast.Try):
            for h in t.handlers:
                if h.type is not None and 'OSError' in ast.unparse(h.type) \
                        and any(isinstance(x, ast.Raise) and x.exc is not None
                                for x in ast.walk(h)):
                    ok = True
    if not ok:
        R.violation((f.module.relpath, f.qualname, 'missing file'),
                    'a missing backup file no longer makes verification fail')


def _sum_kinds(node, kinds, lab):
    """Flow-sensitive kinds of the locals of do_backup:
    'src'  = a checksum computed from the source file (checksum(...)),
    'repo' = a value read from the repository (concat() / scandat())."""
    a = node.ast
    if lab in ('e', 'eb') or node.kind != 'stmt' or not isinstance(
            a, ast.Assign):
        return kinds
    d = dict(kinds)
    fnm = copied = None
    if isinstance(a.value, ast.Call):
        fnm = dotted(a.value.func)
        fnm = fnm[-1] if fnm else None
    elif isinstance(a.value, ast.Name):
        copied = d.get(a.value.id)
    for t in a.targets:
        names = [x.id for x in ast.walk(t) if isinstance(x, ast.Name)]
        for i, nm in enumerate(names):
            d.pop(nm, None)
            if fnm == 'checksum':
                d[nm] = 'src'
            elif fnm == 'scandat' and len(names) == 4 and i in (1, 2):
                # fn, startpos, endpos, sum = scandat(...): the range of
                # the last increment
                d[nm] = 'repo-start' if i == 1 else 'repo-end'
            elif fnm in ('concat', 'scandat'):
                d[nm] = 'repo'
            elif copied is not None and isinstance(t, ast.Name):
                d[nm] = copied
    return frozenset(d.items())


def _sum_compare(e, truth, kinds):
    """-> True/False if `e` (taken with `truth`) says a source checksum
    equals / differs from a repository value; None if it says nothing."""
    if isinstance(e, ast.Compare) and len(e.ops) == 1 and isinstance(
            e.ops[0], (ast.Eq, ast.NotEq)) and isinstance(
                e.left, ast.Name) and isinstance(e.comparators[0], ast.Name):
        k = dict(kinds)
        ks = {k.get(e.left.id), k.get(e.comparators[0].id)}
        if 'src' in ks and any(x and x.startswith('repo') for x in ks):
            return isinstance(e.ops[0], ast.Eq) == truth
    return None


def _range_nonempty(e, truth, kinds):
    """does `e` (taken with `truth`) say that the range of the last
    increment (start..end from scandat) is not empty?"""
    if isinstance(e, ast.Compare) and len(e.ops) == 1 and isinstance(
            e.left, ast.Name) and isinstance(e.comparators[0], ast.Name):
        k = dict(kinds)
        a, b_ = k.get(e.left.id), k.get(e.comparators[0].id)
        if {a, b_} == {'repo-start', 'repo-end'}:
            op = type(e.ops[0])
            if op in (ast.Eq, ast.NotEq):
                return (op is ast.NotEq) == truth
            lt = (op is ast.Lt and a == 'repo-start') or (
                op is ast.Gt and a == 'repo-end')
            if lt:
                return truth
    return None


@rule('C18.R5', 'an incremental backup is taken only if the part already '
      'backed up still matches by checksum', min_instances=2)
def r5(R):
    f = fn(R, 'do_backup')
    g, b, F = R.cfg(f, None, max_depth=0)
    sites = [0]

    def edge(node, st, lab, tgt):
        m, kinds, nonempty = st
        kinds = _sum_kinds(node, kinds, lab)
        if node.kind == 'test' and lab in ('T', 'F'):
            for e, truth in implied_atoms(node.ast, lab):
                r = _sum_compare(e, truth, kinds)
                if r is not None:
                    m = 'match' if r else 'differ'
                ne = _range_nonempty(e, truth, kinds)
                if ne is not None:
                    nonempty = ne
        return (m, kinds, nonempty)

    def at(node, st):
        m, kinds, nonempty = st
        for op in F.ops(node):
            if op.kind == 'call' and op.path and op.path[-1].endswith(
                    'do_incremental_backup'):
                sites[0] += 1
                if m == 'match' and 'repo-start' in dict(kinds).values() \
                        and not nonempty:
                    return Violation(
                        'a quick incremental backup is licensed by the '
                        'checksum of the last increment\'s range without '
                        'that range having been found non-empty: an empty '
                        'increment (a backup taken while a transaction was '
                        'voted) matches whatever the file holds, a pack is '
                        'not noticed and recovery yields garbage')
                if m != 'match':
                    return Violation(
                        'an incremental backup is taken although the '
                        'already backed-up prefix was %s: after a pack the '
                        'increment is appended to an unrelated base and '
                        'recovery produces garbage' % (
                            'found to differ' if m == 'differ'
                            else 'not compared'))
        return st

    vs, stats = explore(g, ('none', frozenset(), False), at=at, edge=edge)
    R.count(stats)
    R.instance('do_backup incremental call sites', n=sites[0])
    R.instance('prefix checksum comparison')
    R.require(sites[0] >= 2 or vs, 'incremental call sites vanished')
    for v in vs:
        R.violation(v.node, v.message, g, v.path)


@rule('C18.R6', 'a backup run decides "nothing changed" only after comparing '
      'a checksum of the source with a checksum of what the repository '
      'holds', min_instances=1)
def r6(R):
    f = fn(R, 'do_backup')
    g, b, F = R.cfg(f, None, max_depth=0)
    R.instance('do_backup no-change decisions')
    rets = [0]

    def edge(node, st, lab, tgt):
        verified, backed, kinds = st
        kinds = _sum_kinds(node, kinds, lab)
        if node.kind == 'test' and lab in ('T', 'F'):
            for e, truth in implied_atoms(node.ast, lab):
                if _sum_compare(e, truth, kinds) is True:
                    verified = True
        if lab != 'e':
            for op in F.ops(node):
                if op.kind == 'call' and op.path and op.path[-1].split(
                        '.')[-1] in ('do_full_backup',
                                     'do_incremental_backup'):
                    backed = True
        return (verified, backed, kinds)

    def at(node, st):
        verified, backed, kinds = st
        if node.kind == 'return' and node.frame.parent is None:
            rets[0] += 1
            if not backed and not verified:
                return Violation(
                    'do_backup returns without taking a backup on a path '
                    'that never found a checksum of the source equal to a '
                    'checksum of the repository\'s contents (it compares two '
                    'checksums of the source, or sizes only): after a pack '
                    'followed by growth back to the same size the run says '
                    '"no changes" and recovery yields the stale file')
        return st

    vs, stats = explore(g, (False, False, frozenset()), at=at, edge=edge)
    R.count(stats)
    R.require(rets[0] or vs, 'do_backup has no return')
    for v in vs:
        R.violation(v.node, v.message, g, v.path)


@rule('C18.R8', 'the .dat line (`name start end md5`, blank-separated, the '
      'name first) is read back the way it is written for EVERY file name: '
      'split from the right into exactly four fields', min_instances=3)
def r8(R):
    m = R.prog.module('ZODB.scripts.repozo')
    n = 0
    for f in m.functions.values():
        for a in walk_local(f.node):
            if not (isinstance(a, ast.Assign) and isinstance(
                    a.targets[0], ast.Tuple) and len(
                        a.targets[0].elts) == 4 and isinstance(
                            a.value, ast.Call) and isinstance(
                                a.value.func, ast.Attribute) and
                    a.value.func.attr in ('split', 'rsplit')):
                continue
            n += 1
            R.instance('%s: %s' % (f.name, ast.unparse(a)[:70]))
            c = a.value
            maxsplit = None
            if len(c.args) >= 2 and isinstance(c.args[1], ast.Constant):
                maxsplit = c.args[1].value
            for kw in c.keywords:
                if kw.arg == 'maxsplit' and isinstance(kw.value,
                                                       ast.Constant):
                    maxsplit = kw.value.value
            if not (c.func.attr == 'rsplit' and maxsplit == 3):
                R.violation(
                    (f.module.relpath, f.qualname,
                     ' '.join(ast.unparse(a).split()), a.lineno),
                    '%s splits the .dat line with `%s`: a repository path '
                    '(the first field) that contains white space gives more '
                    'than four fields, so verification, quick backups and '
                    'recover -w fail on an intact repository' % (
                        f.name, ast.unparse(c)),
                    key='.dat line split on every blank')
    R.require(n >= 3, 'expected the .dat readers of scandat, do_recover '
              'and do_verify')


@rule('C18.R9', 'a backup refuses a time stamp any file of the repository '
      'already carries: the files of one time stamp share their name up to '
      'the extension, and their .dat and .index', min_instances=2)
def r9(R):
    m = R.prog.module('ZODB.scripts.repozo')

    def checks_stamp(fnode):
        """lists the repository, compares file-name roots, refuses"""
        lists = any(isinstance(c, ast.Call) and dotted(c.func) == (
            'os', 'listdir') for c in ast.walk(fnode))
        roots = any(isinstance(c, ast.Call) and dotted(c.func) == (
            'os', 'path', 'splitext') for c in ast.walk(fnode))
        refuses = any(isinstance(r_, ast.Raise) and r_.exc is not None and
                      'WouldOverwriteFiles' in ast.unparse(r_.exc)
                      for r_ in ast.walk(fnode))
        return lists and roots and refuses

    helpers = {f.name for f in m.functions.values()
               if checks_stamp(f.node) and not f.name.startswith('do_')}
    n = 0
    for name in ('do_full_backup', 'do_incremental_backup'):
        f = fn(R, name)
        g, b, F = R.cfg(f, None, max_depth=0)
        n += 1
        R.instance(name, stamp_checks=sorted(helpers))

        def edge(node, st, lab, tgt, F=F):
            if lab in ('e', 'eb'):
                return st
            for op in F.ops(node):
                if op.kind == 'call' and op.path and op.path[-1].split(
                        '.')[-1] in helpers:
                    return True
            return st

        def at(node, st, F=F, name=name):
            for op in F.ops(node):
                if op.kind == 'call' and op.path and op.path[-1].split(
                        '.')[-1] in ('save', 'copyfile') and not st:
                    return Violation(
                        '%s writes into the repository without having '
                        'refused a time stamp that another file already '
                        'carries: a full backup and an increment taken '
                        'within one second share T.index and T.dat, and '
                        'recovery stops at T.fs ignoring T.deltafs (it sorts '
                        'after it): the restored file is not the last '
                        'backup' % name)
            return st

        own = checks_stamp(f.node)
        vs, stats = explore(g, own, at=at, edge=edge)
        R.count(stats)
        for v in vs:
            R.violation(v.node, v.message, g, v.path,
                        key='time stamp not checked against the repository')
    R.require(n >= 2, 'backup functions not found')


# ----------------------------------------------------------------- C18.R10
@rule('C18.R10', 'verification covers the files a recovery would use: every '
      'file find_files() returns is held against what the .dat file '
      'records (not only the first one, which names the .dat file)',
      min_instances=1)
def r10(R):
    f = R.prog.func('ZODB.scripts.repozo.do_verify')
    # the local that receives find_files()
    found = set()
    for s in walk_local(f.node):
        if isinstance(s, ast.Assign) and isinstance(s.value, ast.Call) and \
                dotted(s.value.func) and \
                dotted(s.value.func)[-1] == 'find_files':
            found |= {t.id for t in s.targets if isinstance(t, ast.Name)}
    R.require(found, 'do_verify no longer asks find_files() what a recovery '
              'would use')
    # uses of it as a whole: iterated, or compared / intersected as a set --
    # anything but the subscript [0] and a truth test
    whole = 0
    parents = {}
    for p in ast.walk(f.node):
        for c in ast.iter_child_nodes(p):
            parents[id(c)] = p
    for x in ast.walk(f.node):
        if not (isinstance(x, ast.Name) and x.id in found and isinstance(
                x.ctx, ast.Load)):
            continue
        p = parents.get(id(x))
        if isinstance(p, ast.Subscript) and p.value is x:
            continue                      # repofiles[0] (or a slice of it)
        if isinstance(p, (ast.If, ast.While)) and p.test is x:
            continue
        if isinstance(p, ast.UnaryOp) and isinstance(p.op, ast.Not):
            continue
        if isinstance(p, ast.Call) and isinstance(p.func, ast.Name) and \
                p.func.id in ('len', 'bool', 'log'):
            continue
        whole += 1
    R.instance('repozo.do_verify', uses_of_all_files=whole)
    # ... and what is recorded must be collected to hold them against
    if whole == 0:
        R.violation(
            (f.module.relpath, f.qualname, 'files a recovery would use'),
            'do_verify looks only at the first file find_files() returns '
            '(to name the .dat file) and verifies what that .dat file '
            'lists: when the newest full backup is missing, find_files() '
            'walks back to an older one, whose .dat lists neither the '
            'missing file nor the newer increments -- verification passes '
            'and a recovery concatenates two different chains',
            key='chain membership not verified')


# ----------------------------------------------------------------- C18.R11
@rule('C18.R11', 'the index saved with a backup is the index of the very '
      'open of the data file whose position bounds the copy: the position '
      'handed to index.save() was read, in the same function, from the same '
      'storage object (another, later open has indexed what was committed '
      'meanwhile)', min_instances=2)
def r11(R):
    m = R.prog.module('ZODB.scripts.repozo')
    n = 0
    for f in m.functions.values():
        saves = [c for c in walk_local(f.node) if isinstance(c, ast.Call) and
                 isinstance(c.func, ast.Attribute) and c.func.attr == 'save'
                 and isinstance(c.func.value, ast.Attribute) and
                 c.func.value.attr == '_index' and isinstance(
                     c.func.value.value, ast.Name) and c.args]
        for c in saves:
            n += 1
            recv = c.func.value.value.id
            pos = c.args[0]
            R.instance('%s: %s' % (f.name, ' '.join(ast.unparse(c).split())))
            ok = False
            if isinstance(pos, ast.Name):
                def from_getsize(name, depth=0):
                    defs = [s for s in walk_local(f.node) if isinstance(
                        s, ast.Assign) and any(isinstance(t, ast.Name) and
                                               t.id == name
                                               for t in s.targets)]
                    if not defs:
                        return False
                    for s in defs:
                        v = s.value
                        if isinstance(v, ast.Name) and depth < 3 and \
                                from_getsize(v.id, depth + 1):
                            continue
                        if not (isinstance(v, ast.Call) and isinstance(
                                v.func, ast.Attribute) and
                                v.func.attr == 'getSize' and isinstance(
                                    v.func.value, ast.Name) and
                                v.func.value.id == recv):
                            return False
                    return True
                ok = from_getsize(pos.id)
                # ... and that storage object is opened once in the function
                opens = [s for s in walk_local(f.node) if isinstance(
                    s, ast.Assign) and any(isinstance(t, ast.Name) and
                                           t.id == recv for t in s.targets)]
                ok = ok and len(opens) == 1
            elif isinstance(pos, ast.Call) and isinstance(
                    pos.func, ast.Attribute) and pos.func.attr == 'getSize' \
                    and isinstance(pos.func.value, ast.Name) and \
                    pos.func.value.id == recv:
                ok = True
            if not ok:
                R.violation(
                    (f.module.relpath, f.qualname,
                     ' '.join(ast.unparse(c).split()), c.lineno),
                    '%s saves the index of `%s` for a position that was not '
                    'read from that same storage object in this function: '
                    'when the data file was opened again after the position '
                    'was taken, the index covers transactions committed '
                    'meanwhile that the copied bytes do not have -- '
                    'FileStorage accepts it for the recovered file, and '
                    'loading an object they changed raises '
                    'CorruptedDataError' % (f.name, recv),
                    key='index saved from another open than the position')
    R.require(n >= 2, 'repozo no longer saves an index with its backups')


# ------------------------------------------------------------------ C18.R12
@rule('C18.R12', 'the backups "not later than the date" are chosen by the '
      'time stamp of each file -- its name WITHOUT the extension -- so that '
      'a backup stamped exactly at the date is included', min_instances=1)
def r12(R):
    f = R.prog.func(REPOZO + '.find_files')
    n = 0
    # the date, by role: a local bound to options.date (or to the file name
    # generated for "now")
    dates = {t.id for a in walk_local(f.node) if isinstance(a, ast.Assign)
             and any(isinstance(x, ast.Attribute) and x.attr == 'date' or
                     isinstance(x, ast.Call) and dotted(x.func) and
                     dotted(x.func)[-1] == 'gen_filename'
                     for x in ast.walk(a.value))
             for t in a.targets if isinstance(t, ast.Name)}
    for loop in walk_local(f.node):
        if not isinstance(loop, ast.For) or not isinstance(
                loop.target, ast.Name):
            continue
        var = loop.target.id
        for c in ast.walk(loop):
            if not (isinstance(c, ast.Compare) and len(c.ops) == 1 and
                    isinstance(c.ops[0], (ast.LtE, ast.Lt, ast.GtE, ast.Gt))):
                continue
            sides = [c.left, c.comparators[0]]
            if not any(isinstance(s_, ast.Name) and s_.id in dates or
                       dotted(s_) == ('options', 'date') for s_ in sides):
                continue
            n += 1
            R.instance('find_files: %s' % ast.unparse(c))
            for s_ in sides:
                if isinstance(s_, ast.Name) and s_.id == var:
                    R.violation(
                        (f.module.relpath, f.qualname,
                         ' '.join(ast.unparse(c).split()), c.lineno),
                        'find_files compares the whole file name `%s` -- '
                        'time stamp plus extension -- with the date: '
                        '"T.deltafsz" <= "T" is false, a backup stamped '
                        'exactly at the date given with -D is taken for a '
                        'later one; recovery silently produces the '
                        'previous backup\'s state (or finds no files)' %
                        var, key='file name with extension compared with '
                                 'the date')
    R.require(n >= 1, 'find_files no longer compares file names with the '
              'date')


# ------------------------------------------------------------------ C18.R13
@rule('C18.R13', 'recovery with verification writes exactly the files '
      'recovery without it writes: the chain find_files selected for the '
      'date -- the .dat file of the full backup lists more (every later '
      'increment) and is only looked things up in', min_instances=1)
def r13(R):
    f = R.prog.func(REPOZO + '.do_recover')
    # the selected chain, by role: what find_files returned
    chain = {t.id for a in walk_local(f.node) if isinstance(a, ast.Assign)
             and isinstance(a.value, ast.Call) and dotted(a.value.func) and
             dotted(a.value.func)[-1] == 'find_files'
             for t in a.targets if isinstance(t, ast.Name)}
    R.require(chain, 'do_recover no longer asks find_files')
    n = 0
    for loop in walk_local(f.node):
        if not isinstance(loop, ast.For):
            continue
        writes = [c for s_ in loop.body for c in ast.walk(s_)
                  if isinstance(c, ast.Call) and dotted(c.func) and
                  dotted(c.func)[-1] in ('concat', 'copyfile')]
        if not writes:
            continue
        n += 1
        R.instance('do_recover: for %s in %s' % (
            ast.unparse(loop.target), ast.unparse(loop.iter)[:40]))
        names = {x.id for x in ast.walk(loop.iter) if isinstance(x, ast.Name)}
        if not (names & chain):
            R.violation(
                (f.module.relpath, f.qualname,
                 'for %s in %s' % (ast.unparse(loop.target),
                                   ' '.join(ast.unparse(loop.iter).split())),
                 loop.lineno),
                'do_recover writes the output from a loop over `%s`, not '
                'over the files find_files selected for the date: with -w '
                'and -D together every increment listed in the .dat file '
                'is written -- the state recovered is a later one than '
                'asked for, next to the index of the right one' %
                ' '.join(ast.unparse(loop.iter).split())[:50],
                key='recovered output not written from the selected chain')
    R.require(n >= 1, 'do_recover no longer writes its output in a loop '
              'over files (the verifying branch)')
