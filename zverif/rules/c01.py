"""C01 -- committed transactions survive a crash; unfinished ones vanish."""

import ast

from .. import AnalysisError
from ..engine import rule
from ..flow import PRUNE, Violation, cmp_sides, explore, implied_atoms, \
    is_none_const, path_ends, path_is, prov_has, provenance, raising_node, \
    store_value, \
    strip_not, truth_test
from ..model import dotted, walk_local
from ..tables import const_value, struct_fields
from ..twopc import FS, identity_guard, resolve_local

FORMAT = 'ZODB.FileStorage.format'


def is_datafile(path):
    return path_is(path, ('self', '_file'))


def datafile_writes(F, node):
    """Ops of `node` that write or truncate the shared data-file handle."""
    out = []
    for op in F.ops(node):
        if op.kind != 'call' or op.path is None:
            continue
        if path_is(op.path, ('self', '_file', 'write'),
                   ('self', '_file', 'writelines')):
            out.append(('write', op))
        elif path_is(op.path, ('self', '_file', 'truncate')):
            out.append(('truncate', op))
        elif path_ends(op.path, ('ZODB.utils.cp',)) or op.path == ('@ZODB.utils.cp',):
            a = op.ast.args
            if len(a) >= 2 and F.canon(a[1], node.frame) == ('self', '_file'):
                out.append(('write', op))
    return out


def is_fsync_call(R, F, op, node):
    """`fsync(self._file.fileno())` / `os.fsync(...)` on the data handle."""
    if op.kind != 'call' or op.path is None:
        return False
    name = op.path[-1] if len(op.path) > 1 else op.path[0]
    if not (op.path == ('@os', 'fsync') or name.endswith('.fsync')
            or name == 'fsync'):
        return False
    if op.path[0].startswith('@') and op.path != ('@os', 'fsync'):
        # module-level alias: must be bound to os.fsync
        if not fsync_alias_ok(R, node.frame.func.module, op.path[0][1:]):
            return False
    a = op.ast.args
    if len(a) != 1 or not isinstance(a[0], ast.Call):
        return False
    return F.canon(a[0].func, node.frame) == ('self', '_file', 'fileno')


def fsync_alias_ok(R, module, qual):
    """`fsync = getattr(os, "fsync", None)` (the capability idiom) or
    `from os import fsync`."""
    name = qual.rsplit('.', 1)[-1]
    e = module.consts.get(name)
    if e is None:
        return module.imports.get(name) == 'os.fsync'
    if isinstance(e, ast.Call) and isinstance(e.func, ast.Name) and \
            e.func.id == 'getattr' and len(e.args) == 3 and \
            dotted(e.args[0]) == ('os',) and \
            isinstance(e.args[1], ast.Constant) and e.args[1].value == 'fsync':
        return True
    return dotted(e) == ('os', 'fsync')


def capability_test(R, F, node):
    """`if fsync is not None` on the module-level fsync alias: returns the
    label of the branch on which fsync is unavailable, else None."""
    if node.kind != 'test':
        return None
    e, truthy_when_true, _ = truth_test(node.ast)
    p = F.canon(e, node.frame) if dotted(e) else None
    if p is None or len(p) != 1 or not p[0].startswith('@'):
        return None
    if not p[0].endswith('.fsync'):
        return None
    if not fsync_alias_ok(R, node.frame.func.module, p[0][1:]):
        return None
    return 'F' if truthy_when_true else 'T'


PUBLISH_FIELDS = ('_pos', '_ltid')


def publishes(F, node, lab):
    out = []
    for op in F.ops(node):
        if op.kind in ('store', 'aug') and lab != 'e' and op.path and \
                len(op.path) == 2 and op.path[0] == 'self' and \
                op.path[1] in PUBLISH_FIELDS:
            out.append(op)
        if op.kind == 'store' and lab != 'e' and \
                path_is(op.path, ('self', '_index')):
            out.append(op)
        if op.kind == 'call' and path_is(op.path, ('self', '_index', 'update'),
                                         ('self', '_index', '__setitem__')):
            out.append(op)
        if op.kind == 'setitem' and path_is(op.path, ('self', '_index')):
            out.append(op)
    return out


@rule('C01.R1', 'finish: status write -> flush -> fsync of the data file '
      'before the index, the end position and the last tid are published',
      props=['C04', 'C09'], min_instances=1)
def r1(R):
    cls = R.prog.cls(FS)
    f = R.method(cls, 'tpc_finish')
    g, b, F = R.cfg(f, cls)
    counts = {'write': 0, 'flush': 0, 'fsync': 0, 'publish': 0}
    ids = {k: set() for k in counts}

    def edge(node, st, lab, tgt):
        matched, phase = st
        same = identity_guard(node, F)
        if same is not None and lab in ('T', 'F'):
            return (lab == same, phase)
        if matched is not True:
            return st
        cap = capability_test(R, F, node)
        if cap is not None and lab == cap and phase == 2:
            return (matched, 3)        # platform without fsync
        for op in F.ops(node):
            if op.kind == 'call':
                if path_is(op.path, ('self', '_file', 'write')):
                    ids['write'].add(node.id)
                    if lab != 'e' and phase == 0:
                        phase = 1
                elif path_is(op.path, ('self', '_file', 'flush')):
                    ids['flush'].add(node.id)
                    if lab != 'e' and phase == 1:
                        phase = 2
                elif is_fsync_call(R, F, op, node):
                    ids['fsync'].add(node.id)
                    if lab != 'e' and phase == 2:
                        phase = 3
        pubs = publishes(F, node, lab)
        if pubs:
            ids['publish'].add(node.id)
            if phase < 3:
                return Violation(
                    'the transaction is published (%s) before the data file '
                    'has been written, flushed and fsynced (reached step %d '
                    'of 3): a crash can lose a commit that readers already '
                    'saw / that returned' % (
                        ' '.join('.'.join(p.path) for p in pubs), phase))
        return (matched, phase)

    def at(node, st):
        matched, phase = st
        if node.id == g.exit_return and matched is True and phase < 3:
            return Violation('tpc_finish returns without having written, '
                             'flushed and fsynced the data file (reached step '
                             '%d of 3)' % phase)
        return st

    vs, stats = explore(g, (None, 0), at=at, edge=edge)
    R.count(stats)
    R.instance('FileStorage.tpc_finish', defined_in=f.qualname,
               cfg_nodes=len(g.reachable()),
               sites={k: len(v) for k, v in ids.items()})
    R.require(vs or (ids['write'] and ids['flush'] and ids['publish']),
              'finish path has no data-file write/flush/publish sites: %s' %
              {k: len(v) for k, v in ids.items()})
    for v in vs:
        R.violation(v.node, v.message, g, v.path,
                    instance='FileStorage.tpc_finish', at_root=False)


def trans_hdr_fields(R):
    m = R.prog.module(FORMAT)
    R.require('TRANS_HDR' in m.consts, 'TRANS_HDR constant vanished')
    fmt = const_value(R.prog, m, m.consts['TRANS_HDR'])
    return fmt, struct_fields(fmt)


@rule('C01.R2', 'vote writes the header with checkpoint status "c"; finish '
      'overwrites exactly that byte with the transaction status',
      min_instances=2)
def r2(R):
    cls = R.prog.cls(FS)
    fmt, fields = trans_hdr_fields(R)
    status_idx = [i for i, (c, off, sz) in enumerate(fields) if c == 'c']
    R.require(len(status_idx) == 1, 'no single status byte in TRANS_HDR %r'
              % fmt)
    status_off = fields[status_idx[0]][1]
    # --- vote: TxnHeader(..., "c", ...) is what gets written first
    f = R.method(cls, 'tpc_vote')
    g, b, F = R.cfg(f, cls, max_depth=1)
    th = R.prog.cls(FORMAT + '.TxnHeader')
    init = R.method(th, '__init__')
    R.require('status' in init.params, 'TxnHeader.__init__ has no status '
              'parameter')
    pidx = init.params.index('status') - 1
    # asString packs self.status at the status position
    a_s = R.method(th, 'asString')
    ok_pack = False
    for n in ast.walk(a_s.node):
        if isinstance(n, ast.Call) and dotted(n.func) and \
                dotted(n.func)[-1] == 'pack' and len(n.args) > 1 + status_idx[0]:
            arg = n.args[1 + status_idx[0]]
            names = {dotted(x) for x in ast.walk(arg)
                     if isinstance(x, ast.Attribute)}
            if ('self', 'status') in names:
                ok_pack = True
    R.require(ok_pack, 'TxnHeader.asString no longer packs self.status in '
              'the status position of TRANS_HDR')
    hdr_writes = 0
    for op in F.all_ops():
        if op.kind == 'call' and path_is(op.path, ('self', '_file', 'write')) \
                and op.node.frame.parent is None and op.ast.args:
            a = op.ast.args[0]
            if isinstance(a, ast.Call) and isinstance(a.func, ast.Attribute) \
                    and a.func.attr == 'asString':
                ctor = resolve_local(a.func.value, F, op.node.frame)
                if isinstance(ctor, ast.Call) and dotted(ctor.func) and \
                        R.prog.resolve_dotted(f.module, dotted(ctor.func)) is th:
                    hdr_writes += 1
                    st = None
                    if len(ctor.args) > pidx:
                        st = ctor.args[pidx]
                    for kw in ctor.keywords:
                        if kw.arg == 'status':
                            st = kw.value
                    R.instance('vote header status', stmt=ast.unparse(ctor)[:80])
                    if not (isinstance(st, ast.Constant) and st.value in
                            ('c', b'c')):
                        R.violation(op.node, 'the transaction header written '
                                    'by tpc_vote does not carry the checkpoint '
                                    'status "c": a crash before finish leaves '
                                    'a transaction that recovery accepts')
    R.require(hdr_writes >= 1, 'no header write recognised in tpc_vote')
    # --- finish: seek(self._pos + <offset of status>), write(self._tstatus)
    f2 = R.method(cls, 'tpc_finish')
    g2, b2, F2 = R.cfg(f2, cls)
    seeks = []
    writes = []
    for op in F2.all_ops():
        if op.kind == 'call' and path_is(op.path, ('self', '_file', 'seek')):
            seeks.append(op)
        if op.kind == 'call' and path_is(op.path, ('self', '_file', 'write')):
            writes.append(op)
    R.require(seeks and writes, 'finish has no seek/write on the data file')
    for op in seeks:
        a = op.ast.args[0] if op.ast.args else None
        good = False
        if isinstance(a, ast.BinOp) and isinstance(a.op, ast.Add):
            for x, y in ((a.left, a.right), (a.right, a.left)):
                if dotted(x) and F2.canon(x, op.node.frame) == ('self', '_pos'):
                    try:
                        k = const_value(R.prog, op.node.frame.func.module, y)
                    except ValueError:
                        k = None
                    good = (k == status_off)
        R.instance('finish status seek', stmt=ast.unparse(op.ast)[:80],
                   status_offset=status_off)
        if not good:
            R.violation(op.node, 'tpc_finish seeks to %s, not to the status '
                        'byte of the voted header (self._pos + %d)' % (
                            ast.unparse(a) if a is not None else '?',
                            status_off))
    for op in writes:
        a = op.ast.args[0] if op.ast.args else None
        names = {F2.canon(x, op.node.frame) for x in ast.walk(a)
                 if isinstance(x, (ast.Attribute, ast.Name)) and dotted(x)} \
            if a is not None else set()
        if ('self', '_tstatus') not in names:
            R.violation(op.node, 'the byte tpc_finish writes over the '
                        'checkpoint flag does not derive from the '
                        'transaction status (self._tstatus)')


@rule('C01.R3', 'vote writes header, staged records, trailing length, then '
      'flushes; both lengths are the same value; the next position is '
      'recorded only afterwards', props=['C05'], min_instances=1)
def r3(R):
    cls = R.prog.cls(FS)
    f = R.method(cls, 'tpc_vote')
    g, b, F = R.cfg(f, cls, max_depth=1)
    R.instance('FileStorage.tpc_vote', cfg_nodes=len(g.reachable()))
    lens = {}

    def classify(op, fr):
        if op.kind != 'call' or op.path is None:
            return None
        if path_is(op.path, ('self', '_file', 'write')) and op.ast.args:
            a = op.ast.args[0]
            if isinstance(a, ast.Call) and isinstance(a.func, ast.Attribute) \
                    and a.func.attr == 'asString':
                ctor = resolve_local(a.func.value, F, fr)
                if isinstance(ctor, ast.Call) and len(ctor.args) >= 2:
                    lens['hdr'] = ast.dump(ctor.args[1])
                return 'hdr'
            if isinstance(a, ast.Call) and dotted(a.func) and \
                    F.canon(a.func, fr) in (('@ZODB.utils.p64',),) and a.args:
                lens['trail'] = ast.dump(a.args[0])
                return 'len'
            return 'otherwrite'
        if op.path == ('@ZODB.utils.cp',):
            a = op.ast.args
            if len(a) >= 2 and F.canon(a[0], fr) == ('self', '_tfile') and \
                    F.canon(a[1], fr) == ('self', '_file'):
                return 'cp'
        if path_is(op.path, ('self', '_file', 'flush')):
            return 'flush'
        return None

    ORDER = ['hdr', 'cp', 'len', 'flush']

    def edge(node, st, lab, tgt):
        matched, phase = st
        same = identity_guard(node, F)
        if same is not None and lab in ('T', 'F'):
            return (lab == same, phase)
        if matched is not True or node.frame.parent is not None:
            return st
        for op in F.ops(node):
            if op.kind == 'call' and path_is(
                    op.path, ('self', '_file', 'seek')) and lab != 'e':
                a = op.ast.args
                if phase <= 0:
                    if len(a) == 1 and dotted(a[0]) and F.canon(
                            a[0], node.frame) == ('self', '_pos'):
                        phase = 0
                    else:
                        phase = -1          # positioned somewhere else
                else:
                    return Violation('tpc_vote moves the data-file position '
                                     'in the middle of writing the '
                                     'transaction')
            c = classify(op, node.frame)
            if c is None:
                continue
            if phase < 0:
                return Violation(
                    'tpc_vote writes the transaction without having '
                    'positioned the data file at the committed end '
                    '(self._pos): the record lands wherever the last read '
                    'left the file position, over committed data or beyond '
                    'a gap')
            if lab == 'e':
                continue
            if c == 'otherwrite' or phase >= 4 or ORDER[phase] != c:
                return Violation('tpc_vote writes to the data file out of '
                                 'order: `%s` where %s was expected' % (
                                     ast.unparse(op.ast)[:60],
                                     ORDER[phase] if phase < 4 else 'nothing'))
            phase += 1
        for op in F.ops(node):
            if op.kind == 'store' and lab != 'e' and \
                    path_is(op.path, ('self', '_nextpos')) and phase < 4:
                return Violation('self._nextpos is recorded before the voted '
                                 'data has been written and flushed')
        return (matched, phase)

    def at(node, st):
        matched, phase = st
        if node.id == g.exit_return and matched is True and phase != 4:
            return Violation('tpc_vote can return after only %d of the 4 '
                             'steps header / records / trailing length / '
                             'flush' % phase)
        return st

    vs, stats = explore(g, (None, -2), at=at, edge=edge)
    R.count(stats)
    for v in vs:
        R.violation(v.node, v.message, g, v.path,
                    instance='FileStorage.tpc_vote')
    if not vs:
        R.require('hdr' in lens and 'trail' in lens,
                  'vote lengths not recognised')
        if lens['hdr'] != lens['trail']:
            R.violation((f.module.relpath, f.qualname, 'length agreement'),
                        'the transaction length in the header and the '
                        'redundant trailing length are different expressions; '
                        'recovery relies on them being equal')


@rule('C01.R4', 'a failed write during vote truncates the data file back to '
      'the committed end and re-raises', props=['C05', 'C02'], min_instances=3)
def r4(R):
    cls = R.prog.cls(FS)
    f = R.method(cls, 'tpc_vote')
    g, b, F = R.cfg(f, cls, max_depth=1)
    sites = set()

    def edge(node, st, lab, tgt):
        failed, truncated = st
        w = [x for x in datafile_writes(F, node) if x[0] == 'write'] + [
            op for op in F.ops(node) if op.kind == 'call' and
            path_is(op.path, ('self', '_file', 'flush'))]
        if w and node.frame.parent is None:
            sites.add(node.id)
            if lab == 'e' and not failed:
                return (node.id, False)
        if failed:
            for kind, op in datafile_writes(F, node):
                if kind == 'truncate' and op.ast.args and F.canon(
                        op.ast.args[0], node.frame) == ('self', '_pos'):
                    truncated = True
        return (failed, truncated)

    def at(node, st):
        failed, truncated = st
        if failed:
            if node.id == g.exit_return:
                return Violation('a failed data-file write in tpc_vote is '
                                 'swallowed: the vote succeeds with a partial '
                                 'transaction at the end of the file')
            if node.id == g.exit_raise and not truncated:
                return Violation('a failed data-file write in tpc_vote leaves '
                                 'the partial transaction at the end of the '
                                 'file (no truncate to self._pos)')
        return st

    # BaseExceptions too (KeyboardInterrupt, greenlet timeouts): the abort
    # that follows does not truncate, because nothing was recorded as voted
    vs, stats = explore(g, (None, False), at=at, edge=edge,
                        base_exceptions=True)
    R.count(stats)
    for s in sorted(sites):
        R.instance('vote write site', stmt=g.nodes[s].text(70))
    for v in vs:
        n = g.nodes[v.state[0]] if v.state and v.state[0] else v.node
        R.violation(n, v.message, g, v.path, instance='FileStorage.tpc_vote')


# ---------------------------------------------------------------- C01.R5

ALLOWED_WRITERS = {
    '__init__': 'creates / opens the data file',
    'tpc_vote': 'writes the voted transaction beyond the committed end',
    'tpc_finish': 'flips the status byte', '_finish': 'finish hook',
    '_finish_finish': 'finish hook',
    'tpc_abort': 'truncates a voted transaction', '_abort': 'abort hook',
    'pack': 'swaps in the packed file',
    'cleanup': 'explicit "remove all files" API (named exception)',
    'close': 'terminal',
}


def datafile_mutations(R, F, node):
    out = [op for kind, op in datafile_writes(F, node)]
    fr = node.frame
    for op in F.ops(node):
        if op.kind != 'call' or op.path is None:
            continue
        if op.path in (('@os', 'rename'), ('@os', 'remove'), ('@os', 'unlink'),
                       ('@os', 'replace'), ('@os', 'truncate')):
            for a in op.ast.args:
                if dotted(a) and F.canon(a, fr) == ('self', '_file_name'):
                    out.append(op)
        if op.path == ('@open',) and op.ast.args:
            a = op.ast.args[0]
            mode = op.ast.args[1] if len(op.ast.args) > 1 else None
            if dotted(a) and F.canon(a, fr) == ('self', '_file_name'):
                if not (mode is None or (isinstance(mode, ast.Constant) and
                                         set(str(mode.value)) <= set('rb'))):
                    out.append(op)
    return out


@rule('C01.R5', 'only vote/finish/abort/pack/open write, truncate, rename or '
      'remove the data file', props=['C05', 'C06'], min_instances=25)
def r5(R):
    cls = R.prog.cls(FS)
    names = set()
    for k in R.prog.mro(cls):
        if hasattr(k, 'methods'):
            names |= set(k.methods)
            names |= set(k.monkey)
    checked = 0
    for name in sorted(names):
        if name in ALLOWED_WRITERS:
            continue
        r = R.prog.find_method(cls, name)
        if r is None:
            continue
        f = r[0]
        if f.is_generator:
            continue
        g, b, F = R.cfg(f, cls, max_depth=4,
                        inline=lambda t, fr: t.func.name not in
                        ALLOWED_WRITERS or t.func.name == 'close')
        checked += 1
        hits = []
        for nid in sorted(g.reachable()):
            node = g.nodes[nid]
            for op in datafile_mutations(R, F, node):
                hits.append((node, op))
        R.instance('FileStorage.%s' % name, cfg_nodes=len(g.reachable()),
                   datafile_mutations=len(hits))
        for node, op in hits:
            R.violation(node, 'FileStorage.%s can write to / truncate / '
                        'rename the data file (`%s`); only vote, finish, '
                        'abort, pack and open may, so that everything before '
                        'the committed end is immutable and nothing is '
                        'visible before the vote' % (
                            name, ast.unparse(op.ast)[:60]), at_root=True)
    # tiny positive example: the rule must see the writes where they are
    f = R.method(cls, 'tpc_vote')
    g, b, F = R.cfg(f, cls, max_depth=1)
    n = sum(len(datafile_mutations(R, F, g.nodes[i])) for i in g.reachable())
    R.require(n >= 3, 'positive control failed: tpc_vote shows %d data-file '
              'writes' % n)


# ---------------------------------------------------------------- C01.R6

@rule('C01.R6', 'the open-time scan never indexes a checkpointed or short '
      'transaction and truncates it unless read-only',
      props=['C09', 'C18'], min_instances=3)
def r6(R):
    f = R.prog.func('ZODB.FileStorage.FileStorage.read_index')
    g, b, F = R.cfg(f, None, max_depth=0)
    fmt, fields = trans_hdr_fields(R)
    sidx = [i for i, (c, off, sz) in enumerate(fields) if c == 'c'][0]
    # names unpacked from the header
    hdr_names = None
    for n in ast.walk(f.node):
        if isinstance(n, ast.Assign) and isinstance(n.value, ast.Call) and \
                dotted(n.value.func) and dotted(n.value.func)[-1] == 'unpack' \
                and n.value.args and dotted(n.value.args[0]) == ('TRANS_HDR',) \
                and isinstance(n.targets[0], ast.Tuple):
            hdr_names = [e.id if isinstance(e, ast.Name) else None
                         for e in n.targets[0].elts]
    R.require(hdr_names and len(hdr_names) == len(fields),
              'read_index no longer unpacks TRANS_HDR into %d names' %
              len(fields))
    status_name = hdr_names[sidx]
    tl_name = hdr_names[1]
    bad_tests = {}

    def _clears_status(e, truth):
        """(e is `truth`) says the status is not the checkpoint flag"""
        if isinstance(e, ast.Compare) and len(e.ops) == 1:
            sides = [e.left, e.comparators[0]]
            names = [x.id for x in sides if isinstance(x, ast.Name)]
            consts = [x.value for x in sides if isinstance(x, ast.Constant)]
            if status_name in names and consts and consts[0] in ('c', b'c'):
                return (isinstance(e.ops[0], ast.Eq) and not truth) or (
                    isinstance(e.ops[0], ast.NotEq) and truth)
        return False

    def _short_header(e, truth):
        """(e is `truth`) says fewer bytes than a header were read"""
        if isinstance(e, ast.Compare) and len(e.ops) == 1 and \
                isinstance(e.left, ast.Call) and isinstance(
                    e.left.func, ast.Name) and e.left.func.id == 'len' and \
                dotted(e.comparators[0]) == ('TRANS_HDR_LEN',):
            op = type(e.ops[0])
            return (op in (ast.NotEq, ast.Lt) and truth) or (
                op in (ast.Eq, ast.GtE) and not truth)
        return False

    def bad_branch(node):
        """label of the branch meaning 'this transaction is not complete':
        the one on which "status is not the checkpoint flag" is NOT
        established while the other branch establishes it; or the one that
        establishes a short header."""
        if node.kind != 'test':
            return None
        from ..flow import implied_atoms
        clears = {lab: any(_clears_status(e, t)
                           for e, t in implied_atoms(node.ast, lab))
                  for lab in ('T', 'F')}
        if clears['T'] != clears['F']:
            return ('F' if clears['T'] else 'T', 'checkpoint')
        for lab in ('T', 'F'):
            if any(_short_header(e, t)
                   for e, t in implied_atoms(node.ast, lab)):
                return (lab, 'short-header')
        return None

    def is_trunc(F, node):
        for op in F.ops(node):
            if op.kind == 'call' and op.path is not None:
                if op.path[-1] == 'truncate' and op.path[0] == '%param':
                    return True
                if op.path == ('@ZODB.FileStorage.FileStorage._truncate',):
                    return True
        return False

    def ro_branch(node):
        """for a test on the read_only parameter: label taken when writable"""
        if node.kind != 'test':
            return None
        e, truthy_when_true, _ = truth_test(node.ast)
        if isinstance(e, ast.Name) and e.id == 'read_only':
            return 'F' if truthy_when_true else 'T'
        return None

    def edge(node, st, lab, tgt):
        bad, writable, truncated = st
        bb = bad_branch(node)
        if bb is not None:
            bad_tests[node.id] = bb[1]
            if lab == bb[0] and not bad:
                return (node.id, writable, truncated)
        if bad:
            rb = ro_branch(node)
            if rb is not None and lab in ('T', 'F'):
                writable = (lab == rb)
            if is_trunc(F, node) and lab != 'e':
                if writable is not True:
                    return Violation('the scan truncates the data file '
                                     'without having established that the '
                                     'storage is not read-only')
                truncated = True
            for op in F.ops(node):
                if op.kind == 'call' and op.path is not None and \
                        op.path[-1] == 'update' and \
                        op.path[:2] == ('%param', 'index'):
                    return Violation('the open-time scan indexes a '
                                     'transaction it found incomplete (%s): '
                                     'an unfinished commit would become '
                                     'visible after a crash' %
                                     bad_tests.get(bad, '?'))
            if node.kind == 'loophead':
                return Violation('the open-time scan continues past a '
                                 'transaction it found incomplete (%s)' %
                                 bad_tests.get(bad, '?'))
        return (bad, writable, truncated)

    def at(node, st):
        bad, writable, truncated = st
        if bad and node.id == g.exit_return:
            if writable is None:
                return Violation('the scan leaves an incomplete tail (%s) '
                                 'without consulting the read-only flag' %
                                 bad_tests.get(bad, '?'))
            if writable and not truncated:
                return Violation('the scan leaves an incomplete tail (%s) in '
                                 'place although the storage is writable: a '
                                 'later shorter commit would leave stale '
                                 'bytes that the next scan may accept' %
                                 bad_tests.get(bad, '?'))
        return st

    vs, stats = explore(g, (None, None, False), at=at, edge=edge)
    R.count(stats)
    kinds = set(bad_tests.values())
    for nid, k in sorted(bad_tests.items()):
        R.instance('incomplete-transaction test: %s' % k,
                   stmt=g.nodes[nid].text(70))
    for missing in sorted({'checkpoint', 'short-header'} - kinds):
        R.violation((f.module.relpath, f.qualname, 'test for ' + missing),
                    'the open-time scan has no test that stops at a %s '
                    'transaction: an unfinished commit would be indexed '
                    'after a crash' % missing, instance='read_index')
    for v in vs:
        R.violation(v.node, v.message, g, v.path, instance='read_index')
    # index.update(tindex) is dominated by the passing branch of the
    # redundant-length comparison
    upd = [n for n in (g.nodes[i] for i in g.reachable())
           if any(op.kind == 'call' and op.path is not None and
                  op.path[-1] == 'update' and op.path[:2] == ('%param', 'index')
                  for op in F.ops(n))]
    R.require(upd, 'read_index no longer updates the index')

    def rl_test(node):
        if node.kind != 'test' or not isinstance(node.ast, ast.Compare) or \
                len(node.ast.ops) != 1:
            return None
        c = node.ast
        sides = [c.left, c.comparators[0]]
        names = [s.id for s in sides if isinstance(s, ast.Name)]
        if tl_name not in names or len(names) != 2:
            return None
        other = [n for n in names if n != tl_name][0]
        defs = [d for d in b.local_defs(f).get(other, [])
                if isinstance(d, ast.AST)]
        # read from the file: some 8-byte read
        if not any(isinstance(c_, ast.Call) and len(c_.args) == 1 and
                   isinstance(c_.args[0], ast.Constant) and
                   c_.args[0].value == 8
                   for d in defs for c_ in ast.walk(d)):
            return None
        if isinstance(c.ops[0], ast.NotEq):
            return 'F'
        if isinstance(c.ops[0], ast.Eq):
            return 'T'
        return None

    def status_atom(e, truth):
        """does (e is `truth`) say status == 'c' is false?"""
        if isinstance(e, ast.Compare) and len(e.ops) == 1:
            sides = [e.left, e.comparators[0]]
            names = [x.id for x in sides if isinstance(x, ast.Name)]
            consts = [x.value for x in sides if isinstance(x, ast.Constant)]
            if status_name in names and consts and consts[0] in ('c', b'c'):
                if isinstance(e.ops[0], ast.Eq) and not truth:
                    return True
                if isinstance(e.ops[0], ast.NotEq) and truth:
                    return True
            if status_name in names and isinstance(
                    e.ops[0], ast.In) and truth and consts and \
                    isinstance(consts[0], str) and 'c' not in consts[0]:
                return True
        return False

    cleared_sites = [0]

    def edge5(node, st, lab, tgt):
        from ..flow import implied_atoms
        if node.kind == 'loophead' and node.frame.parent is None and \
                isinstance(node.ast, ast.While) and node.ast in f.node.body:
            return False
        if node.kind == 'test' and lab in ('T', 'F'):
            if any(status_atom(e, t) for e, t in implied_atoms(node.ast,
                                                                lab)):
                cleared_sites[0] += 1
                return True
        return st

    def at5(node, st):
        if node in upd and not st:
            return Violation(
                'index.update(tindex) is reachable on a path whose branches '
                'do not establish that the transaction\'s status is not the '
                'checkpoint flag "c" (the test was weakened or made '
                'conditional): a transaction that was voted but never '
                'finished becomes visible after a crash')
        return st

    vs5, stats5 = explore(g, False, at=at5, edge=edge5)
    R.count(stats5)
    for v in vs5:
        R.violation(v.node, v.message, g, v.path, instance='read_index')

    def edge2(node, st, lab, tgt):
        if node.kind == 'loophead' and node.frame.parent is None and \
                isinstance(node.ast, ast.While) and node.ast in f.node.body:
            st = False
        pl = rl_test(node)
        if pl is not None and lab == pl:
            # only counts for the non-undone path: the check directly before
            st = True
        for op in F.ops(node):
            if op.kind == 'store' and op.path is not None and \
                    op.path == ('%local', 'pos') and lab != 'e':
                pass
        return st

    def at2(node, st):
        if node in upd and not st:
            return Violation('index.update(tindex) is reachable without the '
                             'redundant trailing length having been compared '
                             'with the header length in this iteration')
        return st

    vs2, stats2 = explore(g, False, at=at2, edge=edge2)
    R.count(stats2)
    R.instance('redundant-length check dominates index update',
               update_sites=len(upd))
    for v in vs2:
        R.violation(v.node, v.message, g, v.path, instance='read_index')


# ------------------------------------------------------------------ C01.R7
@rule('C01.R7', 'the id the open-time scan reports as the last transaction '
      'is only ever taken from a transaction it accepted: complete, not '
      'checkpointed, before the stop bound', props=['C04', 'C09'],
      min_instances=1)
def r7(R):
    f = R.prog.func('ZODB.FileStorage.FileStorage.read_index')
    g, b, F = R.cfg(f, None, max_depth=0)
    # the variable returned as the last tid
    ret = None
    for x in walk_local(f.node):
        if isinstance(x, ast.Return) and isinstance(x.value, ast.Tuple) and \
                len(x.value.elts) == 3 and isinstance(
                    x.value.elts[2], ast.Name):
            ret = x.value.elts[2].id
    R.require(ret is not None, 'read_index no longer returns (pos, maxoid, '
              'ltid)')
    stop = 'stop' if 'stop' in f.params else None
    seen = [0]

    def edge(node, st, lab, tgt):
        tidvar, c_ok, stop_ok = st
        a = node.ast
        if lab not in ('e', 'eb') and node.kind == 'stmt' and isinstance(
                a, ast.Assign) and isinstance(a.targets[0], ast.Tuple) and \
                len(a.targets[0].elts) == 6 and isinstance(
                    a.value, ast.Call) and dotted(a.value.func) and \
                dotted(a.value.func)[-1] == 'unpack' and isinstance(
                    a.targets[0].elts[0], ast.Name):
            # a new transaction header: nothing established about it yet
            return (a.targets[0].elts[0].id, False, stop is None)
        if node.kind == 'test' and lab in ('T', 'F') and tidvar:
            for e, truth in implied_atoms(node.ast, lab):
                if isinstance(e, ast.Compare) and len(e.ops) == 1 and \
                        isinstance(e.comparators[0], ast.Constant) and \
                        e.comparators[0].value in ('c', b'c') and \
                        isinstance(e.ops[0], (ast.Eq, ast.NotEq)):
                    if isinstance(e.ops[0], ast.Eq) != truth:
                        c_ok = True
                for l, op, r in cmp_sides(e):
                    if isinstance(l, ast.Name) and l.id == tidvar and \
                            isinstance(r, ast.Name) and r.id == stop:
                        before = (op in (ast.Lt,) and truth) or (
                            op in (ast.GtE,) and not truth)
                        if before:
                            stop_ok = True
        return (tidvar, c_ok, stop_ok)

    def at(node, st):
        tidvar, c_ok, stop_ok = st
        a = node.ast
        if node.kind == 'stmt' and isinstance(a, ast.Assign) and any(
                isinstance(t, ast.Name) and t.id == ret for t in a.targets) \
                and isinstance(a.value, ast.Name) and a.value.id == tidvar:
            seen[0] += 1
            if not (c_ok and stop_ok):
                return Violation(
                    'read_index takes the id of a transaction as the last '
                    'transaction id before it has %s: for an unfinished '
                    'transaction at the end of the file (crash between vote '
                    'and finish; a read-only open while a writer is '
                    'active) lastTransaction() names a transaction that is '
                    'not in the database' % (
                        'seen that it is complete and not checkpointed'
                        if not c_ok else 'compared it with the stop bound'))
        return st

    vs, stats = explore(g, (None, False, stop is None), at=at, edge=edge)
    R.count(stats)
    R.instance('read_index: %s taken from the header' % ret)
    R.require(seen[0] or vs, 'read_index no longer records the last tid')
    for v in vs:
        R.violation(v.node, v.message, g, v.path)


# ------------------------------------------------------------------ C01.R8
@rule('C01.R8', 'the bounded copy helper never reads more than what is left '
      'to copy: the size of each read is established not to exceed the '
      'remaining count after the count last changed', props=['C13', 'C14'],
      min_instances=1)
def r8(R):
    f = R.prog.func('ZODB.utils.cp')
    g, b, F = R.cfg(f, None, max_depth=0)
    ps = f.params
    R.require(len(ps) >= 3, 'cp(f1, f2, length, ...) changed its signature')
    src, remaining = ps[0], ps[2]

    def is_rem(e):
        return isinstance(e, ast.Name) and e.id == remaining

    def is_read(op):
        if op.kind != 'call':
            return False
        fn = op.ast.func
        if isinstance(fn, ast.Attribute) and fn.attr == 'read' and \
                isinstance(fn.value, ast.Name) and fn.value.id == src:
            return True
        if isinstance(fn, ast.Name):
            pv = provenance(fn, op.node.frame, F)
            return ('param', src) in pv and ('attr', 'read') in pv
        return False

    def bounded_expr(e, known):
        """`e` cannot exceed the remaining count."""
        if is_rem(e):
            return True
        if isinstance(e, ast.Name) and e.id in known:
            return True
        if isinstance(e, ast.Call) and isinstance(e.func, ast.Name) and \
                e.func.id == 'min' and any(bounded_expr(a, known)
                                           for a in e.args):
            return True
        if isinstance(e, ast.IfExp):
            # a if a < rem else rem   (either spelling)
            for l, op, r in cmp_sides(e.test):
                if is_rem(r) and isinstance(l, ast.Name):
                    if op in (ast.Lt, ast.LtE) and ast.dump(e.body) == \
                            ast.dump(l) and bounded_expr(e.orelse, known):
                        return True
                    if op in (ast.Gt, ast.GtE) and ast.dump(e.orelse) == \
                            ast.dump(l) and bounded_expr(e.body, known):
                        return True
        return False

    nreads = [0]

    def edge(node, known, lab, tgt):
        if node.kind == 'test' and lab in ('T', 'F'):
            for e, truth in implied_atoms(node.ast, lab):
                for l, op, r in cmp_sides(e):
                    if is_rem(r) and isinstance(l, ast.Name):
                        if (op in (ast.LtE, ast.Lt) and truth) or (
                                op in (ast.Gt,) and not truth):
                            known = known | {l.id}
        if lab in ('e', 'eb'):
            return known
        for op in F.ops(node):
            if op.kind in ('store', 'aug') and op.path and \
                    op.path[0] == '%local':
                name = op.path[1]
                if name == remaining:
                    # the count changed: nothing is known to be within it
                    # (an initialisation before the loop included)
                    known = frozenset()
                elif op.kind == 'store':
                    v = store_value(op)
                    if v is not None and bounded_expr(v, known):
                        known = known | {name}
                    else:
                        known = known - {name}
                else:
                    known = known - {name}
        return known

    def at(node, known):
        for op in F.ops(node):
            if is_read(op):
                a = op.ast.args[0] if op.ast.args else None
                if a is None or not bounded_expr(a, known):
                    return Violation(
                        'cp() reads `%s` bytes from the source although '
                        'fewer may be left to copy (the size was last '
                        'bounded before the remaining count changed): it '
                        'copies bytes beyond the requested length -- at '
                        'vote, stale bytes of an earlier, larger '
                        'transaction from the staging file end up in the '
                        'data file in front of the trailing length' % (
                            ast.unparse(a) if a is not None else 'all'))
        return known

    for nid in g.reachable():
        for op in F.ops(g.nodes[nid]):
            if is_read(op):
                nreads[0] += 1
                R.instance('cp: %s' % g.nodes[nid].text(50))
    vs, stats = explore(g, frozenset(), at=at, edge=edge)
    R.count(stats)
    for v in vs:
        R.violation(v.node, v.message, g, v.path)
    R.require(nreads[0] >= 1, 'cp() no longer reads from its source')


# ------------------------------------------------------------------ C01.R9
@rule('C01.R9', 'the connection hands EVERY commit to the storage\'s vote: '
      'the only way round it is a storage that has no tpc_vote (the storage '
      'fixes where the transaction ends in its vote; a finish without vote '
      'moves the end of the data to position 0)', props=['C05'],
      min_instances=1)
def r9(R):
    cls = R.prog.cls('ZODB.Connection.Connection')
    f = R.method(cls, 'tpc_vote')
    g, b, F = R.cfg(f, cls, max_depth=0)
    # returns inside `except AttributeError:` -- the storage has no vote
    exempt = set()
    for t in walk_local(f.node):
        if isinstance(t, ast.Try):
            for h in t.handlers:
                if h.type is not None and any(
                        isinstance(x, ast.Name) and x.id == 'AttributeError'
                        for x in ast.walk(h.type)):
                    exempt |= {id(x) for s_ in h.body for x in ast.walk(s_)
                               if isinstance(x, ast.Return)}
    # the vote, by role: a call of `<storage>.tpc_vote`, directly or
    # through a local bound to that attribute
    def vote_attr(v):
        if isinstance(v, ast.Attribute) and v.attr == 'tpc_vote':
            return True
        return isinstance(v, ast.Call) and isinstance(
            v.func, ast.Name) and v.func.id == 'getattr' and \
            len(v.args) >= 2 and isinstance(v.args[1], ast.Constant) and \
            v.args[1].value == 'tpc_vote'

    aliases = {t.id for a in walk_local(f.node)
               if isinstance(a, ast.Assign) and vote_attr(a.value)
               for t in a.targets if isinstance(t, ast.Name)}
    seen = [0]

    def votes(node):
        for op in F.ops(node):
            if op.kind != 'call' or not isinstance(op.ast, ast.Call):
                continue
            fn = op.ast.func
            if isinstance(fn, ast.Attribute) and fn.attr == 'tpc_vote':
                return True
            if isinstance(fn, ast.Name) and fn.id in aliases:
                return True
            if op.path is not None and op.path[-1] == 'tpc_vote':
                return True
        return False

    def edge(node, st, lab, tgt):
        if votes(node):
            seen[0] += 1
            return True
        if node.kind == 'return' and id(node.ast) in exempt:
            return True
        if node.kind == 'test' and lab in ('T', 'F'):
            # `vote = getattr(storage, 'tpc_vote', None)`; `if vote is None`
            for e, truth in implied_atoms(node.ast, lab):
                if isinstance(e, ast.Compare) and len(e.ops) == 1 and \
                        isinstance(e.left, ast.Name) and \
                        e.left.id in aliases and isinstance(
                            e.comparators[0], ast.Constant) and \
                        e.comparators[0].value is None and \
                        isinstance(e.ops[0], ast.Is) == truth:
                    return True
                if isinstance(e, ast.Name) and e.id in aliases and \
                        not truth:
                    return True
        return st

    def at(node, st):
        if node.id == g.exit_return and not st:
            return Violation(
                'Connection.tpc_vote can return without having called the '
                'storage\'s tpc_vote: the transaction is finished without a '
                'vote.  FileStorage fixes the end of the transaction in its '
                'vote (_nextpos); its finish then sets the end of the data '
                'to 0 -- the commit returns, and the next one is written '
                'over the beginning of the file')
        return st

    vs, stats = explore(g, False, at=at, edge=edge)
    R.count(stats)
    R.instance('Connection.tpc_vote', vote_calls=seen[0])
    R.require(seen[0] >= 1, 'Connection.tpc_vote no longer calls the '
              'storage\'s tpc_vote')
    for v in vs[:1]:
        R.violation(v.node, v.message, g, v.path, at_root=True,
                    key='commit finished without the storage\'s vote')
