"""C10 -- conflict resolution stores exactly the class's three-way merge."""

import ast

from ..engine import rule
from ..flow import PRUNE, Violation, explore, path_ends, path_is, prov_has, \
    provenance, store_value
from ..model import dotted, walk_local
from ..twopc import BS, DS, FS, MS

TRY = 'ZODB.ConflictResolution.tryToResolveConflict'
CONN = 'ZODB.Connection.Connection'


def names_in(e):
    return {x.id for x in ast.walk(e) if isinstance(x, ast.Name)}


@rule('C10.R1', 'the resolver is called with (state the writer started from, '
      'state now committed, state the writer wants), at the resolver and at '
      'every call site', props=['C06', 'C03'], min_instances=4)
def r1(R):
    f = R.prog.func(TRY)
    g, b, F = R.cfg(f, None, max_depth=0)
    params = f.params      # self, oid, committedSerial, oldSerial, newpickle..
    R.require(params[:5] == ['self', 'oid', 'committedSerial', 'oldSerial',
                             'newpickle'],
              'tryToResolveConflict signature changed: %s' % params)
    calls = [c for c in walk_local(f.node) if isinstance(c, ast.Call) and
             isinstance(c.func, ast.Name) and len(c.args) == 3]
    resolver_calls = []
    for c in calls:
        pv = provenance(c.func, g.root, F)
        if ('attr', '_p_resolveConflict') in pv:
            resolver_calls.append(c)
    R.instance('tryToResolveConflict resolver call', n=len(resolver_calls))
    if not resolver_calls:
        R.violation((f.module.relpath, f.qualname, 'resolver call'),
                    'the class\'s _p_resolveConflict is no longer called '
                    'with three states')
    for c in resolver_calls:
        roles = []
        for a in c.args:
            pv = provenance(a, g.root, F)
            ps = {v for k, v in pv if k == 'param'}
            role = set()
            if 'oldSerial' in ps:
                role.add('old')
            if 'committedSerial' in ps or 'committedData' in ps:
                role.add('committed')
            if 'newpickle' in ps and not ({'oldSerial', 'committedSerial'}
                                          & ps):
                role.add('new')
            roles.append(role)
        want = [{'old'}, {'committed'}, {'new'}]
        if roles != want:
            R.violation((f.module.relpath, f.qualname,
                         ' '.join(ast.unparse(c).split()), c.lineno),
                        'the resolver receives its three states in the roles '
                        '%s instead of (old, committed, new): the merge is '
                        'computed against the wrong base' % (
                            [sorted(r) for r in roles],))
    # call sites
    sites = [
        (FS, 'store', ('index-tid', 'serial', 'data')),
        (DS, 'store', ('merged-tid', 'serial', 'data')),
        (FS, '_transactionalUndoRecord', None),
    ]
    for q, meth, _ in sites:
        cls = R.prog.cls(q)
        m = R.method(cls, meth)
        g2, b2, F2 = R.cfg(m, cls, max_depth=0)
        ps = [p for p in m.params if p != 'self']
        for op in F2.all_ops():
            if op.kind == 'call' and op.path and \
                    op.path[-1] == 'tryToResolveConflict':
                a = op.ast.args
                R.instance('%s.%s call site' % (cls.name, meth),
                           stmt=ast.unparse(op.ast)[:80])
                if len(a) < 4:
                    R.violation(op.node, 'tryToResolveConflict is called '
                                'with %d arguments' % len(a))
                    continue
                if meth == 'store':
                    oid_p, serial_p, data_p = ps[0], ps[1], ps[2]
                    ok_oid = isinstance(a[0], ast.Name) and a[0].id == oid_p
                    pv_c = provenance(a[1], op.node.frame, F2)
                    ok_committed = not (isinstance(a[1], ast.Name) and
                                        a[1].id == serial_p) and \
                        ('param', oid_p) in pv_c
                    ok_old = isinstance(a[2], ast.Name) and \
                        a[2].id == serial_p
                    ok_data = isinstance(a[3], ast.Name) and a[3].id == data_p
                    if not (ok_oid and ok_committed and ok_old and ok_data):
                        R.violation(op.node, 'the conflict resolver is given '
                                    '(%s) instead of (oid, committed tid, '
                                    'the caller\'s serial, the caller\'s '
                                    'data): the writer\'s base and the '
                                    'committed revision are mixed up' %
                                    ', '.join(ast.unparse(x) for x in a[:4]))
                else:
                    # undo: (oid, current tid, undone tid, previous data,
                    #        current data)
                    pv_cur = provenance(a[1], op.node.frame, F2)
                    ok_cur = prov_has(pv_cur, 'call', lambda p: p[-1] ==
                                      '_undoDataInfo')
                    ok_undone = isinstance(a[2], ast.Name) and \
                        a[2].id == ps[2]          # tid of the undone txn
                    pv_pre = provenance(a[3], op.node.frame, F2)
                    ok_pre = ('param', ps[3]) in pv_pre   # pre
                    ok_cdata = len(a) >= 5 and prov_has(
                        provenance(a[4], op.node.frame, F2), 'call',
                        lambda p: p[-1] in ('_undoDataInfo',
                                            '_loadBack_impl'))
                    if not (ok_cur and ok_undone and ok_pre and ok_cdata):
                        R.violation(op.node, 'undo calls the resolver with '
                                    'the wrong roles: expected (oid, tid of '
                                    'the current revision, tid being undone, '
                                    'data before the undone transaction, '
                                    'current data)')


@rule('C10.R2', 'what is returned is the re-pickled resolver result with the '
      'original class metadata; every other exit raises ConflictError',
      min_instances=2)
def r2(R):
    f = R.prog.func(TRY)
    g, b, F = R.cfg(f, None, max_depth=0)
    rets = [n for n in (g.nodes[i] for i in g.reachable())
            if n.kind == 'return' and n.frame.parent is None]
    R.instance('tryToResolveConflict returns', n=len(rets))
    resolved = set()
    for x in walk_local(f.node):
        if isinstance(x, ast.Assign) and isinstance(x.value, ast.Call) and \
                isinstance(x.value.func, ast.Name) and \
                len(x.value.args) == 3 and isinstance(x.targets[0], ast.Name):
            pv = provenance(x.value.func, g.root, F)
            if ('attr', '_p_resolveConflict') in pv:
                resolved.add(x.targets[0].id)
    dumps = [c for c in walk_local(f.node) if isinstance(c, ast.Call) and
             isinstance(c.func, ast.Attribute) and c.func.attr == 'dump'
             and c.args]
    dumped = [a.id for c in dumps for a in c.args[:1]
              if isinstance(a, ast.Name)]
    if not (resolved and any(r in dumped for r in resolved)):
        R.violation((f.module.relpath, f.qualname, 'resolved state pickled'),
                    'the state returned by the resolver is not what gets '
                    'pickled into the stored record')
    if 'meta' not in dumped and len(dumped) < 2:
        R.violation((f.module.relpath, f.qualname, 'class metadata pickled'),
                    'the resolved record no longer starts with the original '
                    'class metadata')
    for n in rets:
        v = n.ast.value
        pv = provenance(v, n.frame, F) if v is not None else set()
        ok = prov_has(pv, 'call', lambda p: p[-1] == 'getvalue')
        if not ok:
            R.violation(n, 'tryToResolveConflict returns `%s`, not the '
                        're-pickled resolver result' % (
                            ast.unparse(v) if v is not None else 'None'))
    # all other exits raise ConflictError: the function cannot fall off the
    # end, and the final statement is `raise ConflictError`
    last = f.node.body[-1]
    R.instance('tryToResolveConflict final raise')
    ok = isinstance(last, ast.Raise) and last.exc is not None and \
        'ConflictError' in ast.unparse(last.exc)
    if not ok:
        R.violation((f.module.relpath, f.qualname, 'final raise'),
                    'a failed or impossible resolution no longer ends in '
                    'ConflictError: the store goes on with unresolved data')

    def at(node, st):
        if node.id == g.exit_return and st != 'returned-value':
            return Violation('tryToResolveConflict can return None (fall '
                             'through) when resolution failed')
        return st

    def edge(node, st, lab, tgt):
        if node.kind == 'return' and node.ast.value is not None:
            return 'returned-value'
        return st

    vs, stats = explore(g, 'none', at=at, edge=edge)
    R.count(stats)
    for v in vs:
        R.violation((f.module.relpath, f.qualname, 'fall through'),
                    v.message, g, v.path)


@rule('C10.R4', 'a store that resolved a conflict reports the oid at vote; '
      'the list is cleared at begin and forwarded by the adapters',
      min_instances=5)
def r4(R):
    for q, meth in ((FS, 'store'), (DS, 'store')):
        cls = R.prog.cls(q)
        f = R.method(cls, meth)
        g, b, F = R.cfg(f, cls, max_depth=0)
        R.instance('%s.%s records resolved oids' % (cls.name, meth))

        def edge(node, st, lab, tgt, F=F):
            if lab == 'e':
                return st
            for op in F.ops(node):
                if op.kind == 'call' and op.path and \
                        op.path[-1] == 'tryToResolveConflict':
                    st = 'resolved'
                if op.kind == 'call' and path_is(
                        op.path, ('self', '_resolved', 'append')) and \
                        st == 'resolved':
                    st = 'recorded'
            return st

        def at(node, st, g=g, cls=cls):
            if node.id == g.exit_return and st == 'resolved':
                return Violation(
                    '%s.store resolves a conflict without recording the oid '
                    'for tpc_vote: the connection keeps its own, now stale, '
                    'copy of the object as current' % cls.name)
            return st

        vs, stats = explore(g, 'none', at=at, edge=edge)
        R.count(stats)
        for v in vs:
            R.violation((f.module.relpath, f.qualname, '_resolved.append'),
                        v.message, g, v.path)
    for q in (FS, BS, DS):
        cls = R.prog.cls(q)
        f = R.method(cls, 'tpc_vote')
        g, b, F = R.cfg(f, cls, max_depth=2)
        R.instance('%s.tpc_vote returns the list' % cls.name)
        rets = [n for n in (g.nodes[i] for i in g.reachable())
                if n.kind == 'return' and n.frame.parent is None]
        bad = [n for n in rets if not (
            n.ast.value is not None and (
                dotted(n.ast.value) == ('self', '_resolved') or prov_has(
                    provenance(n.ast.value, n.frame, F), 'path',
                    lambda p: p == ('self', '_resolved'))))]
        if not rets or bad:
            R.violation((f.module.relpath, f.qualname, 'vote result'),
                        '%s.tpc_vote does not return the list of resolved '
                        'oids' % cls.name)
        b2 = R.method(cls, 'tpc_begin')
        src = ast.unparse(b2.node)
        if 'del self._resolved[:]' not in src and \
                'self._resolved = []' not in src and \
                'self._resolved.clear()' not in src:
            R.violation((b2.module.relpath, b2.qualname, 'clear resolved'),
                        '%s.tpc_begin does not clear the list of resolved '
                        'oids: oids of an earlier transaction are ghostified '
                        'again' % cls.name)
    inst = R.prog.cls('ZODB.mvccadapter.MVCCAdapterInstance')
    cm = inst.attrs.get('_copy_methods')
    ok = cm is not None and any(isinstance(c, ast.Constant) and
                                c.value == 'tpc_vote' for c in ast.walk(cm))
    R.instance('MVCCAdapterInstance forwards tpc_vote', ok=ok)
    if not ok and 'tpc_vote' not in inst.methods:
        R.violation((inst.module.relpath, inst.qualname, 'tpc_vote'),
                    'the MVCC adapter instance no longer forwards tpc_vote')


@rule('C10.R5', 'the connection discards its own copy of every object the '
      'vote reports as resolved', min_instances=1)
def r5(R):
    cls = R.prog.cls(CONN)
    f = R.method(cls, 'tpc_vote')
    g, b, F = R.cfg(f, cls, max_depth=0)
    R.instance('Connection.tpc_vote')
    votes = [x for x in walk_local(f.node) if isinstance(x, ast.Assign) and
             isinstance(x.value, ast.Call) and isinstance(
                 x.targets[0], ast.Name)]
    res = None
    for x in votes:
        pv = provenance(x.value.func, g.root, F)
        if ('attr', 'tpc_vote') in pv or (isinstance(
                x.value.func, ast.Attribute) and
                x.value.func.attr == 'tpc_vote'):
            res = x.targets[0].id
    if res is None:
        R.violation((f.module.relpath, f.qualname, 'vote result'),
                    'the result of the storage\'s tpc_vote is dropped')
        return
    loops = [l for l in walk_local(f.node) if isinstance(l, ast.For) and
             isinstance(l.iter, ast.Name) and l.iter.id == res]
    ok = False
    for l in loops:
        for x in ast.walk(l):
            if isinstance(x, ast.Delete) and any(
                    isinstance(t, ast.Attribute) and t.attr == '_p_changed'
                    for t in x.targets):
                ok = True
            if isinstance(x, ast.Call) and isinstance(
                    x.func, ast.Attribute) and x.func.attr in (
                        '_p_invalidate', 'invalidate', '_p_deactivate'):
                ok = True
    if not ok:
        R.violation((f.module.relpath, f.qualname, 'ghostify resolved'),
                    'objects whose stored data was replaced by a merge are '
                    'not turned into ghosts: the writer keeps reading its '
                    'own pre-merge state')


# ------------------------------------------------------------------ C10.R6
PRF = 'ZODB.ConflictResolution.PersistentReferenceFactory'


@rule('C10.R6', 'a reference read during resolution is written back in the '
      'spelling it was read in: the per-resolution reference cache is keyed '
      'by the whole reference, and persistent_id returns the stored '
      'reference data', props=['C14'], min_instances=2)
def r6(R):
    cls = R.prog.cls(PRF)
    f = R.method(cls, 'persistent_load')
    g, b, F = R.cfg(f, cls, max_depth=0)
    n = 0
    # every key used on the cache (self.data[...], .get(k), .setdefault(k))
    keys = []
    for x in walk_local(f.node):
        if isinstance(x, ast.Subscript) and dotted(x.value) == (
                'self', 'data'):
            keys.append((x.slice, x))
        elif isinstance(x, ast.Call) and isinstance(x.func, ast.Attribute) \
                and dotted(x.func.value) == ('self', 'data') and \
                x.func.attr in ('get', 'setdefault', 'pop', '__contains__') \
                and x.args:
            keys.append((x.args[0], x))
        elif isinstance(x, ast.Compare) and len(x.ops) == 1 and isinstance(
                x.ops[0], (ast.In, ast.NotIn)) and dotted(
                    x.comparators[0]) == ('self', 'data'):
            keys.append((x.left, x))
    frame = g.root
    R.require(frame is not None, 'no root frame')
    for k, site in keys:
        n += 1
        R.instance('persistent_load cache key: %s' % ast.unparse(site)[:60])
        pv = provenance(k, frame, F)
        whole = prov_has(pv, 'param', lambda p: p == 'ref')
        parsed = prov_has(pv, 'attr', lambda a: a in (
            'oid', 'database_name', 'weak', 'klass')) or prov_has(
                pv, 'call', lambda p: p[-1].split('.')[-1] ==
                'PersistentReference')
        if not whole or parsed:
            R.violation(
                (f.module.relpath, f.qualname,
                 ' '.join(ast.unparse(site).split()), site.lineno),
                'the reference cache is keyed by %s, not by the whole '
                'reference: two differently spelled references to one object '
                '(obj and WeakRef(obj), with/without class) share one '
                'PersistentReference and are both written back in the '
                'spelling seen first' % ast.unparse(k),
                key='reference cache key')
    # the writer side: persistent_id returns the reference's stored data
    pid = R.prog.func('ZODB.ConflictResolution.persistent_id')
    rets = [r for r in walk_local(pid.node) if isinstance(r, ast.Return)
            and r.value is not None and not (isinstance(
                r.value, ast.Constant) and r.value.value is None)]
    R.require(rets, 'persistent_id returns nothing')
    for r in rets:
        n += 1
        R.instance('persistent_id: %s' % ast.unparse(r))
        if not (isinstance(r.value, ast.Attribute) and
                r.value.attr == 'data' and isinstance(
                    r.value.value, ast.Name) and
                r.value.value.id in pid.params):
            R.violation(
                (pid.module.relpath, pid.qualname,
                 ' '.join(ast.unparse(r).split()), r.lineno),
                'persistent_id does not return the stored reference data of '
                'the PersistentReference it is given',
                key='persistent_id return')
    R.require(n >= 2, 'no cache keys found')


# ------------------------------------------------------------------ C10.R7
@rule('C10.R7', 'the record header a store stages carries the length of the '
      'data that is written after it (the resolver may have replaced the '
      'data)', props=['C01', 'C04'], min_instances=2)
def r7(R):
    """Typestate per staged record: the header is built from len(<name>);
    if <name> is re-bound before `_tfile.write(<name>)` the header describes
    other bytes than the ones that follow it."""
    cls = R.prog.cls(FS)
    n = 0
    for meth in ('store', 'restore', 'deleteObject'):
        f = R.method(cls, meth)
        g, b, F = R.cfg(f, cls, max_depth=0)

        def edge(node, st, lab, tgt, F=F):
            if lab in ('e', 'eb'):
                return st
            a = node.ast
            measured, stale = st
            if node.kind == 'stmt' and isinstance(a, ast.Assign):
                # header built: which names were measured
                for c in ast.walk(a.value):
                    if isinstance(c, ast.Call) and dotted(c.func) and \
                            dotted(c.func)[-1] == 'DataHeader':
                        names = {y.args[0].id for y in ast.walk(c)
                                 if isinstance(y, ast.Call) and isinstance(
                                     y.func, ast.Name) and y.func.id == 'len'
                                 and y.args and isinstance(
                                     y.args[0], ast.Name)}
                        measured = frozenset(names)
                        stale = frozenset()
                for t in a.targets:
                    for nm in ast.walk(t):
                        if isinstance(nm, ast.Name) and nm.id in measured:
                            stale = stale | {nm.id}
            return (measured, stale)

        def at(node, st, F=F, meth=meth):
            measured, stale = st
            for op in F.ops(node):
                if op.kind == 'call' and path_is(
                        op.path, ('self', '_tfile', 'write')) and \
                        op.ast.args and isinstance(op.ast.args[0], ast.Name) \
                        and op.ast.args[0].id in stale:
                    return Violation(
                        'FileStorage.%s writes `%s` after a header that was '
                        'built from the length of an EARLIER value of it '
                        '(the data was re-bound in between, e.g. by conflict '
                        'resolution): the record length does not match the '
                        'bytes that follow, loads fail and the file cannot '
                        'be scanned' % (meth, op.ast.args[0].id))
            return st

        sites = [c for c in walk_local(f.node) if isinstance(c, ast.Call)
                 and dotted(c.func) and dotted(c.func)[-1] == 'DataHeader']
        for c in sites:
            n += 1
            R.instance('FileStorage.%s: %s' % (meth, ast.unparse(c)[:60]))
        vs, stats = explore(g, (frozenset(), frozenset()), at=at, edge=edge)
        R.count(stats)
        for v in vs:
            R.violation(v.node, v.message, g, v.path)
    R.require(n >= 2, 'no staged record headers found')


# ------------------------------------------------------------------ C10.R8
@rule('C10.R8', 'the resolved record starts with the class metadata exactly '
      'as the writer\'s record had it: what is dumped first is the object '
      'loaded first from the new pickle, not something taken out of it '
      '(class WITH its __getnewargs__ arguments)', props=['C14'],
      min_instances=1)
def r8(R):
    f = R.prog.func('ZODB.ConflictResolution.tryToResolveConflict')
    # the local that receives the first load() of an unpickler
    loads = [s for s in walk_local(f.node) if isinstance(s, ast.Assign) and
             isinstance(s.value, ast.Call) and isinstance(
                 s.value.func, ast.Attribute) and s.value.func.attr == 'load'
             and isinstance(s.targets[0], ast.Name)]
    R.require(loads, 'tryToResolveConflict no longer unpickles the record')
    loads.sort(key=lambda s: s.lineno)
    meta = loads[0].targets[0].id
    dumps = [c for c in walk_local(f.node) if isinstance(c, ast.Call) and
             isinstance(c.func, ast.Attribute) and c.func.attr == 'dump' and
             c.args]
    R.require(dumps, 'tryToResolveConflict no longer writes the resolved '
              'record')
    dumps.sort(key=lambda c: c.lineno)
    first = dumps[0]
    R.instance('tryToResolveConflict', metadata_local=meta,
               first_dump=ast.unparse(first))
    a = first.args[0]
    if not (isinstance(a, ast.Name) and a.id == meta):
        R.violation(
            (f.module.relpath, f.qualname, ' '.join(ast.unparse(
                first).split()), first.lineno),
            'the resolved record is started with `%s`, not with the class '
            'metadata as loaded from the writer\'s record (`%s`): for a '
            'class with __getnewargs__ the arguments are lost, a fresh '
            'connection cannot make the ghost (TypeError) and every object '
            'referring to it becomes unloadable' % (ast.unparse(a), meta),
            key='resolved record not started with the loaded metadata')


# ------------------------------------------------------------------ C10.R9
@rule('C10.R9', 'a class is remembered as unresolvable only for having no '
      'resolver: no entry is made in the process-wide table on a path on '
      'which the class\'s resolver was called (a refusal concerns the three '
      'states at hand, not the class)', min_instances=1)
def r9(R):
    f = R.prog.func(TRY)
    g, b, F = R.cfg(f, None, max_depth=0)
    resolver = set()
    for c in walk_local(f.node):
        if isinstance(c, ast.Call):
            fn = c.func
            if isinstance(fn, ast.Attribute) and \
                    fn.attr == '_p_resolveConflict':
                resolver.add(id(c))
            elif isinstance(fn, ast.Name) and (
                    'attr', '_p_resolveConflict') in provenance(fn, g.root, F):
                resolver.add(id(c))
    n = [0]

    def is_entry(op):
        def table(x):
            return x.split('.')[-1] == '_unresolvable'
        return bool(op.kind in ('setitem', 'augitem') and op.path and
                    table(op.path[-1]) or (
                        op.kind == 'call' and op.path and
                        len(op.path) >= 2 and table(op.path[-2]) and
                        op.path[-1] in ('setdefault', 'update',
                                        '__setitem__')))

    def edge(node, st, lab, tgt):
        if not st and any(op.kind == 'call' and id(op.ast) in resolver
                          for op in F.ops(node)):
            return True           # whether it returned or raised
        return st

    def at(node, st):
        for op in F.ops(node):
            if is_entry(op):
                n[0] += 1
                if st:
                    return Violation(
                        'tryToResolveConflict enters the class in '
                        '_unresolvable after its resolver was called: one '
                        'refusal (a ConflictError raised by '
                        '_p_resolveConflict for states it cannot merge) '
                        'makes every later conflict on an instance of the '
                        'class fail without the resolver being asked, for '
                        'the rest of the process')
        return st

    vs, stats = explore(g, False, at=at, edge=edge)
    R.count(stats)
    # the entry made today sits in the handler of an attribute lookup, which
    # the graph (exception edges from calls and raises only) does not reach:
    # the entries are counted in the syntax tree, the paths decide
    n[0] = sum(1 for s_ in walk_local(f.node)
               if isinstance(s_, (ast.Assign, ast.AugAssign))
               for t in (s_.targets if isinstance(s_, ast.Assign)
                         else [s_.target])
               if isinstance(t, ast.Subscript) and
               isinstance(t.value, ast.Name) and
               t.value.id == '_unresolvable')
    R.instance('tryToResolveConflict', resolver_calls=len(resolver),
               table_entries=n[0])
    R.require(resolver, 'no call of the class\'s resolver found')
    R.require(n[0] >= 1 or vs, 'tryToResolveConflict no longer remembers '
              'classes without a resolver')
    for v in vs[:1]:
        R.violation(v.node, v.message, g, v.path,
                    key='class remembered as unresolvable after a refusal')
