"""Rule modules, one per property.  Importing this package registers every
rule with zverif.engine."""
import importlib
import pkgutil

for _m in sorted(m.name for m in pkgutil.iter_modules(__path__)):
    importlib.import_module(__name__ + '.' + _m)
