"""C12 -- savepoint rollback restores the savepoint state, any number of
times."""

import ast

from ..engine import rule
from ..flow import PRUNE, Violation, explore, path_ends, path_is, prov_has, \
    provenance, store_value, truth_test
from ..model import dotted, walk_local
from ..cfg import is_builtin_container

CONN = 'ZODB.Connection.Connection'
TMP = 'ZODB.Connection.TmpStore'

COPY_FUNCS = {'dict', 'list', 'set', 'tuple', 'frozenset', 'sorted'}


def is_fresh_copy(e):
    """x.copy(), dict(x), list(x), copy.copy(x), {**x}, x[:] ..."""
    if isinstance(e, ast.Call):
        if isinstance(e.func, ast.Attribute) and e.func.attr in (
                'copy', 'deepcopy', '__copy__'):
            return True
        if isinstance(e.func, ast.Name) and e.func.id in COPY_FUNCS | {
                'copy', 'deepcopy'}:
            return True
    if isinstance(e, (ast.Dict, ast.List, ast.Set, ast.DictComp,
                      ast.ListComp, ast.SetComp)):
        return True
    if isinstance(e, ast.Subscript) and isinstance(e.slice, ast.Slice):
        return True
    return False


def container_fields(R, cls):
    """self fields initialised to a builtin container in __init__."""
    out = set()
    for attr, facts in R.prog.self_attr_facts(cls).items():
        for kind, payload, f, n in facts:
            if f.name == '__init__' and kind == 'other' and \
                    payload is not None and is_builtin_container(payload):
                out.add(attr)
    return out


@rule('C12.R1', 'the state captured by a savepoint, and what the savepoint '
      'store retains on reset, are fresh copies (never aliases)',
      props=['C14'], min_instances=4)
def r1(R):
    conn = R.prog.cls(CONN)
    tmp = R.prog.cls(TMP)
    mutable = container_fields(R, tmp)
    R.require({'index', 'creating'} <= mutable,
              'TmpStore container fields not recognised: %s' % mutable)
    # (a) Connection.savepoint: state = (...)
    f = R.method(conn, 'savepoint')
    g, b, F = R.cfg(f, conn, max_depth=0)
    found = 0
    for nid in sorted(g.reachable()):
        node = g.nodes[nid]
        s = node.ast
        if node.kind == 'stmt' and isinstance(s, ast.Assign) and \
                isinstance(s.value, ast.Tuple):
            elts = s.value.elts
            touches = [e for e in elts
                       if any(isinstance(x, ast.Attribute) and
                              x.attr in mutable | {'position'}
                              for x in ast.walk(e))]
            if len(touches) < 2:
                continue
            for e in elts:
                attrs = {x.attr for x in ast.walk(e)
                         if isinstance(x, ast.Attribute)}
                m = attrs & mutable
                if not m:
                    continue
                found += 1
                R.instance('savepoint state component',
                           expr=ast.unparse(e)[:60])
                if not is_fresh_copy(e):
                    R.violation(node, 'the savepoint state captures `%s` by '
                                'reference: later changes of the savepoint '
                                'store change the saved state, so a rollback '
                                'does not restore it' % ast.unparse(e))
    R.require(found >= 2, 'savepoint state tuple not recognised')
    # (b) TmpStore.reset retains only copies of its mutable arguments
    f2 = R.method(tmp, 'reset')
    g2, b2, F2 = R.cfg(f2, tmp, max_depth=0)
    n2 = 0
    for op in F2.all_ops():
        if op.kind == 'store' and op.path and op.path[0] == 'self' and \
                len(op.path) == 2 and op.path[1] in mutable:
            v = store_value(op)
            n2 += 1
            R.instance('TmpStore.reset retains', field=op.path[1],
                       expr=ast.unparse(v)[:50] if v is not None else '?')
            if v is None or not is_fresh_copy(v):
                R.violation(op.node, 'TmpStore.reset keeps the caller\'s `%s` '
                            'object itself: the savepoint that passed it sees '
                            'every later change, so rolling back to it again '
                            'does not restore the saved state' % op.path[1])
    R.require(n2 >= 2, 'TmpStore.reset no longer restores index/creating')


@rule('C12.R2', 'rollback order: abort registered objects, disown objects '
      'created later, capture the index, reset, invalidate the captured '
      'index', props=['C14', 'C11'], min_instances=1)
def r2(R):
    conn = R.prog.cls(CONN)
    f = R.method(conn, '_rollback_savepoint')
    g, b, F = R.cfg(f, conn, max_depth=0)
    R.instance('Connection._rollback_savepoint', cfg_nodes=len(g.reachable()))
    captured = set()

    def events(node):
        ev = []
        for op in F.ops(node):
            if op.kind == 'call':
                if path_is(op.path, ('self', '_abort')):
                    ev.append('abort')
                elif path_is(op.path, ('self', '_invalidate_creating')):
                    ev.append('disown')
                elif path_is(op.path, ('self', '_storage', 'reset')):
                    ev.append('reset')
                elif path_is(op.path, ('self', '_cache', 'invalidate')):
                    a = op.ast.args[0] if op.ast.args else None
                    if isinstance(a, ast.Name) and a.id in captured:
                        ev.append('invalidate')
                    elif a is not None and dotted(a) and F.canon(
                            a, node.frame) == ('self', '_storage', 'index'):
                        ev.append('invalidate-live')
            if op.kind == 'store' and op.path and op.path[0] == '%local':
                v = store_value(op)
                if v is not None and dotted(v) and F.canon(
                        v, node.frame) == ('self', '_storage', 'index'):
                    captured.add(op.path[1])
                    ev.append('capture')
        return ev

    # pre-compute captured names
    for nid in g.reachable():
        events(g.nodes[nid])

    def edge(node, st, lab, tgt):
        done = st
        if lab == 'e':
            return st
        for e in events(node):
            if e == 'disown' and 'abort' not in done:
                return Violation('objects created after the savepoint are '
                                 'disowned before the registered objects are '
                                 'aborted')
            if e == 'reset':
                for need in ('abort', 'disown', 'capture'):
                    if need not in done:
                        return Violation(
                            'the savepoint store is reset before the %s step: '
                            '%s' % (need, {
                                'capture': 'the index of what was written '
                                'after the savepoint is lost, so those '
                                'objects keep their rolled-back state in the '
                                'cache',
                                'abort': 'registered objects are not aborted',
                                'disown': 'objects created after the '
                                'savepoint stay owned'}[need]))
            if e == 'capture' and 'reset' in done:
                return Violation('the index is captured after the reset: only '
                                 'objects of the restored state are '
                                 'invalidated, objects written after the '
                                 'savepoint keep their later state')
            if e in ('invalidate', 'invalidate-live') and 'reset' not in done:
                return Violation('the cache is invalidated before the '
                                 'savepoint store is reset: a reload can read '
                                 'the data that is being rolled back')
            if e == 'invalidate-live':
                return Violation('the cache invalidation uses the index after '
                                 'the reset instead of the one captured '
                                 'before it')
            done = frozenset(done | {e})
        return done

    def at(node, st):
        if node.id == g.exit_return:
            missing = [e for e in ('abort', 'disown', 'capture', 'reset',
                                   'invalidate') if e not in st]
            if missing:
                return Violation('a rollback can finish without: %s' %
                                 ', '.join(missing))
        return st

    vs, stats = explore(g, frozenset(), at=at, edge=edge)
    R.count(stats)
    for v in vs:
        n = v.node
        if n.id == g.exit_return:
            n = (f.module.relpath, f.qualname, 'rollback steps')
        R.violation(n, v.message, g, v.path)


ALLOWED_ON_REAL = {'load', 'loadBlob', 'temporaryDirectory'}
ALLOWED_ALIASES = {'getName', 'new_oid', 'sortKey', 'isReadOnly'}


@rule('C12.R3', 'the savepoint store is private: it only reads from the real '
      'storage', min_instances=4)
def r3(R):
    tmp = R.prog.cls(TMP)
    n = 0
    for f in tmp.methods.values():
        g, b, F = R.cfg(f, tmp, max_depth=0)
        for op in F.all_ops():
            if op.kind == 'call' and op.path and op.path[:2] == (
                    'self', '_storage') and len(op.path) == 3:
                n += 1
                R.instance('TmpStore.%s -> _storage.%s' % (f.name, op.path[2]))
                if op.path[2] not in ALLOWED_ON_REAL:
                    R.violation(op.node, 'the savepoint store calls `%s` on '
                                'the real storage: savepoint data must not '
                                'reach it before the commit' % op.path[2])
        if f.name == '__init__':
            for node in ast.walk(f.node):
                if isinstance(node, ast.For) and isinstance(
                        node.iter, (ast.Tuple, ast.List)):
                    names = [e.value for e in node.iter.elts
                             if isinstance(e, ast.Constant)]
                    for nm in names:
                        n += 1
                        R.instance('TmpStore alias %s' % nm)
                        if nm not in ALLOWED_ALIASES:
                            R.violation((f.module.relpath, f.qualname,
                                         'alias %s' % nm, node.lineno),
                                        'the savepoint store forwards `%s` to '
                                        'the real storage' % nm)
    R.require(n >= 4, 'no uses of the real storage found in TmpStore')


@rule('C12.R4', 'the savepoint store is closed on every commit path and on '
      'abort', props=['C13'], min_instances=2)
def r4(R):
    conn = R.prog.cls(CONN)
    for meth, all_exits in (('_commit_savepoint', True),
                            ('_abort_savepoint', False)):
        f = R.method(conn, meth)
        g, b, F = R.cfg(f, conn, max_depth=0)
        R.instance('Connection.%s' % meth)

        def edge(node, st, lab, tgt, F=F):
            for op in F.ops(node):
                if op.kind == 'call' and path_ends(op.path, ('close',)) and \
                        op.path[0] == 'self' and op.path[1] in (
                            '_savepoint_storage', '_storage'):
                    return True
                if op.kind == 'call' and op.path and op.path[-1] == 'close' \
                        and op.path[0] in ('%local',):
                    return True
            return st

        def at(node, st, g=g, meth=meth, all_exits=all_exits):
            if not st and (node.id == g.exit_return or
                           (all_exits and node.id == g.exit_raise)):
                return Violation('%s can leave without closing the savepoint '
                                 'store: its temporary file and blob '
                                 'directory stay behind' % meth)
            return st

        # src = self._savepoint_storage ; src.close()
        vs, stats = explore(g, False, at=at, edge=edge)
        R.count(stats)
        for v in vs:
            R.violation((f.module.relpath, f.qualname, 'close savepoint store'),
                        v.message, g, v.path)


@rule('C12.R5', 'savepoint() redirects stores to the savepoint store before '
      'it saves the current changes', min_instances=1)
def r5(R):
    conn = R.prog.cls(CONN)
    f = R.method(conn, 'savepoint')
    g, b, F = R.cfg(f, conn, max_depth=0)
    R.instance('Connection.savepoint')
    commits = [0]

    def edge(node, st, lab, tgt):
        # st: 'unknown' | 'active' (stores go to the savepoint store)
        if node.kind == 'test' and lab in ('T', 'F'):
            e, truthy_when_true, _ = truth_test(node.ast)
            p = F.canon(e, node.frame) if dotted(e) else None
            if p == ('self', '_savepoint_storage'):
                truthy = truthy_when_true if lab == 'T' else \
                    not truthy_when_true
                return 'active' if truthy else 'inactive'
        if lab == 'e':
            return st
        for op in F.ops(node):
            if op.kind == 'store' and path_is(op.path, ('self', '_storage')):
                v = store_value(op)
                pv = provenance(v, node.frame, F) if v is not None else set()
                if prov_has(pv, 'call', lambda p: p[-1].endswith('TmpStore')) \
                        or ('path', ('self', '_savepoint_storage')) in pv:
                    st = 'active'
                else:
                    st = 'inactive'
            if op.kind == 'call' and path_is(op.path, ('self', '_commit')):
                commits[0] += 1
                if st != 'active':
                    return Violation('savepoint() saves the current changes '
                                     'while stores still go to the real '
                                     'storage: uncommitted data becomes part '
                                     'of the transaction\'s real writes and '
                                     'cannot be rolled back')
        return st

    vs, stats = explore(g, 'unknown', edge=edge)
    R.count(stats)
    R.require(commits[0] or vs, 'savepoint() no longer calls _commit')
    for v in vs:
        R.violation(v.node, v.message, g, v.path)


@rule('C12.R6', 'everything a savepoint store writes is addressed through '
      'state that reset() restores', props=['C13'], min_instances=2)
def r6(R):
    tmp = R.prog.cls(TMP)
    reset = R.method(tmp, 'reset')
    gr, br, Fr = R.cfg(reset, tmp, max_depth=0)
    restored = {op.path[1] for op in Fr.all_ops()
                if op.kind == 'store' and op.path and op.path[0] == 'self'
                and len(op.path) == 2}
    R.require({'position', 'index'} <= restored,
              'reset() restores %s' % restored)
    n = 0
    for meth in ('store', 'storeBlob'):
        f = R.method(tmp, meth)
        g, b, F = R.cfg(f, tmp, max_depth=0)
        # record bytes: every write happens with the file positioned at
        # self.position (load() and reset() leave the pointer elsewhere)
        def edge(node, st, lab, tgt, F=F):
            if lab in ('e', 'eb'):
                return st
            for op in F.ops(node):
                if op.kind == 'call' and path_is(
                        op.path, ('self', '_file', 'seek')):
                    a = op.ast.args
                    st = len(a) == 1 and dotted(a[0]) is not None and \
                        F.canon(a[0], node.frame) == ('self', 'position')
                elif op.kind == 'call' and op.path and len(op.path) == 3 \
                        and tuple(op.path[:2]) == ('self', '_file') and \
                        op.path[2] in ('read', 'readline', 'truncate'):
                    st = False
                elif op.kind in ('store', 'aug') and path_is(
                        op.path, ('self', 'position')):
                    st = False
            return st

        def at(node, st, F=F, meth=meth):
            for op in F.ops(node):
                if op.kind == 'call' and path_is(
                        op.path, ('self', '_file', 'write')) and not st:
                    return Violation(
                        'TmpStore.%s writes record bytes without having '
                        'moved the file to self.position: load() leaves the '
                        'pointer behind the record it read, so the record of '
                        'an older savepoint is overwritten in place while '
                        'index and position advance as if it had been '
                        'appended' % meth)
                if op.kind == 'call' and path_is(
                        op.path, ('self', '_file', 'seek')):
                    # a write follows in the same position epoch
                    pass
            return st

        nw = 0
        for op in F.all_ops():
            if op.kind == 'call' and path_is(op.path,
                                             ('self', '_file', 'write')):
                nw += 1
        if nw:
            n += 1
            R.instance('TmpStore.%s record position' % meth, writes=nw)
            vs, stats = explore(g, False, at=at, edge=edge)
            R.count(stats)
            for v in vs:
                R.violation(v.node, v.message, g, v.path)
        for op in F.all_ops():
            # files: named from restored state
            if op.kind == 'call' and op.path and op.path[-1] in (
                    '@ZODB.blob.rename_or_copy_blob',
                    '@ZODB.utils.rename_or_copy_blob') or (
                    op.kind == 'call' and op.path and
                    op.path[0].endswith('rename_or_copy_blob')):
                n += 1
                tgt = op.ast.args[1] if len(op.ast.args) > 1 else None
                pv = provenance(tgt, op.node.frame, F)
                R.instance('TmpStore.%s blob file name' % meth,
                           derives_from=sorted(
                               '.'.join(v) for k, v in pv if k == 'path')[:6])
                if not any(k == 'path' and len(v) >= 2 and v[0] == 'self'
                           and v[1] in (restored - {'creating'})
                           for k, v in pv):
                    R.violation(op.node, 'the blob file a savepoint writes is '
                                'named from (oid, serial) only: a second '
                                'savepoint of the same blob overwrites the '
                                'file of the first, and rolling back to the '
                                'first shows -- and commits -- the later '
                                'bytes (reset() cannot restore it)')
    R.require(n >= 2, 'savepoint store writes not recognised')
    # files: none is removed while the store lives (any earlier savepoint,
    # whose index names its files, may still be rolled back to)
    REMOVERS = ('remove', 'unlink', 'rmtree', 'remove_committed',
                'remove_committed_dir', 'rmdir', 'removedirs')
    nrm = 0
    for name, f in sorted(tmp.methods.items()):
        g, b, F = R.cfg(f, tmp, max_depth=0)
        for op in F.all_ops():
            if op.kind == 'call' and op.path and (
                    op.path[-1] in REMOVERS or
                    op.path[-1].split('.')[-1] in REMOVERS):
                nrm += 1
                R.instance('TmpStore.%s removes files' % name)
                if name != 'close':
                    R.violation(op.node, 'TmpStore.%s removes a file of the '
                                'savepoint store before the store is closed: '
                                'an earlier savepoint whose index names that '
                                'file can still be rolled back to; the blob '
                                'then silently shows the previously committed '
                                'bytes (or POSKeyError), and they are what '
                                'the commit stores' % name)
    R.require(nrm >= 1, 'TmpStore.close no longer removes the blob files')


@rule('C12.R8', 'a blob file of the savepoint store is served only for oids '
      'the (restored) index knows', props=['C13'], min_instances=1)
def r8(R):
    tmp = R.prog.cls(TMP)
    f = R.method(tmp, 'loadBlob')
    g, b, F = R.cfg(f, tmp, max_depth=0)
    R.instance('TmpStore.loadBlob')
    from ..flow import implied_atoms
    rets = [0]

    def edge(node, st, lab, tgt):
        if node.kind == 'test' and lab in ('T', 'F'):
            for e, truth in implied_atoms(node.ast, lab):
                if isinstance(e, ast.Compare) and len(e.ops) == 1 and \
                        isinstance(e.ops[0], (ast.In, ast.NotIn)) and \
                        dotted(e.comparators[0]) == ('self', 'index'):
                    return isinstance(e.ops[0], ast.In) == truth
                if isinstance(e, ast.Compare) and len(e.ops) == 1 and \
                        isinstance(e.left, ast.Name) and isinstance(
                            e.comparators[0], ast.Constant) and \
                        e.comparators[0].value is None:
                    pv = provenance(e.left, node.frame, F)
                    if prov_has(pv, 'call', lambda p: p == (
                            'self', 'index', 'get')):
                        return isinstance(e.ops[0], ast.IsNot) == truth
        return st

    def at(node, st):
        if node.kind == 'return' and node.ast.value is not None:
            pv = provenance(node.ast.value, node.frame, F)
            if prov_has(pv, 'call', lambda p: p[-1] == '_getCleanFilename'):
                rets[0] += 1
                if st is not True:
                    return Violation(
                        'loadBlob returns the savepoint store\'s blob file '
                        'for an oid without having established that the oid '
                        'is in the (restored) index: rollback restores the '
                        'index but leaves the files, so the bytes of a '
                        'rolled-back blob store are still served -- and '
                        'committed')
        return st

    vs, stats = explore(g, None, at=at, edge=edge)
    R.count(stats)
    R.require(rets[0] or vs, 'loadBlob no longer returns a savepoint file')
    for v in vs:
        R.violation(v.node, v.message, g, v.path)


@rule('C12.R9', 'before savepoint data is replayed into the real storage, '
      'every oid it holds is recorded for invalidation and every created '
      'object for disowning', props=['C11', 'C02'], min_instances=1)
def r9(R):
    conn = R.prog.cls(CONN)
    f = R.method(conn, '_commit_savepoint')
    g, b, F = R.cfg(f, conn, max_depth=0)
    R.instance('Connection._commit_savepoint')
    seen = [0]

    def from_index(e, fr):
        pv = provenance(e, fr, F)
        return any(k == 'path' and v[-1] == 'index' for k, v in pv) or \
            ('attr', 'index') in pv

    def edge(node, st, lab, tgt):
        if lab == 'e':
            return st
        for op in F.ops(node):
            if op.kind == 'call' and path_is(
                    op.path, ('self', '_modified', 'extend')) and \
                    op.ast.args and from_index(op.ast.args[0], node.frame):
                st = st | {'modified'}
            if op.kind == 'call' and path_is(
                    op.path, ('self', '_creating', 'update')) and \
                    op.ast.args and ('attr', 'creating') in provenance(
                        op.ast.args[0], node.frame, F):
                st = st | {'creating'}
        return frozenset(st)

    def at(node, st):
        for op in F.ops(node):
            if op.kind == 'call' and path_is(
                    op.path, ('self', '_storage', 'store'),
                    ('self', '_storage', 'storeBlob')):
                seen[0] += 1
                missing = {'modified', 'creating'} - st
                if missing:
                    return Violation(
                        'the first savepoint record is handed to the real '
                        'storage before %s: if this or a later store raises '
                        '(a conflict), the objects not yet reached keep the '
                        'state of the failed transaction after the abort' % (
                            ' and '.join(
                                {'modified': 'all oids of the savepoint '
                                 'store are recorded in _modified',
                                 'creating': 'its creating map is merged '
                                 'into _creating'}[m] for m in sorted(
                                     missing))))
        return st

    vs, stats = explore(g, frozenset(), at=at, edge=edge)
    R.count(stats)
    R.require(seen[0] or vs, '_commit_savepoint no longer replays stores')
    for v in vs:
        R.violation(v.node, v.message, g, v.path)


# ------------------------------------------------------------------ C12.R10
DATA_READS = {'load', 'loadBefore', 'loadSerial', 'loadBlob',
              'openCommittedBlobFile'}


@rule('C12.R10', 'a blob reads committed data only through what its '
      'connection gave it (the connection\'s storage is the savepoint store '
      'while savepoints are active); it never goes to the database\'s '
      'storage for data', props=['C13'], min_instances=1)
def r10(R):
    cls = R.prog.cls('ZODB.blob.Blob')
    n = 0
    for name, f in sorted(cls.methods.items()):
        for c in ast.walk(f.node):
            if not (isinstance(c, ast.Call) and isinstance(
                    c.func, ast.Attribute)):
                continue
            # resolve `storage = self._p_jar.db()._storage` style locals
            recv = c.func.value
            seen = 0
            while isinstance(recv, ast.Name) and seen < 3:
                ds = [a.value for a in ast.walk(f.node)
                      if isinstance(a, ast.Assign) and any(
                          isinstance(t, ast.Name) and t.id == recv.id
                          for t in a.targets)]
                if len(ds) != 1:
                    break
                recv, seen = ds[0], seen + 1
            text_nodes = list(ast.walk(recv))
            via_db = any(isinstance(x, ast.Call) and isinstance(
                x.func, ast.Attribute) and x.func.attr == 'db'
                for x in text_nodes) or any(
                    isinstance(x, ast.Attribute) and x.attr in (
                        '_db', '_normal_storage') for x in text_nodes)
            if any(isinstance(x, ast.Attribute) and x.attr == '_p_jar'
                   for x in text_nodes):
                n += 1
                R.instance('Blob.%s: %s' % (name, ast.unparse(c)[:60]))
            if via_db and c.func.attr in DATA_READS:
                R.violation(
                    (f.module.relpath, f.qualname,
                     ' '.join(ast.unparse(c).split())[:100], c.lineno),
                    'Blob.%s reads blob data through the DATABASE\'s storage '
                    '(`%s`): while savepoints are active the current state '
                    'of the blob lives in the connection\'s savepoint store, '
                    'so this reads the last committed revision instead (or '
                    'fails for a blob created in this transaction)' % (
                        name, ast.unparse(c.func)),
                    key='data read through the database storage')
    R.require(n >= 1, 'Blob no longer talks to its connection')


# ----------------------------------------------------------------- C12.R11
@rule('C12.R11', 'while the objects of a commit are stored, an oid is taken '
      'back from the list of modified oids only in an iteration that added '
      'it (a new object adds nothing)', props=['C11', 'C13'],
      min_instances=1)
def r11(R):
    conn = R.prog.cls(CONN)
    f = R.method(conn, '_store_objects_of')
    g, b, F = R.cfg(f, conn, max_depth=0)
    heads = [n for n in g.reachable() if g.nodes[n].kind == 'for']
    R.require(heads, '_store_objects_of no longer loops over the writer')
    pops = [0]

    # boolean locals set to literals (a "this object is new" flag)
    from ..flow import Flags
    consts = {t.id for s_ in walk_local(f.node) if isinstance(s_, ast.Assign)
              and isinstance(s_.value, ast.Constant) and isinstance(
                  s_.value.value, bool)
              for t in s_.targets if isinstance(t, ast.Name)}
    flags = Flags(F, lambda e, fr: e.id if isinstance(e, ast.Name) and
                  e.id in consts else None)

    def edge(node, st, lab, tgt):
        added, fl = st
        if node.kind == 'for':
            return (False, frozenset())   # a new iteration: nothing added
        fl = flags.learn(node, fl, lab)
        if fl is PRUNE:
            return PRUNE
        if lab in ('e', 'eb'):
            return (added, fl)
        fl = flags.assign(node, fl, lab)
        for op in F.ops(node):
            if op.kind == 'call' and path_is(
                    op.path, ('self', '_modified', 'append')):
                added = True
        return (added, fl)

    def at(node, st):
        for op in F.ops(node):
            if op.kind == 'call' and path_is(
                    op.path, ('self', '_modified', 'pop')):
                if not st[0]:
                    return Violation(
                        'Connection._store_objects_of takes an oid back '
                        'from self._modified on a path on which this '
                        'iteration added none (a blob that is new in the '
                        'transaction and was stored by a savepoint, '
                        'registered again without new data): the oid of '
                        'ANOTHER object is dropped, or the commit dies with '
                        'IndexError: pop from empty list')
        return st

    for nid in g.reachable():
        for op in F.ops(g.nodes[nid]):
            if op.kind == 'call' and path_is(
                    op.path, ('self', '_modified', 'pop')):
                pops[0] += 1
    R.instance('Connection._store_objects_of', pops=pops[0])
    vs, stats = explore(g, (False, frozenset()), at=at, edge=edge)
    R.count(stats)
    for v in vs:
        R.violation(v.node, v.message, g, v.path)


# ----------------------------------------------------------------- C12.R12
@rule('C12.R12', 'a rollback disowns EVERY object created after the '
      'savepoint, added explicitly or by reachability: what it hands to '
      '_invalidate_creating is everything in the savepoint store\'s creating '
      'table that the savepoint\'s own table does not have',
      props=['C11', 'C14'], min_instances=1)
def r12(R):
    conn = R.prog.cls(CONN)
    f = R.method(conn, '_rollback_savepoint')
    calls = [c for c in walk_local(f.node) if isinstance(c, ast.Call) and
             dotted(c.func) == ('self', '_invalidate_creating')]
    R.require(calls, '_rollback_savepoint no longer disowns created objects')
    for c in calls:
        a = c.args[0] if c.args else None
        R.instance('Connection._rollback_savepoint: %s' % ' '.join(
            ast.unparse(c).split())[:80])
        where = (f.module.relpath, f.qualname,
                 ' '.join(ast.unparse(c).split())[:100], c.lineno)
        comps = [x for x in ast.walk(a)
                 if isinstance(x, (ast.GeneratorExp, ast.ListComp,
                                   ast.SetComp))] if a is not None else []
        if not comps:
            continue        # a whole table / a computed difference
        for comp in comps:
            for gen in comp.generators:
                for cond in gen.ifs:
                    # allowed: (not) membership tests only
                    bad = [x for x in ast.walk(cond) if isinstance(
                        x, (ast.Name, ast.Attribute, ast.Compare))
                        and not _membership_only(cond)]
                    if bad:
                        R.violation(
                            where, '_rollback_savepoint leaves out created '
                            'objects by a condition other than "the '
                            'savepoint already had it" (`%s`): an object '
                            'add()ed after the savepoint keeps its oid and '
                            'connection although its record is discarded; '
                            'linking it again commits a dangling reference '
                            '(POSKeyError in every other connection)' %
                            ast.unparse(cond),
                            key='created objects filtered by more than '
                                'savepoint membership')
                        break


def _membership_only(cond):
    """`x not in T`, `not x in T`, or an `and` of such."""
    if isinstance(cond, ast.BoolOp) and isinstance(cond.op, ast.And):
        return all(_membership_only(v) for v in cond.values)
    if isinstance(cond, ast.UnaryOp) and isinstance(cond.op, ast.Not):
        c = cond.operand
        return isinstance(c, ast.Compare) and len(c.ops) == 1 and \
            isinstance(c.ops[0], ast.In)
    return isinstance(cond, ast.Compare) and len(cond.ops) == 1 and \
        isinstance(cond.ops[0], ast.NotIn)


# ----------------------------------------------------------------- C12.R13
@rule('C12.R13', 'discarding the savepoint data switches back to the real '
      'storage BEFORE it invalidates what the savepoints stored: an object '
      'that cannot be a ghost (a persistent class) re-reads its state the '
      'moment it is invalidated -- from whatever storage is current',
      props=['C02', 'C11'], min_instances=1)
def r13(R):
    conn = R.prog.cls(CONN)
    f = R.method(conn, '_abort_savepoint')
    g, b, F = R.cfg(f, conn, max_depth=1)
    seen = [0]

    def edge(node, st, lab, tgt):
        if lab in ('e', 'eb'):
            return st
        for op in F.ops(node):
            if op.kind == 'store' and path_is(op.path, ('self', '_storage')):
                st = True
        return st

    def at(node, st):
        for op in F.ops(node):
            if op.kind == 'call' and path_is(
                    op.path, ('self', '_cache', 'invalidate')):
                seen[0] += 1
                if not st:
                    return Violation(
                        '_abort_savepoint invalidates the objects the '
                        'savepoints stored while the savepoint storage is '
                        'still the connection\'s storage: a persistent '
                        'class re-reads its state at once and gets the '
                        'ABORTED savepoint record back; nothing repairs it '
                        'later -- the connection keeps showing state no '
                        'transaction committed')
        return st

    vs, stats = explore(g, False, at=at, edge=edge)
    R.count(stats)
    R.instance('Connection._abort_savepoint', invalidations=seen[0])
    R.require(seen[0] >= 1 or vs, '_abort_savepoint no longer invalidates '
              'the savepoint index')
    for v in vs[:1]:
        R.violation(v.node, v.message, g, v.path,
                    key='savepoint index invalidated before the storage '
                        'was switched back')
