"""C02 -- every transaction reads from one consistent snapshot."""

import ast

from ..engine import rule
from ..flow import PRUNE, Soft, Violation, explore, implied_atoms, \
    path_ends, path_is, prov_has, provenance, store_value, truth_test
from ..locks import POOL_WRITE, explore_locksets, held_locks, lock_ops, \
    step_held
from ..cfg import header_exprs
from ..flow import OP_KINDS
from ..model import ClassInfo, dotted, walk_local
from ..twopc import BLOBSTORAGE, BS, DS, FS, MS, identity_guard
from .c01 import publishes

MVCC = 'ZODB.mvccadapter.MVCCAdapter'
INST = 'ZODB.mvccadapter.MVCCAdapterInstance'
UNDOI = 'ZODB.mvccadapter.UndoAdapterInstance'
CONN = 'ZODB.Connection.Connection'
POOL = 'ZODB.FileStorage.FileStorage.FilePool'


def ms_publishes(F, node, lab):
    out = []
    if lab == 'e':
        return out
    for op in F.ops(node):
        if op.kind == 'setitem' and path_is(op.path, ('self', '_data'),
                                            ('self', '_transactions')):
            out.append(op)
        if op.kind == 'setitem' and op.path and op.path[0] == '%local':
            pv = provenance(ast.Name(id=op.path[1], ctx=ast.Load()),
                            node.frame, F)
            if ('path', ('self', '_data')) in pv:
                out.append(op)
        if op.kind == 'store' and path_is(op.path, ('self', '_ltid')):
            out.append(op)
    return out


@rule('C02.R1', 'finish calls the invalidation callback with the new tid, '
      'under the lock that excludes loads, before the data becomes loadable',
      props=['C06'], min_instances=3)
def r1(R):
    for q, kind in ((FS, 'fs'), (BS, 'bs'), (MS, 'ms')):
        cls = R.prog.cls(q)
        f = R.method(cls, 'tpc_finish')
        g, b, F = R.cfg(f, cls)
        cb = [p for p in f.params if p != 'self'][1]
        name = '%s.tpc_finish' % cls.name
        seen = {'cb': 0, 'pub': 0}

        def pubs(node, lab, kind=kind, F=F):
            if kind == 'fs':
                return publishes(F, node, lab)
            if kind == 'ms':
                return ms_publishes(F, node, lab)
            if node.kind == 'call' and node.info['target'].func.name == \
                    '_finish':
                return [node]
            return [op for op in F.ops(node) if op.kind == 'call' and
                    path_is(op.path, ('self', '_finish')) and not op.inlined]

        def edge(node, st, lab, tgt, F=F, cb=cb, kind=kind, seen=seen,
                 name=name):
            matched, called, held = st
            same = identity_guard(node, F)
            if same is not None and lab in ('T', 'F'):
                return (lab == same, called, held)
            held = step_held(F, node, held, lab)
            if node.kind == 'test' and lab in ('T', 'F'):
                e, truthy_when_true, none_test = truth_test(node.ast)
                if none_test and dotted(e) and F.canon(e, node.frame) == (
                        '%param', cb):
                    truthy = truthy_when_true if lab == 'T' else \
                        not truthy_when_true
                    if not truthy:
                        called = True      # no callback was supplied
            for op in F.ops(node):
                if op.kind == 'call' and op.path == ('%param', cb):
                    seen['cb'] += 1
                    locks = held_locks(held)
                    if ('self', '_lock') not in locks:
                        return Violation(
                            '%s calls the invalidation callback without the '
                            'storage lock: a load can run between the '
                            'invalidation and the publication' % name)
                    if kind == 'fs' and POOL_WRITE not in locks:
                        return Violation(
                            '%s calls the invalidation callback outside the '
                            'file pool\'s writer side: lock-free loads run '
                            'concurrently' % name)
                    a = op.ast.args[0] if op.ast.args else None
                    pv = provenance(a, node.frame, F) if a is not None \
                        else set()
                    if ('path', ('self', '_tid')) not in pv:
                        return Violation(
                            '%s does not pass the id of the transaction '
                            'being finished to the callback' % name)
                    if lab != 'e':
                        called = True
            if matched is True and pubs(node, lab):
                seen['pub'] += 1
                if not called:
                    return Violation(
                        '%s makes the transaction loadable before the '
                        'invalidation callback has run: another connection '
                        'can read the new state into a snapshot that should '
                        'not contain it, and keep it in its cache' % name)
            return (matched, called, held)

        def at(node, st, g=g, name=name):
            matched, called, held = st
            if node.id == g.exit_return and matched is True and not called:
                return Violation('%s can finish without calling the '
                                 'invalidation callback' % name)
            return st

        vs, stats = explore(g, (None, False, frozenset()), at=at, edge=edge)
        R.count(stats)
        R.instance(name, callback_sites=seen['cb'], publish_sites=seen['pub'])
        R.require(vs or (seen['cb'] and seen['pub']),
                  '%s: callback/publish not recognised %s' % (name, seen))
        for v in vs:
            R.violation(v.node, v.message, g, v.path)


@rule('C02.R2', 'wrappers and adapters pass the invalidation callback on; '
      'the MVCC adapters invalidate the other instances before calling it',
      props=['C06'], min_instances=4)
def r2(R):
    # plain forwarding
    for q in (DS, BLOBSTORAGE):
        cls = R.prog.cls(q)
        f = R.method(cls, 'tpc_finish')
        g, b, F = R.cfg(f, cls, max_depth=0)
        ok = False
        for op in F.all_ops():
            if op.kind == 'call' and op.path and op.path[-1] == 'tpc_finish' \
                    and op.path[0] == 'self' and len(op.path) == 3:
                params = [p for p in f.params if p != 'self']
                if any(isinstance(a, ast.Starred) for a in op.ast.args):
                    ok = True
                elif len(op.ast.args) >= 2 and isinstance(
                        op.ast.args[1], ast.Name) and len(params) >= 2 and \
                        op.ast.args[1].id == params[1]:
                    ok = True
        R.instance('%s.tpc_finish forwards the callback' % cls.name, ok=ok)
        if not ok:
            R.violation((f.module.relpath, f.qualname, 'callback forwarding'),
                        '%s.tpc_finish does not hand the caller\'s callback '
                        'to the wrapped storage: invalidations are never '
                        'sent' % cls.name)
    # adapters
    for q in (INST, UNDOI):
        cls = R.prog.cls(q)
        f = R.method(cls, 'tpc_finish')
        cbname = [p for p in f.params if p != 'self'][1]
        closures = [x for x in f.node.body if isinstance(x, ast.FunctionDef)]
        passed = None
        for c in walk_local(f.node):
            if isinstance(c, ast.Call) and isinstance(c.func, ast.Attribute) \
                    and c.func.attr == 'tpc_finish' and len(c.args) >= 2 and \
                    isinstance(c.args[1], ast.Name):
                passed = c.args[1].id
        R.instance('%s.tpc_finish closure' % cls.name, passed=passed)
        cl = [c for c in closures if c.name == passed]
        if not cl:
            R.violation((f.module.relpath, f.qualname, 'callback closure'),
                        '%s.tpc_finish does not pass an invalidating closure '
                        'to the storage' % cls.name)
            continue
        c = cl[0]
        tidp = c.args.args[0].arg if c.args.args else None
        order = []
        for st in c.body:
            for call in ast.walk(st):
                if isinstance(call, ast.Call):
                    if isinstance(call.func, ast.Attribute) and \
                            call.func.attr == '_invalidate_finish':
                        ok_tid = call.args and isinstance(
                            call.args[0], ast.Name) and \
                            call.args[0].id == tidp
                        order.append(('inv', ok_tid, call))
                    if isinstance(call.func, ast.Name) and \
                            call.func.id == cbname:
                        ok_tid = call.args and isinstance(
                            call.args[0], ast.Name) and \
                            call.args[0].id == tidp
                        order.append(('cb', ok_tid, call))
        kinds = [k for k, o, cc in order]
        where = (f.module.relpath, f.qualname, 'callback closure', c.lineno)
        if 'inv' not in kinds:
            R.violation(where, 'the closure does not invalidate the other '
                        'instances (_invalidate_finish): their caches keep '
                        'stale objects')
        elif 'cb' not in kinds:
            R.violation(where, 'the closure does not call the caller\'s '
                        'callback')
        elif kinds.index('inv') > kinds.index('cb'):
            R.violation(where, 'the caller\'s callback runs before the other '
                        'instances are invalidated')
        elif not all(o for k, o, cc in order):
            R.violation(where, 'the closure does not pass the new tid on')
        if q == INST and 'inv' in kinds:
            inv = [cc for k, o, cc in order if k == 'inv'][0]
            if len(inv.args) < 3 or not (isinstance(inv.args[2], ast.Name)
                                         and inv.args[2].id == 'self'):
                R.violation(where, 'the committing instance is not excluded '
                            'from (or wrongly identified in) the '
                            'invalidation')


@rule('C02.R3', 'loads use exactly the snapshot bound, which is set only at a '
      'boundary, atomically with draining the invalidations, from the larger '
      'of the storage\'s last tid and the last invalidated tid, plus one',
      props=['C15'], min_instances=2)
def r3(R):
    cls = R.prog.cls(INST)
    f = R.method(cls, 'load')
    g, b, F = R.cfg(f, cls, max_depth=0)
    n = 0
    for op in F.all_ops():
        if op.kind == 'call' and path_is(op.path,
                                         ('self', '_storage', 'loadBefore')):
            n += 1
            a = op.ast.args[1] if len(op.ast.args) > 1 else None
            R.instance('MVCCAdapterInstance.load bound',
                       expr=ast.unparse(a) if a is not None else None)
            if not (a is not None and dotted(a) == ('self', '_start')):
                R.violation(op.node, 'load reads before `%s`, not before the '
                            'snapshot bound fixed at the transaction '
                            'boundary: states from different points of the '
                            'commit order get mixed' % (
                                ast.unparse(a) if a is not None else '?'))
    if not n:
        R.violation((f.module.relpath, f.qualname, 'loadBefore'),
                    'load no longer goes through loadBefore')
    # writers of _start
    writers = []
    for m in cls.methods.values():
        for x in walk_local(m.node):
            if isinstance(x, (ast.Assign, ast.AugAssign)):
                tg = x.targets if isinstance(x, ast.Assign) else [x.target]
                if any(dotted(t) == ('self', '_start') for t in tg
                       if isinstance(t, ast.Attribute)):
                    writers.append((m, x))
    for m, x in writers:
        R.instance('%s writes _start' % m.short)
        if m.name != 'poll_invalidations':
            R.violation((m.module.relpath, m.qualname,
                         ' '.join(ast.unparse(x).split()), x.lineno),
                        'the snapshot bound is changed outside a transaction '
                        'boundary (poll_invalidations)')
    p = R.method(cls, 'poll_invalidations')
    g2, b2, F2 = R.cfg(p, cls, max_depth=0)

    def check(node, held):
        for op in F2.ops(node):
            if op.kind == 'store' and path_is(op.path, ('self', '_start')):
                if ('self', '_lock') not in held:
                    return ('the snapshot bound is set without the instance '
                            'lock: an invalidation arriving in between is '
                            'either lost or applied to the wrong snapshot')
                v = store_value(op)
                pv = provenance(v, node.frame, F2)
                if not prov_has(pv, 'call', lambda c: c[-1] ==
                                'lastTransaction'):
                    return ('the snapshot bound ignores the storage\'s last '
                            'transaction: after a boundary the snapshot can '
                            'be older than a commit that had completed')
                if ('path', ('self', '_ltid')) not in pv:
                    return ('the snapshot bound ignores the last '
                            'invalidated tid: invalidations already drained '
                            'for a newer commit would be applied to an older '
                            'snapshot')
                if not prov_has(pv, 'call', lambda c: c == ('@max',)):
                    return 'the two tids are not joined by max()'
                if not any(isinstance(c, ast.BinOp) and isinstance(
                        c.op, ast.Add) and isinstance(c.right, ast.Constant)
                        and c.right.value == 1 for c in ast.walk(v)):
                    return ('the bound is not last tid + 1: the newest '
                            'transaction is excluded from the snapshot')
            if op.kind == 'call' and path_is(
                    op.path, ('self', '_invalidations', 'clear')) or (
                    op.kind == 'store' and path_is(
                        op.path, ('self', '_invalidations'))):
                if ('self', '_lock') not in held:
                    return ('the pending invalidations are drained without '
                            'the instance lock')
        return None

    vs, stats = explore_locksets(g2, F2, check)
    R.count(stats)
    for v in vs:
        R.violation(v.node, v.message, g2, v.path)
    # same critical section: no release between setting the bound and draining

    def edge(node, st, lab, tgt):
        if lab == 'e':
            return st
        for op in F2.ops(node):
            if op.kind == 'store' and path_is(op.path, ('self', '_start')):
                st = 'set'
        if st == 'set' and any(d < 0 and tuple(l) == ('self', '_lock')
                               for d, l in lock_ops(F2, node)):
            return 'released'
        for op in F2.ops(node):
            if (op.kind == 'call' and path_is(
                    op.path, ('self', '_invalidations', 'clear'))) or (
                    op.kind == 'store' and path_is(
                        op.path, ('self', '_invalidations'))):
                if st == 'released':
                    return Violation(
                        'the invalidations are drained in a different '
                        'critical section than the one that set the snapshot '
                        'bound')
                if st == 'set':
                    st = 'drained'
        return st

    def at(node, st):
        if node.id == g2.exit_return and st in ('set', 'released'):
            return Violation('poll_invalidations sets the bound but can '
                             'return without draining the invalidations')
        if node.id == g2.exit_return and st == 'none':
            return Violation('poll_invalidations can return without setting '
                             'the snapshot bound')
        return st

    vs2, stats2 = explore(g2, 'none', at=at, edge=edge)
    R.count(stats2)
    for v in vs2:
        n = v.node if v.node.id != g2.exit_return else (
            p.module.relpath, p.qualname, 'bound and drain')
        R.violation(n, v.message, g2, v.path)


@rule('C02.R4', 'the pending invalidations and the last invalidated tid of '
      'an instance are changed only under its lock', min_instances=4)
def r4(R):
    cls = R.prog.cls(INST)
    n = 0
    for m in cls.methods.values():
        if m.name == '__init__':
            continue
        g, b, F = R.cfg(m, cls, max_depth=0)

        def touched(node, F=F):
            out = []
            for op in F.ops(node):
                if op.kind in ('store', 'aug') and path_is(
                        op.path, ('self', '_invalidations'),
                        ('self', '_ltid')):
                    out.append(op)
                if op.kind == 'call' and op.path and op.path[:2] == (
                        'self', '_invalidations') and op.path[-1] in (
                            'update', 'clear', 'add', 'discard', 'pop'):
                    out.append(op)
            return out

        def check(node, held, touched=touched, m=m):
            if touched(node) and ('self', '_lock') not in held:
                return ('%s changes `%s` without the instance lock: an '
                        'invalidation racing with a boundary is lost or '
                        'doubled' % (m.short, '.'.join(touched(node)[0].path)))
            return None

        vs, stats = explore_locksets(g, F, check)
        R.count(stats)
        for nid in g.reachable():
            for op in touched(g.nodes[nid]):
                n += 1
                R.instance('%s: %s' % (m.short, g.nodes[nid].text(50)))
        for v in vs:
            R.violation(v.node, v.message, g, v.path)
    R.named_exception('closure invalidate_finish in MVCCAdapterInstance.'
                      'tpc_finish (`self._ltid = tid`)',
                      'runs inside the storage\'s finish, which serialises '
                      'all commits; nested functions are not entered by this '
                      'rule')
    R.require(n >= 4, 'only %d state updates found' % n)


@rule('C02.R5', 'invalidations are delivered to every registered instance '
      'except the committing one; instances stay registered until the '
      'connection is discarded', min_instances=5)
def r5(R):
    cls = R.prog.cls(MVCC)
    for meth in ('_invalidate_finish', 'invalidate', 'invalidateCache'):
        f = R.method(cls, meth)
        g, b, F = R.cfg(f, cls, max_depth=0)
        R.instance('MVCCAdapter.%s' % meth)
        loops = [n for n in walk_local(f.node) if isinstance(n, ast.For)
                 and dotted(n.iter) == ('self', '_instances')]
        if not loops:
            R.violation((f.module.relpath, f.qualname, 'delivery loop'),
                        '%s no longer visits every registered instance' % meth)
            continue

        def check(node, held, F=F, meth=meth):
            if node.kind == 'foriter' and dotted(node.ast) == (
                    'self', '_instances') and ('self', '_lock') not in held:
                return ('%s walks the set of instances without the adapter '
                        'lock: an instance registered concurrently misses '
                        'the invalidation' % meth)
            return None

        vs, stats = explore_locksets(g, F, check)
        R.count(stats)
        for v in vs:
            R.violation(v.node, v.message, g, v.path)
        # the only filter is identity with the committing instance
        l = loops[0]
        for x in ast.walk(l):
            if isinstance(x, (ast.If, ast.Continue, ast.Break)):
                if isinstance(x, ast.If):
                    t = x.test
                    ok = meth == '_invalidate_finish' and isinstance(
                        t, ast.Compare) and len(t.ops) == 1 and isinstance(
                            t.ops[0], (ast.IsNot, ast.Is)) and {
                                ast.unparse(t.left),
                                ast.unparse(t.comparators[0])} == {
                                    l.target.id, [p for p in f.params
                                                  if p != 'self'][2]}
                    if ok:
                        continue
                R.violation((f.module.relpath, f.qualname,
                             ' '.join(ast.unparse(x).split())[:80], x.lineno),
                            '%s skips instances by a condition other than '
                            '"is the committing instance"' % meth)
    f = R.method(cls, 'new_instance')
    g, b, F = R.cfg(f, cls, max_depth=0)
    R.instance('MVCCAdapter.new_instance')

    def edge(node, st, lab, tgt):
        if lab != 'e':
            for op in F.ops(node):
                if op.kind == 'call' and path_is(
                        op.path, ('self', '_instances', 'add')):
                    return True
        return st

    def at(node, st):
        if node.id == g.exit_return and not st:
            return Violation('new_instance returns an instance that is not '
                             'registered for invalidations')
        return st

    vs, stats = explore(g, False, at=at, edge=edge)
    R.count(stats)
    for v in vs:
        R.violation((f.module.relpath, f.qualname, 'registration'), v.message,
                    g, v.path)
    # who releases an instance
    allowed = {'ZODB.Connection.Connection._release_resources',
               'ZODB.DB.TransactionalUndo.close',
               'ZODB.mvccadapter.HistoricalStorageAdapter.release'}
    n = 0
    for fn in R.prog.all_functions():
        if fn.module.name not in ('ZODB.Connection', 'ZODB.DB'):
            continue
        for c in walk_local(fn.node):
            if isinstance(c, ast.Call) and isinstance(c.func, ast.Attribute) \
                    and c.func.attr == 'release' and dotted(c.func) and \
                    '_storage' in dotted(c.func):
                n += 1
                R.instance('%s releases the storage instance' % fn.short)
                if fn.qualname not in allowed:
                    R.violation((fn.module.relpath, fn.qualname,
                                 ' '.join(ast.unparse(c).split()), c.lineno),
                                '%s releases the connection\'s storage '
                                'instance: a pooled connection then stops '
                                'receiving invalidations and serves stale '
                                'objects from its cache when reused' %
                                fn.short)
    R.require(n >= 2, 'release call sites vanished')


@rule('C02.R6', 'every transaction boundary applies the polled invalidations '
      'to the connection\'s cache', min_instances=3)
def r6(R):
    cls = R.prog.cls(CONN)
    f = R.method(cls, 'newTransaction')
    g, b, F = R.cfg(f, cls, max_depth=0)
    R.instance('Connection.newTransaction')

    def edge(node, st, lab, tgt):
        if lab == 'e':
            return st
        for op in F.ops(node):
            if op.kind == 'call' and path_is(
                    op.path, ('self', '_storage', 'poll_invalidations')):
                st = 'polled'
            if op.kind == 'call' and path_is(
                    op.path, ('self', '_cache', 'invalidate')):
                a = op.ast.args[0] if op.ast.args else None
                pv = provenance(a, node.frame, F) if a is not None else set()
                if prov_has(pv, 'call', lambda c: c[-1] ==
                            'poll_invalidations'):
                    st = 'applied'
        return st

    def at(node, st):
        if node.id == g.exit_return and st != 'applied':
            return Violation(
                'a transaction boundary can pass without applying the '
                'invalidations polled from the storage to the cache '
                '(state: %s): the connection keeps serving object states '
                'older than its new snapshot' % st)
        return st

    vs, stats = explore(g, 'none', at=at, edge=edge)
    R.count(stats)
    for v in vs:
        R.violation((f.module.relpath, f.qualname, 'apply invalidations'),
                    v.message, g, v.path)
    # None => whole cache
    whole = any(isinstance(x, ast.If) and isinstance(x.test, ast.Compare)
                and isinstance(x.test.ops[0], ast.Is) and isinstance(
                    x.test.comparators[0], ast.Constant) and
                x.test.comparators[0].value is None and any(
                    isinstance(y, ast.Attribute) and y.attr == 'cache_data'
                    for y in ast.walk(x)) for x in walk_local(f.node))
    if not whole:
        R.violation((f.module.relpath, f.qualname, 'invalidate everything'),
                    'the "everything changed" answer (None) of '
                    'poll_invalidations no longer flushes the whole cache')
    for meth in ('open', 'afterCompletion'):
        m = R.method(cls, meth)
        g2, b2, F2 = R.cfg(m, cls, max_depth=0)
        R.instance('Connection.%s reaches newTransaction' % meth)

        def edge2(node, st, lab, tgt, F2=F2):
            if node.kind == 'test' and lab in ('T', 'F'):
                for e, truth in implied_atoms(node.ast, lab):
                    if dotted(e) and F2.canon(e, node.frame) == (
                            'self', 'explicit_transactions'):
                        st = (st[0], truth)
            if lab != 'e':
                for op in F2.ops(node):
                    if op.kind == 'call' and path_is(
                            op.path, ('self', 'newTransaction')):
                        st = (True, st[1])
            return st

        def at2(node, st, g2=g2, meth=meth):
            if node.id == g2.exit_return and not st[0] and st[1] is not True:
                return Violation(
                    'Connection.%s can complete, for a transaction manager '
                    'that is not in explicit mode, without starting a new '
                    'snapshot: a connection reused from the pool keeps its '
                    'old snapshot and cache' % meth)
            return st

        vs2, stats2 = explore(g2, (False, None), at=at2, edge=edge2)
        R.count(stats2)
        for v in vs2:
            R.violation((m.module.relpath, m.qualname, 'newTransaction'),
                        v.message, g2, v.path)


EXEMPT_ENTRY = {'__init__': 'object not yet shared between threads',
                'close': 'terminal operation', 'cleanup': 'terminal operation'}


@rule('C02.R7', 'the shared data-file handle is only used under the storage '
      'lock; lock-free loads use a pooled handle', props=['C01', 'C04', 'C08', 'C06',
                                                       'C15', 'C03'],
      min_instances=30)
def r7(R):
    cls = R.prog.cls(FS)
    names = set()
    for k in R.prog.mro(cls):
        names |= set(getattr(k, 'methods', {}))
    sites = {}
    for name in sorted(names):
        if name.startswith('_') or name in EXEMPT_ENTRY:
            continue
        r = R.prog.find_method(cls, name)
        if r is None or r[0].is_generator:
            continue
        f = r[0]
        if f.cls is not None and f.cls.name == 'FileStorageFormatter':
            continue     # format helpers: called with the lock held, below
        g, b, F = R.cfg(f, cls, max_depth=5,
                        inline=lambda t, fr: t.func.name not in (
                            'close', '_save_index', 'packer'))

        def shared_handle_use(node, F=F, b=b):
            out = []
            fr = node.frame
            for op in F.ops(node):
                if op.kind != 'call' or op.path is None or len(op.path) < 2:
                    continue
                p = op.path
                if p[:2] == ('self', '_file') and len(p) == 3:
                    out.append(op)
                elif p[0] in ('%param', '%default', '%arg') and \
                        p[1] == '_file' and len(p) == 3:
                    # formatter helper: which handle was it given?
                    bd = fr.bindings.get('_file')
                    if tuple(fr.self_path) != ('self',):
                        continue            # another object's own handle
                    if bd is None or bd[2] == 'default':
                        out.append(op)      # falls back to self._file
                    elif bd[0] is not None and bd[1] is not None and \
                            dotted(bd[0]):
                        cp = b.canon(bd[0], bd[1])
                        if cp == ('self', '_file'):
                            out.append(op)
                        elif cp is not None and cp[0] in (
                                '%param', '%default') and cp[1] == '_file':
                            # passed through from an outer helper
                            outer = bd[1].bindings.get('_file')
                            if outer is None or outer[2] == 'default':
                                out.append(op)
            return out

        def handle_reads(node, b=b):
            # the handle taken as a value (an alias outlives the lock: a
            # pack replaces and closes the file it names)
            out = []
            if node.kind not in OP_KINDS or node.ast is None or \
                    tuple(node.frame.self_path) != ('self',) or \
                    '_file' in node.frame.func.params:
                return out      # (format helpers: decided by their binding)
            if node.kind == 'withenter':
                exprs = [node.info['item'].context_expr]
            elif node.kind in ('test', 'foriter'):
                exprs = [node.ast]
            elif node.kind == 'for':
                exprs = []
            else:
                exprs = header_exprs(node.ast)
            for e in exprs:
                for x in ast.walk(e):
                    if isinstance(x, ast.Attribute) and isinstance(
                            x.ctx, ast.Load) and x.attr == '_file' and \
                            dotted(x) and b.canon(x, node.frame) == (
                                'self', '_file'):
                        out.append(x)
            return out

        def check(node, held, name=name, su=shared_handle_use,
                  hr=handle_reads):
            if hr(node):
                key = (node.frame.func.qualname, node.text(50))
                sites.setdefault(key, set()).add(name)
                if ('self', '_lock') not in held:
                    return ('`%s` takes the shared data-file handle (entry '
                            'point %s) without the storage lock: a pack '
                            'that completes before the handle is used has '
                            'replaced and closed the file it names' % (
                                node.text(50), name))
            for op in su(node):
                key = (node.frame.func.qualname, node.text(50))
                sites.setdefault(key, set()).add(name)
                if ('self', '_lock') not in held:
                    return ('`%s` uses the shared data-file handle (entry '
                            'point %s) without the storage lock: a '
                            'concurrent operation moves the file position '
                            'between its seek and its read, and it returns '
                            'bytes of another record' % (node.text(50), name))
            return None

        vs, stats = explore_locksets(g, F, check)
        R.count(stats)
        for v in vs:
            R.violation(v.node, v.message, g, v.path)
    for key, eps in sorted(sites.items()):
        R.instance('%s: %s' % (key[0].split('.')[-1], key[1]),
                   entry_points=sorted(eps)[:4])
    for k, why in EXEMPT_ENTRY.items():
        R.named_exception('FileStorage.' + k, why)
    # an alias of the handle that lives across a window in which the lock is
    # given up is compared with the current handle before it is used again
    nwin = 0
    for f in cls.methods.values():
        gives_up = [c for c in walk_local(f.node) if isinstance(c, ast.Call)
                    and dotted(c.func) == ('self', '_lock', 'release')]
        if not gives_up:
            continue
        g, b, F = R.cfg(f, cls, max_depth=0)

        def mentions_handle(e):
            return any(isinstance(x, ast.Attribute) and dotted(x) == (
                'self', '_file') for x in ast.walk(e))

        def edge(node, st, lab, tgt, F=F):
            aliases, stale = st
            if node.kind == 'test' and lab in ('T', 'F'):
                for x in ast.walk(node.ast):
                    if isinstance(x, ast.Compare) and len(x.ops) == 1 and \
                            isinstance(x.ops[0], (ast.Is, ast.IsNot)) and (
                                mentions_handle(x.left) or
                                mentions_handle(x.comparators[0])):
                        return (aliases, False)
            if lab == 'e':
                return st
            for op in F.ops(node):
                if op.kind == 'store' and op.path and \
                        op.path[0] == '%local':
                    v = store_value(op)
                    if v is not None and mentions_handle(v):
                        aliases = aliases | {op.path[1]}
                        stale = False
                if op.kind == 'call' and path_is(
                        op.path, ('self', '_lock', 'release')) and aliases:
                    stale = True
            return (aliases, stale)

        def at(node, st, F=F, f=f):
            aliases, stale = st
            if not stale:
                return st
            for op in F.ops(node):
                if op.kind == 'call' and op.path and len(op.path) >= 3 and \
                        op.path[0] == '%local' and op.path[1] in aliases:
                    return Violation(
                        '%s uses `%s`, which holds the data-file handle '
                        'taken before the storage lock was given up, '
                        'without comparing it with the current handle: a '
                        'pack that ran in the window has replaced and '
                        'closed that file' % (f.short, op.path[1]))
            return st

        vs, stats = explore(g, (frozenset(), False), at=at, edge=edge)
        R.count(stats)
        nwin += 1
        R.instance('%s gives the lock up and re-takes it' % f.short)
        for v in vs:
            R.violation(v.node, v.message, g, v.path)
    R.require(nwin >= 1, 'lock hand-over of undoLog vanished')


@rule('C02.R8', 'readers and the writer of the file pool exclude each other: '
      'each side announces itself under the condition before it waits for '
      'the other', props=['C08'], min_instances=4)
def r8(R):
    cls = R.prog.cls(POOL)
    info = {}
    for meth in ('write_lock', 'get'):
        f = R.method(cls, meth)
        g, b, F = R.cfg(f, cls, max_depth=0)
        waits = []
        writes_before_wait = set()
        loop_reads = set()

        def edge(node, st, lab, tgt, F=F):
            held, phase = st
            held = step_held(F, node, held, lab)
            if node.kind in ('yield-dummy',) or (
                    node.kind == 'stmt' and isinstance(
                        node.ast, ast.Expr) and isinstance(
                            node.ast.value, ast.Yield)):
                phase = 'after-yield'
            return (held, phase)

        def at(node, st, F=F, meth=meth, waits=waits,
               writes_before_wait=writes_before_wait, loop_reads=loop_reads):
            held, phase = st
            locks = held_locks(held)
            for op in F.ops(node):
                if op.kind == 'call' and path_is(op.path,
                                                 ('self', '_cond', 'wait')):
                    waits.append(node.id)
                    if ('self', '_cond') not in locks:
                        return Violation('%s waits on the condition without '
                                         'holding it' % meth)
                if phase == 'entry' and not waits:
                    if op.kind in ('store', 'aug') and op.path and \
                            op.path[0] == 'self' and len(op.path) == 2:
                        if ('self', '_cond') in locks:
                            writes_before_wait.add(op.path[1])
                    if op.kind == 'call' and op.path and op.path[0] == 'self' \
                            and len(op.path) == 3 and op.path[2] in (
                                'append', 'add'):
                        pass
            return st

        vs, stats = explore(g, (frozenset(), 'entry'), at=at, edge=edge)
        R.count(stats)
        for v in vs:
            R.violation(v.node, v.message, g, v.path)
        # syntactic facts of the admission protocol
        fn = f.node
        withs = [w for w in ast.walk(fn) if isinstance(w, ast.With) and any(
            dotted(i.context_expr) == ('self', '_cond') for i in w.items)]
        first = withs[0] if withs else None
        loops = [l for l in ast.walk(first) if isinstance(l, ast.While)] \
            if first is not None else []
        reads = set()
        for l in loops:
            for x in ast.walk(l.test):
                if isinstance(x, ast.Attribute) and dotted(x) and \
                        dotted(x)[0] == 'self':
                    reads.add(x.attr)
        announced = set()
        admitted = set()
        if first is not None:
            seen_loop = False
            for s in first.body:
                if isinstance(s, ast.While):
                    seen_loop = True
                    continue
                for x in ast.walk(s):
                    tgt = None
                    if isinstance(x, ast.AugAssign):
                        tgt = x.target
                    elif isinstance(x, ast.Assign):
                        tgt = x.targets[0]
                    if tgt is not None and dotted(tgt) and \
                            dotted(tgt)[0] == 'self':
                        (admitted if seen_loop else announced).add(
                            dotted(tgt)[1])
                    if isinstance(x, ast.Call) and isinstance(
                            x.func, ast.Attribute) and x.func.attr in (
                                'append', 'add') and dotted(x.func.value) \
                            and dotted(x.func.value)[0] == 'self':
                        (admitted if seen_loop else announced).add(
                            dotted(x.func.value)[1])
        info[meth] = dict(reads=reads, announced=announced, admitted=admitted,
                          in_cond=first is not None, loops=len(loops))
        R.instance('FilePool.%s admission' % meth,
                   waits_for=sorted(reads), announces=sorted(announced),
                   admits_with=sorted(admitted))
    w, r = info.get('write_lock', {}), info.get('get', {})
    fw = R.method(cls, 'write_lock')
    fr_ = R.method(cls, 'get')
    if not (w.get('in_cond') and w.get('loops')):
        R.violation((fw.module.relpath, fw.qualname, 'admission loop'),
                    'the writer no longer waits, under the condition, for '
                    'readers to leave')
    if not (r.get('in_cond') and r.get('loops')):
        R.violation((fr_.module.relpath, fr_.qualname, 'admission loop'),
                    'readers no longer wait, under the condition, for the '
                    'writer')
    if w.get('loops') and r.get('loops'):
        # reader waits on what the writer announces BEFORE its own wait
        if not (r['reads'] & w['announced']):
            R.violation((fw.module.relpath, fw.qualname, 'writer announce'),
                        'the writer does not announce itself (a field the '
                        'readers\' admission loop tests: %s) before it waits '
                        'for the readers: a stream of readers starves it, or '
                        'a reader is admitted while it writes' %
                        sorted(r['reads']))
        # writer waits on what a reader records when admitted
        if not (w['reads'] & (r['admitted'] | r['announced'])):
            R.violation((fr_.module.relpath, fr_.qualname, 'reader record'),
                        'an admitted reader does not record itself, under '
                        'the condition, in a field the writer waits on (%s): '
                        'the writer changes the file under it' %
                        sorted(w['reads']))
    R.instance('mutual announcement')
    R.instance('writer exit')
    # a reader's check-out and check-in change the pool's lists under the
    # condition only (a writer admitted between the two halves of a check-in
    # empties the pool first, and the handle of the replaced file is pooled)
    fget = R.method(cls, 'get')
    g, b, F = R.cfg(fget, cls, max_depth=0)
    watched = (w.get('reads', set()) | {'_files'}) - {'writing', 'writers'}
    nlist = [0]

    def list_change(node, F=F):
        out = []
        for op in F.ops(node):
            if op.kind == 'call' and op.path and len(op.path) == 3 and \
                    op.path[0] == 'self' and op.path[1] in watched and \
                    op.path[2] in ('append', 'remove', 'pop', 'add',
                                   'discard', 'clear', 'insert', 'extend'):
                out.append(op)
            elif op.kind in ('store', 'aug', 'setitem', 'delitem', 'del') \
                    and op.path and len(op.path) >= 2 and \
                    op.path[0] == 'self' and op.path[1] in watched:
                out.append(op)
        return out

    def check_lists(node, held):
        for op in list_change(node):
            if ('self', '_cond') not in held:
                return ('FilePool.get changes `%s` outside the condition: '
                        'the writer can be admitted between the two halves '
                        'of a reader\'s check-out or check-in, and the '
                        'handle of a file the writer replaces ends up in '
                        'the pool' % '.'.join(op.path[:2]))
        return None

    vs, stats = explore_locksets(g, F, check_lists)
    R.count(stats)
    for nid in g.reachable():
        for op in list_change(g.nodes[nid]):
            nlist[0] += 1
            R.instance('FilePool.get: %s' % g.nodes[nid].text(50))
    for v in vs:
        R.violation(v.node, v.message, g, v.path)
    R.require(nlist[0] >= 3, 'pool list changes of FilePool.get vanished')
    # writer exit: clears its flag and notifies under the condition
    fin = [t for t in ast.walk(fw.node) if isinstance(t, ast.Try) and
           t.finalbody]
    ok = False
    for t in fin:
        for wth in ast.walk(ast.Module(body=t.finalbody, type_ignores=[])):
            if isinstance(wth, ast.With) and any(
                    dotted(i.context_expr) == ('self', '_cond')
                    for i in wth.items):
                src = ast.unparse(wth)
                ok = 'self.writing = False' in src and 'notify' in src
    if not ok:
        R.violation((fw.module.relpath, fw.qualname, 'writer exit'),
                    'the writer\'s exit does not clear `writing` and notify '
                    'under the condition on every exit: readers wait for '
                    'ever after a failed finish')


# ------------------------------------------------------------------ C02.R9

DBQ = 'ZODB.DB.DB'
STORAGE_CLASSES = {'FileStorage', 'BaseStorage', 'MappingStorage',
                   'BlobStorage', 'FileStoragePacker', 'BlobStorageMixin',
                   'FileStorageFormatter', 'ConflictResolvingStorage'}
S_LOCK = 'Storage._lock'
S_COMMIT = 'Storage._commit_lock'
P_COND = 'FilePool._cond'
P_WRITE = 'FilePool.<write side>'
REENTRANT = {S_LOCK, 'DB._lock'}


def lock_id(b, lock, fr):
    """Type-based identity of a lock path."""
    if tuple(lock) == POOL_WRITE or lock[-1] == '<write side>':
        return P_WRITE
    attr = lock[-1]
    owner = b.path_type(tuple(lock[:-1]), fr) if len(lock) > 1 else None
    oname = owner.name if isinstance(owner, ClassInfo) else None
    if oname is None and tuple(lock[:-1]) == tuple(fr.self_path) and \
            fr.cls is not None:
        oname = fr.cls.name
    if oname is None and owner == 'storage':
        oname = 'BaseStorage'
    if oname in STORAGE_CLASSES:
        return {'_lock': S_LOCK, '_commit_lock': S_COMMIT}.get(
            attr, '%s.%s' % (oname, attr))
    if oname == 'FilePool' and attr == '_cond':
        return P_COND
    return '%s.%s' % (oname or '?', attr)


class _Nested:
    """FunctionInfo-like wrapper for a nested def analysed as a callback."""


def nested_function(R, outer, name):
    from ..model import FunctionInfo
    for x in outer.node.body:
        if isinstance(x, ast.FunctionDef) and x.name == name:
            f = FunctionInfo(outer.module, x, cls=None, outer=outer)
            return f
    return None


@rule('C02.R9', 'no two code paths take two locks in opposite order (commit '
      'lock, storage lock, file pool, MVCC adapter and instance locks, '
      'database lock)', props=['C05', 'C08'], min_instances=8)
def r9(R):
    edges = {}      # (a, b) -> (witness text, gated)
    contexts = []

    def run(f, cls, name, init_held=frozenset(), depth=4, inline=None,
            self_bind=None):
        from ..cfg import Builder
        from ..flow import Facts
        b = Builder(R.prog, max_depth=depth, inline=inline)
        g = b.build(f, cls)
        if self_bind:
            g.root.bindings.update(self_bind)
        F = Facts(g, b)
        R.stats['cfg_nodes'] += len(g.reachable())
        R.stats['graphs'] += 1

        def ids(held, fr_of):
            return {lid for lid, c in held}

        def edge(node, st, lab, tgt):
            held, matched = st
            same = identity_guard(node, F)
            if same is not None and lab in ('T', 'F'):
                return (held, lab == same)
            d = dict(held)
            for delta, lock in lock_ops(F, node):
                if tuple(lock) == POOL_WRITE and lab == 'e':
                    continue
                lid = lock_id(b, lock, node.frame)
                if delta > 0:
                    for h in d:
                        if h != lid:
                            gated = matched is True or name.endswith('.pack')
                            key = (h, lid)
                            old = edges.get(key)
                            w = '%s: %s (%s)' % (name, node.text(50),
                                                 node.where())
                            if old is None or (old[1] and not gated):
                                edges[key] = (w, gated)
                        elif lid not in REENTRANT and lid != P_WRITE and \
                                lid != P_COND:
                            return Violation(
                                '%s acquires the non-reentrant %s while '
                                'already holding it' % (name, lid))
                    d[lid] = d.get(lid, 0) + 1
                else:
                    c = d.get(lid, 0) - 1
                    if c <= 0:
                        d.pop(lid, None)
                    else:
                        d[lid] = c
            # calls into an opaque storage may take its locks
            for op in F.ops(node):
                if op.kind == 'call' and op.path and not op.inlined and \
                        len(op.path) >= 3 and op.path[-2] in (
                            '_storage', 'storage', '_normal_storage') and \
                        op.path[0] in ('self', '%local'):
                    for h in d:
                        if h in (S_LOCK, S_COMMIT, P_COND, P_WRITE):
                            continue
                        w = '%s: %s (%s)' % (name, node.text(50), node.where())
                        edges.setdefault((h, S_LOCK), (w, False))
                        if op.path[-1] == 'tpc_begin':
                            edges.setdefault((h, S_COMMIT), (w, False))
            return (frozenset(d.items()), matched)

        vs, stats = explore(g, (init_held, None), edge=edge,
                            max_states=600000)
        R.count(stats)
        for v in vs:
            R.violation(v.node, v.message, g, v.path)

    # file storage entry points
    fs = R.prog.cls(FS)
    names = set()
    for k in R.prog.mro(fs):
        names |= set(getattr(k, 'methods', {}))
    n = 0
    for nm in sorted(names):
        if nm.startswith('_') or nm in ('__init__', 'close', 'cleanup',
                                        'packer', 'copyTransactionsFrom'):
            continue        # copyTransactionsFrom only drives the public API
        r = R.prog.find_method(fs, nm)
        if r is None or r[0].is_generator:
            continue
        if r[0].cls is not None and r[0].cls.name == 'FileStorageFormatter':
            continue
        src = ast.unparse(r[0].node)
        run(r[0], fs, 'FileStorage.' + nm, depth=5,
            inline=lambda t, fr: t.func.name not in ('close', '_save_index'))
        n += 1
    R.instance('FileStorage entry points', n=n)
    for q in (MS, MVCC, INST, UNDOI):
        cls = R.prog.cls(q)
        k = 0
        for m in cls.methods.values():
            if m.is_generator or m.name == '__init__':
                continue
            run(m, cls, '%s.%s' % (cls.name, m.name), depth=3)
            k += 1
        R.instance('%s methods' % cls.name, n=k)
    db = R.prog.cls(DBQ)
    k = 0
    for m in db.methods.values():
        if m.is_generator or m.name == '__init__':
            continue
        if 'self._lock' not in ast.unparse(m.node):
            continue
        run(m, db, 'DB.%s' % m.name, depth=3)
        k += 1
    R.instance('DB methods under the database lock', n=k)
    # invalidation callbacks run inside the storage's finish (C02.R1)
    for q in (INST, UNDOI):
        cls = R.prog.cls(q)
        outer = R.method(cls, 'tpc_finish')
        nf = nested_function(R, outer, 'invalidate_finish')
        if nf is None:
            # nothing runs under the storage lock on behalf of this class
            # then; that the callback is gone is C02.R1/R2's finding, not a
            # lock-order question
            R.observe('%s.tpc_finish passes no invalidation callback; '
                      'no lock-order edges from it' % cls.name)
            continue
        nf.cls = None
        run(nf, cls, '%s.tpc_finish.<callback>' % cls.name,
            init_held=frozenset({(S_LOCK, 1)}), depth=3)
    R.instance('invalidation callbacks (run under the storage lock)')
    R.instance('lock-order edges', edges=sorted('%s -> %s' % k for k in edges))
    # cycles
    graph = {}
    for (a, b_), (w, gated) in edges.items():
        graph.setdefault(a, set()).add(b_)

    def reach(src, dst, skip):
        seen, stack = set(), [src]
        while stack:
            x = stack.pop()
            for y in graph.get(x, ()):
                if (x, y) in skip:
                    continue
                if y == dst:
                    return True
                if y not in seen:
                    seen.add(y)
                    stack.append(y)
        return False

    pool = {P_COND, P_WRITE}
    for (a, b_), (w, gated) in sorted(edges.items()):
        if a == b_:
            continue
        if not reach(b_, a, set()):
            continue
        # a -> b and b ->* a : cycle
        if (a == S_LOCK and b_ in pool) or (a in pool and b_ == S_LOCK) or \
                (a in pool and b_ in pool):
            if a == S_LOCK and b_ in pool and not gated:
                R.violation(('lock-order graph', w.split(': ')[0],
                             '%s -> %s' % (a, b_)), 'the storage lock is held while waiting for the '
                    'file pool (%s) on a path where the commit lock is not '
                    'known to be held; finish and pack take the two in the '
                    'opposite order, so two threads can block each other '
                    'for ever' % w)
            continue
        back = [k for k in edges if k[0] == b_]
        R.violation(('lock-order graph', w.split(': ')[0],
                     '%s -> %s' % (a, b_)),
                    'lock order cycle: %s is taken while holding %s (%s), '
                    'and elsewhere %s is (transitively) taken while holding '
                    '%s: two threads can block each other for ever' % (
                        b_, a, w, a, b_))
    R.named_exception('storage lock <-> file pool',
                      'both orders occur, but storage-lock-then-pool only '
                      'with the commit lock held (after the transaction-'
                      'identity check, or in pack after the hand-over), and '
                      'only one thread holds the commit lock; checked per '
                      'edge, not assumed')
    R.require(len(edges) >= 5, 'only %d lock-order edges found' % len(edges))


# ------------------------------------------------------------------ C02.R10
@rule('C02.R10', 'an invalidated blob drops its cached state like any other '
      'object: Blob._p_invalidate reaches Persistent._p_invalidate unless '
      'the blob is a ghost already', props=['C13'], min_instances=1)
def r10(R):
    cls = R.prog.cls('ZODB.blob.Blob')
    f = R.method(cls, '_p_invalidate')
    g, b, F = R.cfg(f, cls, max_depth=0)
    R.instance('Blob._p_invalidate')
    seen = [0]

    def is_super_inval(node):
        a = node.ast
        if a is None:
            return False
        for c in ast.walk(a):
            if isinstance(c, ast.Call) and isinstance(
                    c.func, ast.Attribute) and \
                    c.func.attr == '_p_invalidate':
                v = c.func.value
                if isinstance(v, ast.Call) and isinstance(
                        v.func, ast.Name) and v.func.id == 'super':
                    return True
                if dotted(v) and dotted(v)[-1] == 'Persistent':
                    return True
        return False

    def edge(node, st, lab, tgt):
        done, ghost = st
        if node.kind == 'test' and lab in ('T', 'F'):
            for e, truth in implied_atoms(node.ast, lab):
                if isinstance(e, ast.Compare) and len(e.ops) == 1 and \
                        dotted(e.left) == ('self', '_p_changed') and \
                        isinstance(e.comparators[0], ast.Constant) and \
                        e.comparators[0].value is None:
                    if isinstance(e.ops[0], ast.Is) == truth:
                        ghost = True
        if lab not in ('e', 'eb') and node.kind == 'stmt' and \
                is_super_inval(node):
            seen[0] += 1
            done = True
        return (done, ghost)

    def at(node, st):
        done, ghost = st
        if node.id == g.exit_return and not done and not ghost:
            return Violation(
                'Blob._p_invalidate can return without invalidating the '
                'object although it is not a ghost: the invalidation of the '
                'committing transaction has been consumed by then, so the '
                'connection keeps serving the old blob revision next to the '
                'new state of other objects')
        return st

    vs, stats = explore(g, (False, False), at=at, edge=edge)
    R.count(stats)
    R.require(seen[0] or vs, 'Blob._p_invalidate no longer calls '
              'Persistent._p_invalidate')
    for v in vs:
        R.violation(v.node, v.message, g, v.path)
