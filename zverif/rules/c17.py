"""C17 -- copying or recovering a storage reproduces its history (narrow)."""

import ast

from ..engine import rule
from ..flow import PRUNE, Violation, cmp_sides, explore, implied_atoms, \
    path_ends, path_is, prov_has, provenance, raising_node, store_value
from ..model import dotted, walk_local
from ..twopc import FS

# ------------------------------------------------------------------ C17.R1/R2

COPIERS = ['ZODB.BaseStorage.copy', 'ZODB.blob.copyTransactionsFromTo',
           'ZODB.fsrecover.recover']


def attr_of(e):
    return e.attr if isinstance(e, ast.Attribute) else None


def base_name(e):
    return e.value.id if isinstance(e, ast.Attribute) and isinstance(
        e.value, ast.Name) else None


@rule('C17.R1', 'every copy loop hands restore() the record\'s own oid, tid, '
      'data and data-transaction hint, in that order', min_instances=4)
def r1(R):
    n = 0
    for q in COPIERS:
        f = R.prog.func(q)
        for c in walk_local(f.node):
            if not (isinstance(c, ast.Call) and isinstance(
                    c.func, ast.Attribute) and c.func.attr in (
                        'restore', 'restoreBlob')):
                continue
            n += 1
            a = c.args
            R.instance('%s: %s' % (f.short, ast.unparse(c)[:70]))
            where = (f.module.relpath, f.qualname,
                     ' '.join(ast.unparse(c).split())[:100], c.lineno)
            if len(a) != 6:
                R.violation(where, '%s is called with %d arguments' % (
                    c.func.attr, len(a)))
                continue
            want = {0: 'oid', 1: 'tid', 2: 'data', 4: 'data_txn'}
            a = list(a)
            for i, e in enumerate(a):
                # a local bound once to a record attribute (oid = r.oid)
                if isinstance(e, ast.Name):
                    ds = [d.value for d in walk_local(f.node)
                          if isinstance(d, ast.Assign) and any(
                              isinstance(t, ast.Name) and t.id == e.id
                              for t in d.targets)]
                    if len(ds) == 1 and isinstance(ds[0], ast.Attribute):
                        a[i] = ds[0]
            rec = base_name(a[0])
            for i, w in want.items():
                if attr_of(a[i]) != w or base_name(a[i]) != rec:
                    R.violation(where, 'argument %d of %s is `%s`, not the '
                                'record\'s `%s`: the copy stores the record '
                                'under a different id/revision or loses its '
                                'back-pointer' % (i + 1, c.func.attr,
                                                  ast.unparse(a[i]), w))
                    break
            else:
                # the last argument is the transaction being iterated
                loops = [l for l in walk_local(f.node)
                         if isinstance(l, ast.For) and isinstance(
                             l.target, ast.Name) and l.target.id == rec]
                ok = False
                for l in loops:
                    if isinstance(l.iter, ast.Name) and isinstance(
                            a[5], ast.Name) and l.iter.id == a[5].id:
                        ok = True
                if not ok:
                    R.violation(where, 'the record is not restored into the '
                                'transaction it was read from')
    R.require(n >= 4, 'only %d restore call sites found' % n)


@rule('C17.R2', 'every copy loop begins the destination transaction with the '
      'source transaction\'s id and status', min_instances=3)
def r2(R):
    n = 0
    for q in COPIERS:
        f = R.prog.func(q)
        g, b, F = R.cfg(f, None, max_depth=0)
        for op in F.all_ops():
            if op.kind == 'call' and op.path and op.path[-1] == 'tpc_begin':
                n += 1
                a = op.ast.args
                R.instance('%s: %s' % (f.short, ast.unparse(op.ast)[:70]))
                if len(a) != 3:
                    R.violation(op.node, 'tpc_begin is not given the source '
                                'transaction\'s id and status: the copy gets '
                                'new ids / loses the packed status')
                    continue
                txn = a[0].id if isinstance(a[0], ast.Name) else None
                pv = provenance(a[1], op.node.frame, F)
                if not (('attr', 'tid') in pv):
                    R.violation(op.node, 'the id given to tpc_begin does not '
                                'derive from the source transaction\'s tid')
                if not (attr_of(a[2]) == 'status' and base_name(a[2]) == txn):
                    R.violation(op.node, 'the status given to tpc_begin is '
                                'not the source transaction\'s status')
    R.require(n >= 3, 'only %d tpc_begin call sites found' % n)


# ------------------------------------------------------------------ C17.R3
# sign domain: 'neg' 'zero' 'pos' 'nonneg' 'any'

def sign_add(a, b):
    if a == 'zero':
        return b
    if b == 'zero':
        return a
    if a == 'pos' and b in ('pos', 'nonneg'):
        return 'pos'
    if b == 'pos' and a in ('pos', 'nonneg'):
        return 'pos'
    if a == 'nonneg' and b == 'nonneg':
        return 'nonneg'
    if a == 'neg' and b == 'neg':
        return 'neg'
    return 'any'


def sign_of(e, env, nonempty):
    if isinstance(e, ast.Constant) and isinstance(e.value, int) and \
            not isinstance(e.value, bool):
        return 'zero' if e.value == 0 else ('pos' if e.value > 0 else 'neg')
    if isinstance(e, ast.Name):
        return dict(env).get(e.id, 'any')
    if isinstance(e, ast.Call) and isinstance(e.func, ast.Name) and \
            e.func.id == 'len' and e.args:
        a = e.args[0]
        if isinstance(a, ast.Name) and a.id in nonempty:
            return 'pos'
        return 'nonneg'
    if isinstance(e, ast.BinOp) and isinstance(e.op, ast.Add):
        return sign_add(sign_of(e.left, env, nonempty),
                        sign_of(e.right, env, nonempty))
    return 'any'


def refine(sign, op, truth):
    """sign of x after learning (x <op> 0) is `truth`."""
    table = {
        (ast.Lt, True): {'any': 'neg', 'nonneg': None, 'pos': None,
                         'zero': None, 'neg': 'neg'},
        (ast.Lt, False): {'any': 'nonneg', 'nonneg': 'nonneg', 'pos': 'pos',
                          'zero': 'zero', 'neg': None},
        (ast.Eq, True): {'any': 'zero', 'nonneg': 'zero', 'pos': None,
                         'zero': 'zero', 'neg': None},
        (ast.Eq, False): {'any': 'any', 'nonneg': 'pos', 'pos': 'pos',
                          'zero': None, 'neg': 'neg'},
        (ast.Gt, True): {'any': 'pos', 'nonneg': 'pos', 'pos': 'pos',
                         'zero': None, 'neg': None},
        (ast.Gt, False): {'any': 'any', 'nonneg': 'zero', 'pos': None,
                          'zero': 'zero', 'neg': 'neg'},
        (ast.LtE, True): {'any': 'any', 'nonneg': 'zero', 'pos': None,
                          'zero': 'zero', 'neg': 'neg'},
        (ast.LtE, False): {'any': 'pos', 'nonneg': 'pos', 'pos': 'pos',
                           'zero': None, 'neg': None},
        (ast.GtE, True): {'any': 'nonneg', 'nonneg': 'nonneg', 'pos': 'pos',
                          'zero': 'zero', 'neg': None},
        (ast.GtE, False): {'any': 'neg', 'nonneg': None, 'pos': None,
                           'zero': None, 'neg': 'neg'},
        (ast.NotEq, True): {'any': 'any', 'nonneg': 'pos', 'pos': 'pos',
                            'zero': None, 'neg': 'neg'},
        (ast.NotEq, False): {'any': 'zero', 'nonneg': 'zero', 'pos': None,
                             'zero': 'zero', 'neg': None},
    }
    return table.get((op, truth), {}).get(sign, sign)


PROGRESS_LOOPS = [
    # function, tracked variable, direction, which while loop (index among
    # the function's top-level-first while loops)
    ('ZODB.fsrecover.scan', 'pos', +1),
]
EOF_LOOPS = ['ZODB.fsrecover.copy']


@rule('C17.R3', 'every iteration of the recovery tool\'s scan loops makes '
      'strict progress', min_instances=2)
def r3(R):
    for q, var, direction in PROGRESS_LOOPS:
        f = R.prog.func(q)
        g, b, F = R.cfg(f, None, max_depth=0)
        # the outermost while loop of the function
        outer = None
        for s in f.node.body:
            if isinstance(s, ast.While):
                outer = s
        R.require(outer is not None, '%s has no top-level loop' % q)
        heads = [n for n in (g.nodes[i] for i in g.reachable())
                 if n.kind == 'loophead' and n.ast is outer]
        R.require(len(heads) == 1, 'loop head of %s not found' % q)
        head = heads[0]
        R.instance('%s loop on `%s`' % (f.short, var))

        def edge(node, st, lab, tgt, var=var, direction=direction):
            delta, env, nonempty = st
            env_d = dict(env)
            if node.kind == 'test' and lab in ('T', 'F'):
                for e, truth in implied_atoms(node.ast, lab):
                    if isinstance(e, ast.Name):
                        # truthiness of a name: bytes non-empty / int != 0
                        if truth:
                            nonempty = nonempty | {e.id}
                            if e.id in env_d:
                                r = refine(env_d[e.id], ast.NotEq, True)
                                if r is None:
                                    return PRUNE
                                env_d[e.id] = r
                        else:
                            nonempty = nonempty - {e.id}
                    if isinstance(e, ast.Compare) and len(e.ops) == 1 and \
                            isinstance(e.left, ast.Name) and \
                            isinstance(e.comparators[0], ast.Constant) and \
                            e.comparators[0].value == 0:
                        cur = env_d.get(e.left.id, 'any')
                        r = refine(cur, type(e.ops[0]), truth)
                        if r is None:
                            return PRUNE
                        env_d[e.left.id] = r
            if lab != 'e' and node.kind == 'stmt':
                s = node.ast
                # `x = x + e` is `x += e`
                if isinstance(s, ast.Assign) and len(s.targets) == 1 and \
                        isinstance(s.targets[0], ast.Name) and isinstance(
                            s.value, ast.BinOp) and isinstance(
                                s.value.left, ast.Name) and \
                        s.value.left.id == s.targets[0].id:
                    s = ast.copy_location(ast.AugAssign(
                        target=s.targets[0], op=s.value.op,
                        value=s.value.right), s)
                if isinstance(s, ast.AugAssign) and isinstance(
                        s.target, ast.Name):
                    sg = sign_of(s.value, env, nonempty)
                    if isinstance(s.op, ast.Sub):
                        sg = {'pos': 'neg', 'neg': 'pos', 'nonneg': 'any',
                              'zero': 'zero'}.get(sg, 'any')
                    elif not isinstance(s.op, ast.Add):
                        sg = 'any'
                    if s.target.id == var:
                        delta = sign_add(delta, sg) if delta else sg
                    env_d.pop(s.target.id, None)
                    nonempty = nonempty - {s.target.id}
                elif isinstance(s, ast.Assign):
                    for t in s.targets:
                        for nm in ast.walk(t):
                            if isinstance(nm, ast.Name):
                                nonempty = nonempty - {nm.id}
                                env_d.pop(nm.id, None)
                                if nm.id == var:
                                    delta = 'any'
                    if len(s.targets) == 1 and isinstance(
                            s.targets[0], ast.Name):
                        nm = s.targets[0].id
                        sg = sign_of(s.value, env, nonempty)
                        if isinstance(s.value, ast.Call) and isinstance(
                                s.value.func, ast.Attribute) and \
                                s.value.func.attr == 'find':
                            sg = 'any'
                        if sg != 'any':
                            env_d[nm] = sg
            return (delta, frozenset(env_d.items()), nonempty)

        def at(node, st, head=head, var=var, direction=direction):
            delta, env, nonempty = st
            if node is head:
                if delta is not None:
                    want = 'pos' if direction > 0 else 'neg'
                    if delta != want:
                        return Violation(
                            'the loop can start another iteration with `%s` '
                            '%s (abstract change: %s): on such input the '
                            'recovery tool never terminates' % (
                                var, 'not increased' if direction > 0
                                else 'not decreased', delta))
            return st

        def edge_wrap(node, st, lab, tgt, edge=edge, head=head):
            st2 = edge(node, st, lab, tgt)
            if st2 is PRUNE or isinstance(st2, Violation):
                return st2
            if node is head:
                return ('zero', frozenset(), frozenset())
            return st2

        vs, stats = explore(g, (None, frozenset(), frozenset()), at=at,
                            edge=edge_wrap)
        R.count(stats)
        for v in vs:
            # report at the last update of the variable on the path
            upd = None
            for nid in v.path:
                nd = g.nodes[nid]
                if nd.kind == 'stmt' and any(
                        isinstance(t_, ast.Name) and t_.id == var
                        for t_ in ([nd.ast.target] if isinstance(
                            nd.ast, ast.AugAssign) else nd.ast.targets
                            if isinstance(nd.ast, ast.Assign) else [])):
                    upd = nd
            R.violation(upd or v.node, v.message, g, v.path)


    # loops whose progress is the file position of a read: they must leave
    # when the read returns nothing
    for q in EOF_LOOPS:
        f = R.prog.func(q)
        g, b, F = R.cfg(f, None, max_depth=0)
        R.instance('%s read loop' % f.short)
        reads = [0]

        def edge(node, st, lab, tgt):
            if lab == 'e':
                return st
            if node.kind == 'stmt' and isinstance(node.ast, ast.Assign) and \
                    isinstance(node.ast.value, ast.Call) and isinstance(
                        node.ast.value.func, ast.Attribute) and \
                    node.ast.value.func.attr == 'read' and isinstance(
                        node.ast.targets[0], ast.Name):
                reads[0] += 1
                return ('unchecked', node.ast.targets[0].id)
            if st and st[0] == 'unchecked' and node.kind == 'test' and \
                    lab in ('T', 'F'):
                for e, truth in implied_atoms(node.ast, lab):
                    if isinstance(e, ast.Name) and e.id == st[1]:
                        return ('nonempty', st[1]) if truth else \
                            ('empty', st[1])
            return st

        def at(node, st):
            if node.kind == 'loophead' and st and st[0] in ('unchecked',
                                                            'empty'):
                return Violation(
                    'the copy loop goes round again although the read '
                    'returned nothing (state: %s): at end of file the tool '
                    'never terminates' % st[0])
            return st

        vs, stats = explore(g, None, at=at, edge=edge)
        R.count(stats)
        R.require(reads[0] or vs, '%s no longer reads in its loop' % q)
        for v in vs:
            R.violation((f.module.relpath, f.qualname, 'read loop exit'),
                        v.message, g, v.path)


# ------------------------------------------------------------------ C17.R4

UNDO_API = {'undo', 'undoLog', 'undoInfo', '_txn_undo_write',
            '_transactionalUndoRecord', '_undoDataInfo', '_txn_find'}


@rule('C17.R4', 'only the undo API lets an UndoError escape (restore treats '
      'its transaction hint as a hint)', props=['C06'], min_instances=8)
def r4(R):
    cls = R.prog.cls(FS)
    ue = R.prog.cls('ZODB.POSException.UndoError').qualname
    names = set()
    for k in R.prog.mro(cls):
        names |= set(getattr(k, 'methods', {}))
    n = 0
    for name in sorted(names):
        if name.startswith('_') or name in UNDO_API:
            continue
        r = R.prog.find_method(cls, name)
        if r is None or r[0].is_generator:
            continue
        f = r[0]
        g, b, F = R.cfg(f, cls, max_depth=4,
                        inline=lambda t, fr: t.func.name != 'pack' and
                        t.func.name not in ('close',))
        n += 1
        raises = [nd for nd in (g.nodes[i] for i in g.reachable())
                  if nd.kind == 'raise' and nd.info.get('raised') and
                  any(ue in b.ancestors(x) for x in nd.info['raised'])]
        R.instance('FileStorage.%s' % name, undo_error_raise_sites=len(raises))
        for rn in raises:
            # can it reach the exceptional exit?
            seen = set()
            stack = [rn.id]
            hit = False
            while stack:
                i = stack.pop()
                if i == g.exit_raise:
                    hit = True
                    break
                if i in seen:
                    continue
                seen.add(i)
                nd = g.nodes[i]
                for t, lab in nd.succ:
                    # follow only the unwinding: exception edges, cleanup
                    if nd is rn or nd.kind in ('rel', 'reraise', 'withexit') \
                            or lab == 'e' and nd.kind == 'reraise':
                        stack.append(t)
                    elif nd.kind in ('stmt', 'test') and any(
                            fr.via == 'with' for fr in nd.frame.chain()):
                        stack.append(t)
            if hit:
                R.violation(rn, 'FileStorage.%s can fail with UndoError '
                            '(raised in %s): the error belongs to undo; here '
                            'it makes copying a storage fail on a '
                            'back-pointer hint that need not exist in the '
                            'destination' % (name, rn.frame.func.short),
                            at_root=True)
    R.require(n >= 8, 'only %d entry points analysed' % n)


# ------------------------------------------------------------------ C17.R5

@rule('C17.R5', 'the recovery tool finishes or aborts every destination '
      'transaction it begins', min_instances=1)
def r5(R):
    f = R.prog.func('ZODB.fsrecover.recover')
    g, b, F = R.cfg(f, None, max_depth=0)
    R.instance('fsrecover.recover')
    seen = [0]

    def edge(node, st, lab, tgt):
        open_, failed = st
        if lab == 'e':
            # an exception while the transaction is open: copying it failed
            return (open_, failed or open_)
        for op in F.ops(node):
            if op.kind == 'call' and op.path:
                if op.path[-1] == 'tpc_begin':
                    seen[0] += 1
                    open_, failed = True, False
                elif op.path[-1] in ('tpc_finish', 'tpc_abort'):
                    open_ = False
        return (open_, failed)

    def at(node, st):
        open_, failed = st
        if open_ and (node.id == g.exit_return or (
                node.kind == 'loophead' and node.ast in f.node.body)):
            return Violation('the recovery loop can move on (or return) with '
                             'a destination transaction still open: the next '
                             'tpc_begin blocks for ever')
        # a transaction that was copied without any failure is committed,
        # whatever it contains (also when it has no data records at all)
        if open_ and not failed:
            for op in F.ops(node):
                if op.kind == 'call' and op.path and \
                        op.path[-1] == 'tpc_abort':
                    return Violation(
                        'the recovery tool aborts a destination transaction '
                        'although nothing failed while it was copied (for '
                        'instance because it has no data records): a '
                        'transaction of an undamaged input is missing from '
                        'the output, ids and lastTransaction() differ')
        return st

    vs, stats = explore(g, (False, False), at=at, edge=edge)
    R.count(stats)
    R.require(seen[0], 'recover no longer calls tpc_begin')
    for v in vs:
        R.violation((f.module.relpath, f.qualname, 'open transaction'),
                    v.message, g, v.path)


# ------------------------------------------------------------------ C17.R6
TRI = 'ZODB.FileStorage.FileStorage.TransactionRecordIterator'


@rule('C17.R6', 'a record the iterator yields through a backpointer has had '
      'its backpointer target validated against the record\'s oid',
      min_instances=1)
def r6(R):
    cls = R.prog.cls(TRI)
    f = R.method(cls, '__next__')
    g, b, F = R.cfg(f, cls, max_depth=3)
    seen = [0, 0]

    def edge(node, st, lab, tgt):
        loaded, valid = st
        fr = node.frame
        if fr is not None and fr.func.name == '_read_data_header' and \
                'oid' in fr.bindings:
            e, pf, how = fr.bindings['oid']
            if how != 'default' and e is not None and not (
                    isinstance(e, ast.Constant) and e.value is None):
                pv = provenance(e, pf, F)
                if prov_has(pv, 'attr', lambda a: a == 'oid'):
                    seen[1] += 1
                    valid = True
        if lab not in ('e', 'eb') and fr is not None and fr.parent is None:
            for op in F.ops(node):
                if op.kind == 'call' and op.path and \
                        op.path[-1].startswith('_loadBack'):
                    loaded = True
        return (loaded, valid)

    def at(node, st):
        loaded, valid = st
        if node.kind == 'return' and node.frame.parent is None and \
                node.ast.value is not None:
            seen[0] += 1
            if loaded and not valid:
                return Violation(
                    'a record whose data was fetched through its backpointer '
                    'is yielded although nothing compared the oid of the '
                    'record at the backpointer target with this record\'s '
                    'oid (_loadBack* does not): in a damaged file a zeroed '
                    'or foreign target is copied as "object deleted" / as '
                    'another object\'s data')
        return st

    vs, stats = explore(g, (False, False), at=at, edge=edge)
    R.count(stats)
    R.instance('TransactionRecordIterator.__next__ backpointer branch')
    R.require(seen[0], '__next__ returns no record')
    R.require(seen[1] or vs, 'no validated _read_data_header(pos, oid) frame '
              'reached from __next__')
    for v in vs:
        R.violation(v.node, v.message, g, v.path)


# ------------------------------------------------------------------ C17.R7
def _txn_hdr_fields(fnode):
    """Names bound by `tid, tl, status, ul, dl, el = unpack(<fmt>, h)` in
    this function -> ({length names}, [(ul, dl, el) name triples]); a name
    assigned u64(<length name>) is a length name too."""
    tl, triples = set(), []
    for a in walk_local(fnode):
        if isinstance(a, ast.Assign) and isinstance(
                a.targets[0], ast.Tuple) and len(a.targets[0].elts) == 6 \
                and isinstance(a.value, ast.Call) and dotted(a.value.func) \
                and dotted(a.value.func)[-1] == 'unpack' and all(
                    isinstance(x, ast.Name) for x in a.targets[0].elts):
            e = a.targets[0].elts
            tl.add(e[1].id)
            triples.append((e[3].id, e[4].id, e[5].id))
    for a in walk_local(fnode):
        if isinstance(a, ast.Assign) and isinstance(
                a.targets[0], ast.Name) and isinstance(a.value, ast.Call) \
                and len(a.value.args) == 1 and isinstance(
                    a.value.args[0], ast.Name) and \
                a.value.args[0].id in tl and dotted(a.value.func) and \
                dotted(a.value.func)[-1].lower() == 'u64':
            tl.add(a.targets[0].id)
    return tl, triples


def _is_hdrlen(e, triples=()):
    """23/TRANS_HDR_LEN + ul + dl + el   or   X.headerlen()"""
    if isinstance(e, ast.Call) and isinstance(e.func, ast.Attribute) and \
            e.func.attr == 'headerlen':
        return True
    if isinstance(e, ast.BinOp) and isinstance(e.op, ast.Add):
        names = {x.id for x in ast.walk(e) if isinstance(x, ast.Name)} | \
            {x.attr for x in ast.walk(e) if isinstance(x, ast.Attribute)}
        if {'ulen', 'dlen', 'elen'} <= names:
            return True
        if any(set(t) <= names for t in triples):
            return True
    return False


def _is_tlen(e, tl=()):
    return (isinstance(e, ast.Name) and e.id in tl) or (
        isinstance(e, ast.Attribute) and e.attr == 'tlen')


REJECT_CALLS = ('error', 'fail', 'panic', 'warning', 'critical', 'die')


def _rejects(block):
    """Does this block refuse the transaction: raise, error()/fail()/...,
    `return 0`, break."""
    for s_ in block:
        for x in ast.walk(s_):
            if isinstance(x, (ast.Raise, ast.Break)):
                return True
            if isinstance(x, ast.Call) and dotted(x.func) and \
                    dotted(x.func)[-1] in REJECT_CALLS:
                return True
            if isinstance(x, ast.Return) and isinstance(
                    x.value, ast.Constant) and not x.value.value:
                return True
    return False


@rule('C17.R7', 'every reader of the transaction log accepts a transaction '
      'whose length equals its header length (no data records): the '
      'length test is strict everywhere', props=['C01'], min_instances=6)
def r7(R):
    """Sibling agreement between the validators of a transaction header
    (open-time scan, sanity check, iterator, packer's checkTxn, recovery
    tool, fstest).  `undoMultiple([])`, or a commit that stored nothing,
    writes a transaction with tlen == headerlen().  For each `if` whose test
    compares the transaction length with the header length the branch taken
    in the boundary case (equal) is computed -- through `not` -- and must not
    be the refusing one."""
    n = 0
    for f in R.prog.all_functions():
        tlnames, triples = _txn_hdr_fields(f.node)
        hdr_locals = set()
        for a in walk_local(f.node):
            if isinstance(a, ast.Assign) and len(a.targets) == 1 and \
                    isinstance(a.targets[0], ast.Name) and _is_hdrlen(
                        a.value, triples):
                hdr_locals.add(a.targets[0].id)

        def hdr(e):
            return _is_hdrlen(e, triples) or (isinstance(e, ast.Name) and
                                              e.id in hdr_locals)

        for st in walk_local(f.node):
            if not isinstance(st, (ast.If, ast.While)):
                continue
            # value of the test in the boundary case, where it is decided
            # by the length comparison

            def at_equal(e, flip):
                if isinstance(e, ast.UnaryOp) and isinstance(e.op, ast.Not):
                    return at_equal(e.operand, not flip)
                if isinstance(e, ast.Compare) and len(e.ops) == 1:
                    l, r, op = e.left, e.comparators[0], e.ops[0]
                    # an ordering test of a plain value against the header
                    # length: the value is the transaction length
                    simple = (ast.Name, ast.Attribute)
                    if isinstance(op, (ast.Lt, ast.LtE, ast.Gt, ast.GtE)) \
                            and ((isinstance(l, simple) and hdr(r) and
                                  not hdr(l)) or
                                 (hdr(l) and isinstance(r, simple) and
                                  not hdr(r))):
                        v = isinstance(op, (ast.LtE, ast.GtE))
                        return (v != flip), e
                return None

            r = at_equal(st.test, False)
            if r is None:
                continue
            v, cmp_ = r
            body_rej, else_rej = _rejects(st.body), _rejects(st.orelse)
            if not body_rej and not else_rej:
                R.observe('%s: `%s` leads to no recognisable refusal; not '
                          'checked' % (f.short, ast.unparse(st.test)))
                continue
            n += 1
            R.instance('%s: %s' % (f.short, ast.unparse(st.test)))
            refused = (v and body_rej) or (not v and else_rej and
                                           not body_rej)
            if refused:
                R.violation(
                    (f.module.relpath, f.qualname,
                     ' '.join(ast.unparse(st.test).split()), st.lineno),
                    '%s refuses a transaction whose length equals its '
                    'header length; the other readers (and the writer) '
                    'accept a transaction without data records, so this '
                    'reader drops it -- and what the scan finds next'
                    % f.short, key='transaction length vs header length')
    R.require(n >= 6, 'expected the length tests of read_index, '
              '_sane/_check_sanity, FileIterator, checkTxn, fsrecover and '
              'fstest; found %d' % n)


# ------------------------------------------------------------------ C17.R8
@rule('C17.R8', 'the blob-aware copy loop restores a record WITHOUT a blob '
      'file only if the record is not a blob record or the source has no '
      'file for it', props=['C13'], min_instances=1)
def r8(R):
    f = R.prog.func('ZODB.blob.copyTransactionsFromTo')
    g, b, F = R.cfg(f, None, max_depth=0)
    seen = [0]
    # the local that holds the source's blob file name
    BF = None
    for a in walk_local(f.node):
        if isinstance(a, ast.Assign) and isinstance(
                a.targets[0], ast.Name) and isinstance(a.value, ast.Call) \
                and dotted(a.value.func) and \
                dotted(a.value.func)[-1] == 'loadBlob':
            BF = a.targets[0].id
    R.require(BF is not None, 'copyTransactionsFromTo no longer asks the '
              'source for the blob file (loadBlob)')

    def edge(node, st, lab, tgt):
        notblob, nofile, fname = st
        a = node.ast
        if node.kind == 'test' and lab in ('T', 'F'):
            for e, truth in implied_atoms(a, lab):
                if isinstance(e, ast.BoolOp) and isinstance(
                        e.op, ast.And) and not truth:
                    # some conjunct is false: fine if each of them, when
                    # false, says "not a blob record" (the test itself, or
                    # the record having no data at all)
                    def says_notblob(c):
                        if isinstance(c, ast.Call) and dotted(c.func) and \
                                dotted(c.func)[-1] == 'is_blob_record':
                            return True
                        if isinstance(c, ast.Compare) and len(c.ops) == 1 \
                                and isinstance(c.ops[0], ast.IsNot) and \
                                isinstance(c.comparators[0], ast.Constant) \
                                and c.comparators[0].value is None:
                            c = c.left
                        return isinstance(c, ast.Attribute) and \
                            c.attr == 'data'
                    if all(says_notblob(c) for c in e.values):
                        notblob = True
                if isinstance(e, ast.Name):
                    # a local bound once to the test's value
                    ds = [d for d in F.b.local_defs(f).get(e.id, [])
                          if isinstance(d, ast.AST)]
                    if len(ds) == 1:
                        e = ds[0]
                if isinstance(e, ast.Call) and dotted(e.func) and \
                        dotted(e.func)[-1] == 'is_blob_record':
                    notblob = not truth
                if isinstance(e, ast.Compare) and len(e.ops) == 1 and \
                        isinstance(e.left, ast.Name) and \
                        e.left.id == BF and isinstance(
                            e.comparators[0], ast.Constant) and \
                        e.comparators[0].value is None:
                    isnone = isinstance(e.ops[0], ast.Is) == truth
                    if fname == 'set' and isnone:
                        return PRUNE
                    if fname == 'none' and not isnone:
                        return PRUNE
        if node.kind == 'stmt' and isinstance(a, ast.Assign) and any(
                isinstance(t, ast.Name) and t.id == BF
                for t in a.targets):
            if lab in ('e', 'eb'):
                if isinstance(a.value, ast.Call) and dotted(
                        a.value.func) and dotted(a.value.func)[-1] == \
                        'loadBlob':
                    nofile = True
            elif isinstance(a.value, ast.Constant) and \
                    a.value.value is None:
                notblob, nofile, fname = False, False, 'none'
            else:
                fname = 'set'
        return (notblob, nofile, fname)

    def at(node, st):
        notblob, nofile, fname = st
        for op in F.ops(node):
            if op.kind == 'call' and op.path and op.path[-1] == 'restore':
                seen[0] += 1
                if not (notblob or nofile):
                    return Violation(
                        'restore() (no blob file) is reached for a record '
                        'that was not found to be a non-blob record and '
                        'whose blob file was not looked up and found '
                        'missing: blob files are keyed by (oid, tid of THIS '
                        'record), also for undo records, so the copy has '
                        'the record but loadBlob fails')
        return st

    vs, stats = explore(g, (False, False, 'none'), at=at, edge=edge)
    R.count(stats)
    R.instance('copyTransactionsFromTo: restore vs restoreBlob')
    R.require(seen[0] or vs, 'no restore() call in copyTransactionsFromTo')
    for v in vs:
        R.violation(v.node, v.message, g, v.path)


# ------------------------------------------------------------------ C17.R9
def _data_hdr_tloc_names(fnode):
    """Names bound to the transaction-position field by
    `oid, serial, prev, tloc, vlen, plen = unpack(<data header fmt>, h)`"""
    out = set()
    for a in walk_local(fnode):
        if isinstance(a, ast.Assign) and isinstance(
                a.targets[0], ast.Tuple) and len(a.targets[0].elts) == 6 \
                and isinstance(a.value, ast.Call) and dotted(a.value.func) \
                and dotted(a.value.func)[-1] == 'unpack' and a.value.args \
                and isinstance(a.value.args[0], ast.Constant) and str(
                    a.value.args[0].value).count('8s') >= 4 and isinstance(
                        a.targets[0].elts[3], ast.Name):
            out.add(a.targets[0].elts[3].id)
    for a in walk_local(fnode):
        if isinstance(a, ast.Assign) and isinstance(
                a.targets[0], ast.Name) and isinstance(a.value, ast.Call) \
                and len(a.value.args) == 1 and isinstance(
                    a.value.args[0], ast.Name) and \
                a.value.args[0].id in out and dotted(a.value.func) and \
                dotted(a.value.func)[-1].lower() == 'u64':
            out.add(a.targets[0].id)
    return out


def _mentions_tloc(e, names=()):
    for x in ast.walk(e):
        if isinstance(x, ast.Compare) and len(x.ops) == 1 and isinstance(
                x.ops[0], (ast.NotEq, ast.Eq)):
            for side in (x.left, x.comparators[0]):
                if (isinstance(side, ast.Attribute) and side.attr == 'tloc') \
                        or (isinstance(side, ast.Name) and side.id in names):
                    return True
    return False


@rule('C17.R9', 'every reader of data records refuses a record that does not '
      'belong to the transaction it is read in (wrong transaction position '
      '/ longer than the transaction): it raises or rejects, it never just '
      'stops reading', min_instances=5)
def r9(R):
    """Sibling agreement (F29) between read_index, _check_sanity, the
    record iterator, the packer's checkData and fstest.  Ending the loop
    instead (break / continue / fall through) hands the caller a transaction
    without its remaining records, which a copy or the recovery tool then
    commits with normal status."""
    n = 0
    for f in R.prog.all_functions():
        tnames = _data_hdr_tloc_names(f.node)
        for st in walk_local(f.node):
            if not (isinstance(st, ast.If) and _mentions_tloc(st.test,
                                                              tnames)):
                continue
            n += 1
            R.instance('%s: if %s' % (f.short, ast.unparse(st.test)[:70]))
            def refuses_(block):
                if not block:
                    return False
                last_ = block[-1]
                return isinstance(last_, ast.Raise) or (
                    isinstance(last_, ast.Return) and isinstance(
                        last_.value, ast.Constant) and
                    not last_.value.value) or (
                    isinstance(last_, ast.Expr) and isinstance(
                        last_.value, ast.Call) and dotted(
                            last_.value.func) and
                    dotted(last_.value.func)[-1] in ('panic', 'fail',
                                                     'error'))
            # whichever way the test is written, one of its two blocks is
            # the one for "does not fit", and it must refuse
            last = st.body[-1]
            refuses = refuses_(st.body) or refuses_(st.orelse)
            if not refuses:
                R.violation(
                    (f.module.relpath, f.qualname,
                     ' '.join(ast.unparse(st.test).split()), st.lineno),
                    '%s does not refuse a data record that does not fit its '
                    'transaction (the branch ends with `%s`): the caller '
                    'sees a transaction that simply has fewer records, and '
                    'a copy / the recovery tool commits it'
                    % (f.short, ast.unparse(last)[:40]),
                    key='record does not fit its transaction')
    R.require(n >= 5, 'expected the record checks of read_index, '
              '_check_sanity, the record iterator, checkData and fstest; '
              'found %d' % n)


# ------------------------------------------------------------------ C17.R10
@rule('C17.R10', 'while a transaction is iterated, a backpointer chain that '
      'ends in an un-creation record is followed without failing: every '
      'chain walk made on behalf of the record iterator passes fail=False',
      props=['C04'], min_instances=1)
def r10(R):
    cls = R.prog.cls(TRI)
    f = R.method(cls, '__next__')
    g, b, F = R.cfg(f, cls, max_depth=4)
    n = 0
    seenf = set()
    for node in (g.nodes[i] for i in g.reachable()):
        fr = node.frame
        if fr is None or fr.func.name != '_loadBack_impl' or fr.id in seenf:
            continue
        seenf.add(fr.id)
        n += 1
        bd = fr.bindings.get('fail')
        chain = []
        x = fr
        while x is not None:
            chain.append(x.func.name)
            x = x.parent
        R.instance('chain walk via ' + ' <- '.join(chain))
        ok = False
        if bd is not None and bd[2] != 'default' and bd[0] is not None:
            e, pf = bd[0], bd[1]
            # resolve through pass-through parameters of the callers
            depth = 0
            while isinstance(e, ast.Name) and pf is not None and \
                    e.id in pf.bindings and depth < 4:
                b2 = pf.bindings[e.id]
                if b2[0] is None:
                    break
                e, pf, depth = b2[0], b2[1], depth + 1
            ok = isinstance(e, ast.Constant) and e.value in (False, 0)
        if not ok:
            call = fr.call_stmt if hasattr(fr, 'call_stmt') else None
            R.violation(
                (f.module.relpath, f.qualname,
                 'chain walk via ' + ' <- '.join(chain), None),
                'the record iterator reaches _loadBack_impl (%s) with '
                'fail left at True: for a record whose backpointer chain '
                'ends in an un-creation record (create, undo, redo, undo) '
                'the walk raises POSKeyError, so iterator() and '
                'copyTransactionsFrom stop in the middle of the history '
                'instead of yielding the record with data None'
                % ' <- '.join(chain), key='chain walk that fails on '
                'un-creation: ' + ' <- '.join(chain))
    R.require(n >= 1, 'the record iterator no longer walks backpointer '
              'chains')


# ------------------------------------------------------------------ C17.R11
@rule('C17.R11', 'the walk along a backpointer chain terminates on a '
      'damaged file: each step is checked to move strictly backwards',
      min_instances=1)
def r11(R):
    cls = R.prog.cls('ZODB.FileStorage.format.FileStorageFormatter')
    f = R.method(cls, '_loadBack_impl')
    g, b, F = R.cfg(f, cls, max_depth=0)
    R.instance('FileStorageFormatter._loadBack_impl')
    ps = [p for p in f.params if p != 'self']
    cur = ps[1]
    seen = [0]

    def edge(node, st, lab, tgt):
        if node.kind == 'loophead':
            return False
        if node.kind == 'test' and lab in ('T', 'F'):
            for e, truth in implied_atoms(node.ast, lab):
                for l, op, r in cmp_sides(e):
                    if isinstance(l, ast.Attribute) and l.attr == 'back' \
                            and isinstance(r, ast.Name) and r.id == cur:
                        earlier = (op is ast.Lt and truth) or (
                            op is ast.GtE and not truth)
                        if earlier:
                            return True
        return st

    def at(node, st):
        a = node.ast
        if node.kind == 'stmt' and isinstance(a, ast.Assign) and any(
                isinstance(t, ast.Name) and t.id == cur for t in a.targets) \
                and isinstance(a.value, ast.Attribute) and \
                a.value.attr == 'back':
            seen[0] += 1
            if not st:
                return Violation(
                    'the chain walk steps to `%s` without having found it '
                    'EARLIER in the file than the record it came from: on a '
                    'damaged file (a backpointer that points at its own '
                    'record, or forwards into a cycle) the walk never ends, '
                    'and with it fsrecover, the storage iterator and '
                    'copyTransactionsFrom' % ast.unparse(a.value))
        return st

    vs, stats = explore(g, False, at=at, edge=edge)
    R.count(stats)
    R.require(seen[0] or vs, '_loadBack_impl no longer steps along the '
              'chain')
    for v in vs:
        R.violation(v.node, v.message, g, v.path)


# ------------------------------------------------------------------ C17.R12
@rule('C17.R12', 'every transaction record a storage iterator yields '
      'provides what a destination\'s tpc_begin reads from its transaction '
      'argument (sibling agreement between record classes and tpc_begin)',
      min_instances=2)
def r12(R):
    from ..twopc import BS
    bs = R.prog.cls(BS)
    beg = R.method(bs, 'tpc_begin')
    tparam = [p for p in beg.params if p != 'self'][0]
    # reads that are allowed to fail: inside a `try` that catches
    # AttributeError (the fallback's own reads count)
    tolerant = {id(x) for t in walk_local(beg.node)
                if isinstance(t, ast.Try) and any(
                    h.type is None or 'AttributeError' in ast.unparse(h.type)
                    or 'Exception' in ast.unparse(h.type)
                    for h in t.handlers)
                for s_ in t.body for x in ast.walk(s_)}
    reads = sorted({x.attr for x in walk_local(beg.node)
                    if isinstance(x, ast.Attribute) and isinstance(
                        x.value, ast.Name) and x.value.id == tparam and
                    isinstance(x.ctx, ast.Load) and id(x) not in tolerant})
    R.require(reads, 'BaseStorage.tpc_begin reads nothing from its '
              'transaction')
    n = 0
    for c in R.prog.all_classes():
        if c.name not in ('TransactionRecord', '_TransactionRecord') or \
                c.module.name.endswith('interfaces'):
            continue
        n += 1
        have = set()
        for k in R.prog.mro(c):
            if not hasattr(k, 'methods'):
                continue
            have |= set(k.methods) | set(getattr(k, 'attrs', {}))
            have |= set(R.prog.self_attr_facts(k))
        R.instance('%s' % c.qualname, provides=sorted(
            a for a in reads if a in have))
        missing = [a for a in reads if a not in have]
        if missing:
            R.violation(
                (c.module.relpath, c.qualname, 'attributes read by '
                 'tpc_begin', c.node.lineno),
                'the records yielded by this storage\'s iterator lack %s, '
                'which BaseStorage.tpc_begin reads from the transaction it '
                'is given: copying this storage into another fails at the '
                'first transaction (AttributeError)' % ', '.join(missing),
                key='record class lacks what tpc_begin reads')
    R.require(n >= 2, 'transaction record classes not found')


# ------------------------------------------------------------------ C17.R13
HANDS_OVER = ('restore', 'restoreBlob', 'store', 'storeBlob')


@rule('C17.R13', 'every record a copy loop reads from the source transaction '
      'is handed to the destination: no iteration of the record loop '
      'completes without a restore/store call', props=['C01'],
      min_instances=3)
def r13(R):
    n = 0
    for q in COPIERS:
        f = R.prog.func(q)
        g, b, F = R.cfg(f, None, max_depth=0)
        for nid in sorted(g.reachable()):
            head = g.nodes[nid]
            if head.kind != 'for':
                continue
            loop = head.ast
            if not any(isinstance(c, ast.Call) and isinstance(
                    c.func, ast.Attribute) and c.func.attr in HANDS_OVER
                    for s_ in loop.body for c in ast.walk(s_)):
                continue
            # only the innermost loop around the hand-over (the record loop)
            if any(isinstance(l, ast.For) and l is not loop and any(
                    isinstance(c, ast.Call) and isinstance(
                        c.func, ast.Attribute) and c.func.attr in HANDS_OVER
                    for c in ast.walk(l))
                    for s_ in loop.body for l in ast.walk(s_)):
                continue
            n += 1
            R.instance('%s: for %s in %s' % (
                f.short, ast.unparse(loop.target), ast.unparse(loop.iter)))

            def edge(node, st, lab, tgt, head=head, F=F):
                if node.id == head.id:
                    if st != 'start' or lab != 'T':
                        return PRUNE
                    return False
                if lab in ('e', 'eb'):
                    return PRUNE          # the copy of the transaction fails
                if node.kind == 'break':
                    return PRUNE
                for op in F.ops(node):
                    if op.kind == 'call' and op.path and \
                            op.path[-1] in HANDS_OVER:
                        return True
                return st

            def at(node, st, head=head, f=f):
                if node.id == head.id and st != 'start':
                    if st is False:
                        return Violation(
                            '%s goes on to the next record of the source '
                            'transaction without having handed this one to '
                            'the destination: the copy silently lacks the '
                            'record (an un-creation record skipped leaves '
                            'the object alive in the copy)' % f.short)
                    return PRUNE
                if node.id in (g.exit_return, g.exit_raise):
                    return PRUNE
                return st

            vs, stats = explore(g, 'start', at=at, edge=edge, start=head.id)
            R.count(stats)
            for v in vs:
                # report the statement that skipped: last node of the path
                # before the loop head
                last = g.nodes[v.path[-2]] if len(v.path) > 1 else v.node
                R.violation(last, v.message, g, v.path)
    R.require(n >= 3, 'only %d record loops found' % n)


# ------------------------------------------------------------------ C17.R14
@rule('C17.R14', 'a copy loop that fails leaves the destination outside a '
      'transaction: every raising exit taken while a destination '
      'transaction is open (begun, not yet voted) passes tpc_abort',
      props=['C05'], min_instances=2)
def r14(R):
    n = 0
    # (the library helpers; the recovery tool is a process of its own that
    # ends with the exception -- its loop is C17.R5's)
    for q in COPIERS:
        if q.startswith('ZODB.fsrecover.'):
            continue
        f = R.prog.func(q)
        g, b, F = R.cfg(f, None, max_depth=0)
        begins = [0]

        def edge(node, st, lab, tgt, F=F, begins=begins):
            # st: 'idle' | 'open' | 'voted'
            hit = None
            for op in F.ops(node):
                if op.kind == 'call' and op.path:
                    if op.path[-1] in ('tpc_begin', 'tpc_vote', 'tpc_finish',
                                       'tpc_abort'):
                        hit = op.path[-1]
            if hit == 'tpc_begin':
                begins[0] += 1
                # (a tpc_begin that raises may have taken the commit lock
                # already: a file storage rejects over-long metadata after
                # it has; tpc_abort is harmless when it has not)
                return 'open'
            if hit == 'tpc_vote':
                # a failing vote leaves the transaction open
                return st if lab in ('e', 'eb') else 'voted'
            if hit in ('tpc_finish', 'tpc_abort'):
                return 'idle'
            return st

        def at(node, st, f=f):
            if node.id == g.exit_raise and st == 'open':
                return Violation(
                    '%s can fail with the destination transaction it began '
                    'still open: the destination keeps its commit lock, and '
                    'the caller, who only gets the exception, cannot abort '
                    'it -- every later tpc_begin on that storage blocks' %
                    f.short)
            return st

        vs, stats = explore(g, 'idle', at=at, edge=edge)
        R.count(stats)
        if begins[0]:
            n += 1
            R.instance('%s' % f.short)
        for v in vs[:1]:
            R.violation((f.module.relpath, f.qualname,
                         'destination transaction left open on failure'),
                        v.message, g, v.path)
    R.require(n >= 2, 'copy loops that begin destination transactions: %d' % n)


# ------------------------------------------------------------------ C17.R15
FITER = 'ZODB.FileStorage.FileStorage.FileIterator'
ORD = {ast.Lt: {'lt'}, ast.LtE: {'lt', 'eq'}, ast.Gt: {'gt'},
       ast.GtE: {'gt', 'eq'}, ast.Eq: {'eq'}, ast.NotEq: {'lt', 'gt'}}


@rule('C17.R15', 'an iterator asked to start at an id starts at the first '
      'transaction whose id is not below it: each scan sets the start '
      'position AT a transaction only when its id is known not to be below '
      'the requested one, and PAST a transaction only when it is known to '
      'be below', props=['C04'], min_instances=2)
def r15(R):
    cls = R.prog.cls(FITER)
    n = 0
    for meth in ('_scan_forward', '_scan_backward'):
        f = R.method(cls, meth)
        g, b, F = R.cfg(f, cls, max_depth=0)
        ps = [p for p in f.params if p != 'self']
        start = ps[1]
        ALL = frozenset({'lt', 'eq', 'gt'})
        sets = [0]

        def edge(node, st, lab, tgt, F=F, start=start):
            possible, hdr, at_pos = st
            if node.kind == 'test' and lab in ('T', 'F'):
                for e, truth in implied_atoms(node.ast, lab):
                    for l, op, r in cmp_sides(e):
                        if isinstance(l, ast.Attribute) and l.attr == 'tid' \
                                and isinstance(l.value, ast.Name) and \
                                l.value.id == hdr and isinstance(
                                    r, ast.Name) and r.id == start and \
                                op in ORD:
                            s_ = ORD[op]
                            possible = frozenset(
                                possible & s_ if truth else possible - s_)
                            break
            if lab in ('e', 'eb'):
                return (possible, hdr, at_pos)
            for op in F.ops(node):
                if op.kind == 'store' and op.path and \
                        op.path[0] == '%local':
                    v = store_value(op)
                    if isinstance(v, ast.Call) and isinstance(
                            v.func, ast.Attribute) and \
                            v.func.attr == '_read_txn_header' and v.args \
                            and isinstance(v.args[0], ast.Name):
                        hdr, at_pos, possible = op.path[1], v.args[0].id, ALL
                    elif op.path[1] == at_pos:
                        at_pos = None       # the local moved on
                elif op.kind == 'aug' and op.path and \
                        op.path[0] == '%local' and op.path[1] == at_pos:
                    at_pos = None
            return (possible, hdr, at_pos)

        def at(node, st, F=F, meth=meth, sets=sets):
            possible, hdr, at_pos = st
            for op in F.ops(node):
                if op.kind == 'store' and path_is(op.path, ('self', '_pos')):
                    sets[0] += 1
                    v = store_value(op)
                    if hdr is None or at_pos is None:
                        continue
                    if isinstance(v, ast.Name) and v.id == at_pos:
                        if 'lt' in possible:
                            return Violation(
                                '%s starts the iteration AT a transaction '
                                'whose id may be below the requested start: '
                                'iterator(start) yields a transaction older '
                                'than `start` (an incremental copy from '
                                'last+1 stores the last transaction twice)'
                                % meth)
                    elif isinstance(v, ast.BinOp) and isinstance(
                            v.op, ast.Add) and any(
                                isinstance(x, ast.Name) and x.id == at_pos
                                for x in ast.walk(v)):
                        if possible - {'lt'}:
                            return Violation(
                                '%s starts the iteration PAST a transaction '
                                'whose id may be the requested start or '
                                'later: iterator(start) skips a transaction '
                                'it was asked for' % meth)
            return st

        vs, stats = explore(g, (ALL, None, None), at=at, edge=edge)
        R.count(stats)
        n += 1
        R.instance('FileIterator.%s' % meth, start_position_stores=sets[0])
        R.require(sets[0] or vs, '%s no longer sets the start position' %
                  meth)
        for v in vs:
            R.violation(v.node, v.message, g, v.path)
    R.require(n >= 2, 'scan functions vanished')


# ------------------------------------------------------------------ C17.R16
@rule('C17.R16', 'the iterator of a file storage opened with a stop bound '
      '(time travel) is bounded by it: iterator() passes a bound derived '
      'from the storage\'s own stop to the file iterator',
      props=['C09', 'C15'], min_instances=1)
def r16(R):
    cls = R.prog.cls(FS)
    init = R.method(cls, '__init__')
    if 'stop' not in init.params:
        R.observe('FileStorage has no stop bound any more')
        return
    # where __init__ keeps the bound
    kept = set()
    for s in walk_local(init.node):
        if isinstance(s, ast.Assign) and isinstance(s.value, ast.Name) and \
                s.value.id == 'stop':
            for t in s.targets:
                if isinstance(t, ast.Attribute) and isinstance(
                        t.value, ast.Name) and t.value.id == 'self':
                    kept.add(t.attr)
    f = R.method(cls, 'iterator')
    g, b, F = R.cfg(f, cls, max_depth=0)
    R.instance('FileStorage.iterator', stop_kept_in=sorted(kept))
    n = 0
    for nid in g.reachable():
        for op in F.ops(g.nodes[nid]):
            if op.kind == 'call' and op.path and \
                    op.path[-1].split('.')[-1] == 'FileIterator':
                n += 1
                a = op.ast.args
                bound = a[2] if len(a) > 2 else None
                for kw in op.ast.keywords:
                    if kw.arg == 'stop':
                        bound = kw.value
                pv = provenance(bound, g.nodes[nid].frame, F) \
                    if bound is not None else set()
                if not any(k == 'path' and len(v) == 2 and v[0] == 'self'
                           and v[1] in kept for k, v in pv):
                    R.violation(
                        g.nodes[nid],
                        'FileStorage.iterator hands the file iterator a '
                        'bound that does not depend on the storage\'s own '
                        'stop: a time-travel storage (read_only, stop=tid) '
                        'ends before `stop`, its iterator -- and a '
                        'copyTransactionsFrom of it -- goes on to the end '
                        'of the file',
                        key='iterator not bounded by the storage stop')
    R.require(n >= 1, 'FileStorage.iterator no longer builds a FileIterator')


# ------------------------------------------------------------------ C17.R17
@rule('C17.R17', 'the transaction iterator takes a header cut short by the '
      'end of the file for the unfinished transaction at the end (as the '
      'open-time scan does, and as it does itself for data cut short): it '
      'passes the read error on only for a complete header',
      props=['C01', 'C09'], min_instances=1)
def r17(R):
    cls = R.prog.cls(FITER)
    f = R.method(cls, '__next__')
    g, b, F = R.cfg(f, cls, max_depth=0)
    # the handler of the header read
    tries = [t for t in walk_local(f.node) if isinstance(t, ast.Try) and any(
        isinstance(c, ast.Call) and isinstance(c.func, ast.Attribute) and
        c.func.attr == '_read_txn_header' for s_ in t.body
        for c in ast.walk(s_))]
    R.require(tries, 'FileIterator.__next__ no longer guards the header read')
    n = 0
    for t in tries:
        for h in t.handlers:
            if h.type is None or 'CorruptedDataError' not in ast.unparse(
                    h.type):
                continue
            n += 1
            R.instance('FileIterator.__next__: except %s' % ast.unparse(
                h.type))
            err = h.name

            # walk the handler: a `raise` must be dominated by a test that
            # the buffer is complete
            def complete_known(test, truth):
                for e, tr in implied_atoms(test, 'T' if truth else 'F'):
                    for l, op, r in cmp_sides(e):
                        if isinstance(l, ast.Call) and isinstance(
                                l.func, ast.Name) and l.func.id == 'len' \
                                and l.args and isinstance(
                                    l.args[0], ast.Attribute) and \
                                l.args[0].attr == 'buf' and (
                                    (isinstance(r, ast.Name) and
                                     r.id == 'TRANS_HDR_LEN') or
                                    (isinstance(r, ast.Constant) and
                                     r.value == 23)):
                            short = op in (ast.Lt, ast.NotEq, ast.LtE)
                            if short != tr or (op in (ast.GtE, ast.Eq,
                                                      ast.Gt) and tr):
                                return True
                return False

            def walk(block, known):
                for i, s_ in enumerate(block):
                    if isinstance(s_, ast.Raise) and not known:
                        return s_
                    if isinstance(s_, ast.If):
                        kt = known or complete_known(s_.test, True)
                        kf = known or complete_known(s_.test, False)
                        r = walk(s_.body, kt)
                        if r is not None:
                            return r
                        r = walk(s_.orelse, kf)
                        if r is not None:
                            return r
                        # a branch that cannot fall through teaches the rest
                        from ..flow import _cannot_fall_through
                        if _cannot_fall_through(s_.body):
                            known = kf
                        elif s_.orelse and _cannot_fall_through(s_.orelse):
                            known = kt
                return None

            bad = walk(h.body, False)
            if bad is not None:
                R.violation(
                    (f.module.relpath, f.qualname,
                     'header read error passed on', bad.lineno),
                    'FileIterator.__next__ passes the error of the header '
                    'read on although the header may merely be cut short by '
                    'the end of the file: iterating (or copying) a storage '
                    'whose file ends within the first 23 bytes of an '
                    'unfinished transaction raises CorruptedDataError, '
                    'while a longer torn tail just ends the iteration and '
                    'the open-time scan accepts both',
                    key='short header at the end of the file not taken for '
                        'the end')
    R.require(n >= 1, 'handler of the header read not found')


# ----------------------------------------------------------------- C17.R18
@rule('C17.R18', 'restore() survives a hint that leads to an un-creation: on '
      'its paths (with _data_find) a backpointer is followed only when it '
      'is known to be non-zero, or inside a handler for POSKeyError -- '
      'following a zero backpointer raises (the object does not exist)',
      min_instances=1)
def r18(R):
    cls = R.prog.cls(FS)
    f = R.method(cls, 'restore')
    g, b, F = R.cfg(f, cls, max_depth=2,
                    inline=lambda t, fr: t.func.name in ('_data_find',))
    FOLLOW = ('_loadBack_impl', '_loadBack', '_loadBackTxn', '_loadBackPOS')
    seen = [0]
    # calls lexically inside `try: ... except (POS)KeyError`
    protected = set()
    for fn in (f, R.method(cls, '_data_find')):
        for t in walk_local(fn.node):
            if isinstance(t, ast.Try) and any(
                    h.type is None or any(
                        isinstance(x, (ast.Name, ast.Attribute)) and (
                            x.id if isinstance(x, ast.Name) else x.attr) in (
                                'POSKeyError', 'KeyError', 'POSError',
                                'Exception', 'BaseException')
                        for x in ast.walk(h.type)) for h in t.handlers):
                protected |= {id(x) for s_ in t.body for x in ast.walk(s_)}

    def back_expr(e):
        return isinstance(e, ast.Attribute) and e.attr == 'back'

    def edge(node, st, lab, tgt):
        if node.kind == 'test' and lab in ('T', 'F'):
            for e, truth in implied_atoms(node.ast, lab):
                if back_expr(e) and truth:
                    st = st | {ast.unparse(e)}
                if isinstance(e, ast.Compare) and len(e.ops) == 1 and \
                        back_expr(e.left) and isinstance(
                            e.comparators[0], ast.Constant) and \
                        e.comparators[0].value == 0 and \
                        isinstance(e.ops[0], (ast.Eq, ast.NotEq)) and \
                        isinstance(e.ops[0], ast.NotEq) == truth:
                    st = st | {ast.unparse(e.left)}
        return st

    def at(node, st):
        for op in F.ops(node):
            if op.kind == 'call' and op.path is not None and \
                    op.path[-1] in FOLLOW and isinstance(op.ast, ast.Call) \
                    and len(op.ast.args) >= 2 and back_expr(op.ast.args[1]):
                seen[0] += 1
                if id(op.ast) in protected:
                    continue
                # `X.back and self._loadBack_impl(oid, X.back, ...)`: the
                # call is not evaluated for a zero backpointer
                want = ast.unparse(op.ast.args[1])
                short = False
                for bo in ast.walk(node.ast):
                    if isinstance(bo, ast.BoolOp) and isinstance(
                            bo.op, ast.And):
                        for i, v in enumerate(bo.values):
                            if any(x is op.ast for x in ast.walk(v)) and any(
                                    ast.unparse(u) == want
                                    for u in bo.values[:i]):
                                short = True
                if short:
                    continue
                if ast.unparse(op.ast.args[1]) not in st:
                    return Violation(
                        'restore() (through %s) follows the backpointer '
                        '`%s` without knowing that it is non-zero: for the '
                        'record of an un-creation it is zero and following '
                        'it raises POSKeyError -- copying an undamaged '
                        'storage whose history has a backpointer to an '
                        'un-creation (create, undo, store again, undo) '
                        'stops after a prefix; fsrecover swallows the error '
                        'and drops the transactions' % (
                            node.frame.func.name,
                            ast.unparse(op.ast.args[1])))
        return st

    vs, stats = explore(g, frozenset(), at=at, edge=edge)
    R.count(stats)
    R.instance('FileStorage.restore with _data_find',
               backpointers_followed=seen[0])
    for v in vs[:1]:
        R.violation(v.node, v.message, g, v.path,
                    key='zero backpointer followed on a restore path')


# ----------------------------------------------------------------- C17.R19
@rule('C17.R19', 'the copy loops make no assumption about the data of a '
      'record beyond handing it on: the record of an un-creation has None '
      '(no len(), no slicing, no decoding of it unguarded)',
      min_instances=3)
def r19(R):
    fns = [R.prog.func('ZODB.BaseStorage.copy'),
           R.prog.func('ZODB.blob.copyTransactionsFromTo'),
           R.prog.func('ZODB.fsrecover.recover')]
    for f in fns:
        R.instance('%s' % f.qualname)
        # record variables: targets of loops in the function
        recs = {l.target.id for l in walk_local(f.node)
                if isinstance(l, ast.For) and isinstance(l.target, ast.Name)}

        def is_data(e):
            return isinstance(e, ast.Attribute) and e.attr == 'data' and \
                isinstance(e.value, ast.Name) and e.value.id in recs

        guarded = set()
        for t in walk_local(f.node):
            if isinstance(t, (ast.If, ast.IfExp)) and any(
                    is_data(x) for x in ast.walk(t.test)):
                body = t.body if isinstance(t.body, list) else [t.body]
                other = t.orelse if isinstance(t.orelse, list) else [t.orelse]
                guarded |= {id(x) for s_ in body + other
                            for x in ast.walk(s_)}
        for c in walk_local(f.node):
            bad = None
            if isinstance(c, ast.Call) and isinstance(c.func, ast.Name) and \
                    c.func.id == 'len' and c.args and is_data(c.args[0]):
                bad = c
            if isinstance(c, ast.Subscript) and is_data(c.value):
                bad = c
            if isinstance(c, ast.Call) and isinstance(
                    c.func, ast.Attribute) and is_data(c.func.value):
                bad = c                      # r.data.<method>()
            if bad is not None and id(bad) not in guarded:
                R.violation(
                    (f.module.relpath, f.qualname,
                     ' '.join(ast.unparse(bad).split()), bad.lineno),
                    '%s evaluates `%s` for every record: the record of an '
                    'un-creation (the undo of a creation, a deleteObject) '
                    'has no data -- the copy fails there with TypeError '
                    'and stops after a prefix of the source' % (
                        f.qualname, ' '.join(ast.unparse(bad).split())),
                    key='record data assumed to be bytes')
