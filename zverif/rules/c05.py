"""C05 -- an unfinished transaction leaves no trace and blocks no one."""

import ast

from ..engine import rule
from ..flow import PRUNE, Violation, explore, is_none_const, path_ends, \
    path_is, raising_node, store_value
from ..locks import POOL_WRITE, held_locks, step_held
from ..model import dotted, walk_local
from ..twopc import BLOBSTORAGE, DS, FS, MS, STORAGES, commit_lock_ops, \
    identity_guard


def owner_store(F, node):
    """-> True / False / None: node sets self._transaction to a transaction /
    clears it / does not touch it."""
    r = None
    for op in F.ops(node):
        if op.kind == 'store' and path_is(op.path, ('self', '_transaction')):
            v = store_value(op)
            r = not (v is not None and is_none_const(v))
    return r


def lock_after(F, node, level):
    """Commit-lock level after the lock operations of `node`; a Violation
    for a double acquire / release of a free lock."""
    for kind, op in commit_lock_ops(F, node):
        if kind == 'acq':
            if level == 1:
                return Violation('commit lock acquired while already held '
                                 '(self-deadlock)')
            level = 1
        else:
            if level == 0:
                return Violation('commit lock released while not held')
            level = 0
    return level


# --------------------------------------------------------------- tpc_begin

def check_begin(R, cls, g, F, name):
    txn = [p for p in g.root.func.params if p != 'self'][:1]

    def reads_txn_metadata(node):
        """attribute loads on the caller's transaction object: user,
        description and above all extension_bytes are computed (pickled)
        lazily and can raise"""
        if node.ast is None or node.kind not in ('stmt', 'test', 'return'):
            return None
        for x in ast.walk(node.ast):
            if isinstance(x, ast.Attribute) and isinstance(
                    x.ctx, ast.Load) and isinstance(x.value, ast.Name):
                p = F.canon(x.value, node.frame)
                if txn and p == ('%param', txn[0]):
                    return x.attr
        return None

    def edge(node, st, lab, tgt):
        level, owner = st
        if level == 1 and not owner and lab != 'e':
            a = reads_txn_metadata(node)
            if a is not None:
                return Violation(
                    'tpc_begin reads `%s.%s` (transaction metadata is '
                    'computed lazily and can raise, e.g. unpicklable '
                    'extended info) after acquiring the commit lock but '
                    'before registering the transaction as owner: the '
                    'caller\'s tpc_abort will not match and the lock is '
                    'never released' % (txn[0], a))
        level = lock_after(F, node, level)
        if isinstance(level, Violation):
            return level
        if lab != 'e':
            o = owner_store(F, node)
            if o is True and level == 0:
                return Violation('the owner field is set to the caller\'s '
                                 'transaction before the commit lock is held')
            if o is not None:
                owner = o
        return (level, owner)

    def at(node, st):
        level, owner = st
        if node.id == g.exit_return and not (level == 1 and owner):
            return Violation('tpc_begin returns without holding the commit '
                             'lock for the registered transaction '
                             '(lock=%d, owner registered=%s)' % (level, owner))
        if node.id == g.exit_raise and level == 1 and not owner:
            return Violation(
                'tpc_begin can fail after acquiring the commit lock but '
                'before registering the caller\'s transaction as owner: the '
                'caller\'s tpc_abort will not match and the lock is never '
                'released')
        return st

    vs, stats = explore(g, (0, False), at=at, edge=edge)
    R.count(stats)
    for v in vs:
        n = raising_node(g, v.path) if v.node.id == g.exit_raise else v.node
        R.violation(n, v.message, g, v.path, instance=name)


# ------------------------------------------------- tpc_abort / tpc_finish

# A raising operation after which the class does not promise the release
# (observation O4 of DESIGN.md: outside "before the finish").  Each entry
# names a class, a method and the shape of the raising call.
LEAK_EXCEPTIONS = {
    (DS, 'tpc_abort'): ('delegate',
                        'the changes storage\'s own tpc_abort failed (O4)'),
    (DS, 'tpc_finish'): ('delegate',
                         'the changes storage\'s tpc_finish failed (O4)'),
    (MS, 'tpc_finish'): ('callback',
                         'the caller\'s callback raised inside finish (O4)'),
}


def raising_shape(F, node):
    """'delegate' if the node's fallible call goes to self.changes/self.base,
    'callback' if it calls a parameter; else None."""
    for op in F.ops(node):
        if op.kind == 'call' and op.path is not None:
            if op.path[0] == 'self' and len(op.path) >= 3 and \
                    op.path[1] in ('changes', 'base'):
                return 'delegate'
            if op.path[0] == '%param' and len(op.path) == 2:
                return 'callback'
    return None


def has_effect(F, node):
    """Does the node change storage state or release a lock?  (Used on the
    foreign-transaction branch, where nothing may happen.)"""
    if node.kind in ('rel', 'acq') and node.info.get('with'):
        return False        # leaving / entering the `with self._lock` region
    if any(fr.via == 'with' for fr in node.frame.chain()):
        return False        # enter/exit protocol of an inlined context manager
    for op in F.ops(node):
        if op.kind in ('store', 'aug', 'setitem', 'augitem', 'del',
                       'delitem') and op.path is not None and \
                op.path[0] == 'self':
            return True
        if op.kind == 'call':
            if op.inlined:
                continue     # its body is in the graph
            if op.path is not None and len(op.path) >= 2 and \
                    op.path[-1] in ('acquire', 'release') and \
                    op.path[-2] in ('_lock', '_cond'):
                continue     # taking / leaving the storage lock
            if op.path is None:
                return True
            if op.path[0] == 'self' and len(op.path) >= 2:
                return True
            if op.path[0].startswith('@os') or op.path[0].startswith(
                    '@shutil'):
                return True
    return False


def check_end(R, cls, g, F, name, meth, must_raise_foreign):
    """tpc_abort / tpc_finish.  State: (lock level, matched) with matched in
    {None: guard not yet evaluated, True, False}."""
    exc = LEAK_EXCEPTIONS.get((cls.qualname, meth))
    guards = [0]

    def edge(node, st, lab, tgt):
        level, matched = st
        same = identity_guard(node, F)
        if same is not None and lab in ('T', 'F'):
            guards[0] += 1
            matched = (lab == same)
            return (level, matched)
        if matched is False:
            if has_effect(F, node):
                return Violation('%s has an effect although the caller\'s '
                                 'transaction is not the one being '
                                 'committed' % meth)
            return st
        if matched is None and has_effect(F, node) and node.kind != 'precond':
            return Violation('%s has an effect before the transaction-'
                             'identity check' % meth)
        level = lock_after(F, node, level)
        if isinstance(level, Violation):
            return level
        return (level, matched)

    def at(node, st):
        level, matched = st
        if node.id == g.exit_return:
            if matched is True and level != 0:
                return Violation('%s returns normally with the commit lock '
                                 'still held' % meth)
            if matched is False and must_raise_foreign:
                return Violation('%s returns normally for a transaction '
                                 'that is not being committed' % meth)
            if matched is None:
                return Violation('%s can return without having compared the '
                                 'transaction' % meth)
        if node.id == g.exit_raise and matched is True and level != 0:
            return Violation('%s can leave through an exception with the '
                             'commit lock still held: every later commit '
                             'blocks for ever' % meth)
        return st

    vs, stats = explore(g, (1, None), at=at, edge=edge)
    R.count(stats)
    R.require(guards[0] > 0 or vs,
              '%s.%s: no transaction-identity guard recognised' % (
                  cls.name, meth))
    for v in vs:
        n = v.node
        if v.node.id == g.exit_raise:
            n = raising_node(g, v.path)
            if exc is not None and raising_shape(F, n) == exc[0]:
                R.named_exception('%s.%s' % (cls.name, meth), exc[1])
                R.observe('O4: %s.%s keeps the commit lock when `%s` raises '
                          '(%s)' % (cls.name, meth, n.text(60), exc[1]))
                continue
        R.violation(n, v.message, g, v.path, instance=name)


@rule('C05.R1', 'commit-lock typestate of tpc_begin / tpc_abort / tpc_finish',
      props=['C03'], min_instances=9)
def r1(R):
    for q in STORAGES:
        cls = R.prog.cls(q)
        for meth in ('tpc_begin', 'tpc_abort', 'tpc_finish'):
            f = R.method(cls, meth)
            g, b, F = R.cfg(f, cls)
            name = '%s.%s' % (cls.name, meth)
            R.instance(name, defined_in=f.qualname,
                       cfg_nodes=len(g.reachable()))
            if meth == 'tpc_begin':
                check_begin(R, cls, g, F, name)
            else:
                check_end(R, cls, g, F, name, meth,
                          must_raise_foreign=(meth == 'tpc_finish'))


# ----------------------------------------------------------------- C05.R2

def const_int(e, value):
    return isinstance(e, ast.Constant) and e.value == value and \
        not isinstance(e.value, bool)


@rule('C05.R2', 'FileStorage abort undoes the vote: truncate to the committed '
      'end, then drop reader buffers, reset, clear staging',
      props=['C01', 'C02', 'C04'],
      min_instances=1)
def r2(R):
    cls = R.prog.cls(FS)
    f = R.method(cls, 'tpc_abort')
    g, b, F = R.cfg(f, cls)
    R.instance('FileStorage.tpc_abort', defined_in=f.qualname,
               cfg_nodes=len(g.reachable()))
    NEED = ('truncate', 'poolflush', 'nextpos0', 'tindex.clear',
            'tfile.rewind', 'owner.clear')
    seen_ops = set()

    def events(node, lab, held=frozenset(), done=frozenset()):
        ev = set()
        for op in F.ops(node):
            if op.kind == 'call':
                if path_is(op.path, ('self', '_file', 'truncate')) and \
                        op.ast.args and F.canon(op.ast.args[0], node.frame) \
                        == ('self', '_pos'):
                    ev.add('truncate')
                # the pool is emptied while its writer side is held, i.e.
                # after every handed-out handle has come back (a handle
                # that is out keeps its read-ahead buffer)
                # ... and after the bytes are gone from the file: a reader
                # admitted between a flush and a later truncate buffers the
                # aborted bytes again, and serves them once the next commit
                # has written at the same offset
                if path_is(op.path, ('self', '_files', 'empty')) and \
                        POOL_WRITE in held_locks(held) and \
                        'truncate' in done:
                    ev.add('poolflush')
                if path_is(op.path, ('self', '_tindex', 'clear')):
                    ev.add('tindex.clear')
                if path_is(op.path, ('self', '_tfile', 'seek')) and \
                        op.ast.args and const_int(op.ast.args[0], 0):
                    ev.add('tfile.rewind')
            if op.kind == 'store' and lab != 'e':
                v = store_value(op)
                if path_is(op.path, ('self', '_nextpos')) and v is not None \
                        and const_int(v, 0):
                    ev.add('nextpos0')
                if path_is(op.path, ('self', '_transaction')) and \
                        v is not None and is_none_const(v):
                    ev.add('owner.clear')
        if node.kind == 'test' and lab in ('T', 'F'):
            from ..flow import truth_test
            e, truthy_when_true, _none = truth_test(node.ast)
            p = F.canon(e, node.frame) if e is not None else None
            taken_truthy = truthy_when_true if lab == 'T' else \
                (not truthy_when_true)
            if p == ('self', '_nextpos') and not taken_truthy:
                ev |= {'truncate', 'poolflush', 'nextpos0'}   # nothing voted
            if p == ('self', '_tfile') and not taken_truthy:
                ev.add('tfile.rewind')                         # read-only: no file
        return ev

    def edge(node, st, lab, tgt):
        matched, done, held = st
        same = identity_guard(node, F)
        if same is not None and lab in ('T', 'F'):
            return (lab == same, done, held)
        ev = events(node, lab, held, done)
        held = step_held(F, node, held, lab)
        seen_ops.update(ev)
        if lab in ('e', 'eb') and matched is True and \
                'truncate' not in done and node.kind not in (
                    'acq', 'rel', 'withenter', 'withexit') and not any(
                    op.kind == 'call' and path_is(
                        op.path, ('self', '_file', 'truncate'))
                    for op in F.ops(node)):
            # a step of the abort fails while the voted bytes are still in
            # the file
            done = frozenset(done | {'<failed before the truncate>'})
        if ev:
            done = frozenset(done | ev)
        # the truncate must come before the position it uses is reset
        return (matched, done, held)

    def at(node, st):
        matched, done, held = st
        if node.id == g.exit_raise and matched is True and \
                '<failed before the truncate>' in done and \
                'truncate' not in done:
            return Violation(
                'tpc_abort can fail in a step that precedes the truncate '
                '(for instance the removal of blob files): the voted, '
                'checkpoint-flagged transaction stays in the file beyond '
                'the committed end -- a later pack copies and indexes it, a '
                'reopen truncates everything committed after it')
        if node.id == g.exit_return and matched is True:
            missing = [n for n in NEED if n not in done]
            if missing:
                return Violation('a path through tpc_abort for the '
                                 'transaction being committed skips: %s' %
                                 ', '.join(missing))
        return st

    vs, stats = explore(g, (None, frozenset(), frozenset()), at=at,
                        edge=edge)
    R.count(stats)
    R.require(set(NEED) <= seen_ops,
              'abort effects not found at all: %s' % (set(NEED) - seen_ops))
    for v in vs:
        R.violation((f.module.relpath, f.qualname, 'abort-effects', None),
                    v.message, g, v.path, instance='FileStorage.tpc_abort')


# ----------------------------------------------------------------- C05.R3

GUARDED = {
    FS: ('store', 'deleteObject', 'restore', 'undo', 'tpc_vote', 'tpc_finish',
         'checkCurrentSerialInTransaction', 'storeBlob', 'restoreBlob'),
    MS: ('store', 'tpc_vote', 'tpc_finish',
         'checkCurrentSerialInTransaction'),
    DS: ('store', 'storeBlob', 'tpc_vote', 'tpc_finish',
         'checkCurrentSerialInTransaction'),
    BLOBSTORAGE: ('tpc_finish',),
}
ABORTS = (FS, MS, DS, BLOBSTORAGE)


def delegation(F, node, meth):
    """A call `self.<delegate>.<meth>(..., transaction | *args ...)`."""
    for op in F.ops(node):
        if op.kind == 'call' and op.path is not None and \
                op.path[0] == 'self' and len(op.path) == 3 and \
                op.path[2] == meth:
            c = op.ast
            for a in c.args:
                if isinstance(a, ast.Starred):
                    return True
                p = F.canon(a, node.frame) if isinstance(
                    a, (ast.Name, ast.Attribute)) else None
                if p is not None and p[0] == '%param':
                    return True
    return False


def check_guard(R, cls, meth, raise_foreign):
    f = R.method(cls, meth)
    g, b, F = R.cfg(f, cls)
    name = '%s.%s' % (cls.name, meth)
    R.instance(name, defined_in=f.qualname, cfg_nodes=len(g.reachable()))
    guards = [0]

    def edge(node, st, lab, tgt):
        matched = st
        same = identity_guard(node, F)
        if same is not None and lab in ('T', 'F'):
            guards[0] += 1
            return lab == same
        if matched is None and delegation(F, node, meth):
            guards[0] += 1
            # the delegate compares the transaction itself; if it raises for a
            # foreign one, falling through means "matched"
            if lab == 'e':
                return None
            return True if raise_foreign else None
        if matched is False and delegation(F, node, meth):
            # handing the foreign transaction to the wrapped storage is not
            # an effect of ours: it rejects (raises) or ignores it itself
            if raise_foreign and lab != 'e':
                return PRUNE
            return matched
        if matched is False and has_effect(F, node):
            return Violation('%s has an effect although the caller\'s '
                             'transaction is not the one being committed' %
                             name)
        if matched is None and has_effect(F, node) and node.kind != 'precond':
            return Violation('%s has an effect that is not dominated by the '
                             'transaction-identity check' % name)
        return matched

    def at(node, st):
        if node.id == g.exit_return and st is False and raise_foreign:
            return Violation('%s returns normally for a transaction that is '
                             'not the one being committed' % name)
        return st

    vs, stats = explore(g, None, at=at, edge=edge)
    R.count(stats)
    R.require(guards[0] > 0 or vs, '%s: no identity guard recognised' % name)
    for v in vs:
        R.violation(v.node, v.message, g, v.path, instance=name, at_root=True)


@rule('C05.R3', 'transaction-identity guard dominates every effect of the '
      '2PC methods; tpc_abort has no effect for a foreign transaction',
      props=['C03', 'C13', 'C06'], min_instances=20)
def r3(R):
    for q, meths in GUARDED.items():
        cls = R.prog.cls(q)
        for meth in meths:
            if R.prog.find_method(cls, meth) is None:
                R.require(meth in ('storeBlob', 'restoreBlob'),
                          '%s.%s vanished' % (cls.name, meth))
                continue
            check_guard(R, cls, meth, raise_foreign=True)
    for q in ABORTS:
        cls = R.prog.cls(q)
        check_guard(R, cls, 'tpc_abort', raise_foreign=False)


@rule('C05.R4', 'every transaction starts from an empty staging area '
      '(nothing staged by an aborted or failed transaction can be committed '
      'by the next one)', props=['C03', 'C04', 'C11'], min_instances=2)
def r4(R):
    # FileStorage: tpc_begin runs _clear_temp (tindex cleared, tfile rewound)
    cls = R.prog.cls(FS)
    f = R.method(cls, 'tpc_begin')
    g, b, F = R.cfg(f, cls)
    R.instance('FileStorage.tpc_begin')

    def edge(node, st, lab, tgt):
        if lab == 'e':
            return st
        for op in F.ops(node):
            if op.kind == 'call' and path_is(op.path,
                                             ('self', '_tindex', 'clear')):
                st = st | {'tindex'}
            if op.kind == 'call' and path_is(op.path,
                                             ('self', '_tfile', 'seek')) and \
                    op.ast.args and isinstance(op.ast.args[0], ast.Constant) \
                    and op.ast.args[0].value == 0:
                st = st | {'tfile'}
            if op.kind == 'store' and path_is(op.path, ('self', '_tindex')):
                st = st | {'tindex'}
        if node.kind == 'test' and lab in ('T', 'F'):
            from ..flow import truth_test
            e, truthy_when_true, _n = truth_test(node.ast)
            if dotted(e) and F.canon(e, node.frame) == ('self', '_tfile'):
                if (lab == 'T') != truthy_when_true:
                    st = st | {'tfile'}      # read-only: no temp file
        return frozenset(st)

    def at(node, st):
        if node.id == g.exit_return:
            missing = {'tindex', 'tfile'} - st
            if missing:
                return Violation(
                    'FileStorage.tpc_begin can return without having '
                    'emptied the staging area (%s): records staged by a '
                    'transaction that failed before its abort cleaned up '
                    'are committed with the next transaction' % ', '.join(
                        sorted(missing)))
        return st

    vs, stats = explore(g, frozenset(), at=at, edge=edge)
    R.count(stats)
    for v in vs:
        R.violation((f.module.relpath, f.qualname, 'staging emptied'),
                    v.message, g, v.path)
    # MappingStorage: _tdata is fresh at begin, or emptied by abort AND finish
    ms = R.prog.cls(MS)

    def resets(meth):
        m = R.method(ms, meth)
        gg, bb, FF = R.cfg(m, ms, max_depth=0)

        def edge2(node, st, lab, tgt):
            from ..twopc import identity_guard as ig
            matched, done = st
            same = ig(node, FF) if meth != 'tpc_begin' else None
            if same is not None and lab in ('T', 'F'):
                return (lab == same, done)
            if lab != 'e':
                for op in FF.ops(node):
                    if op.kind == 'store' and path_is(op.path,
                                                      ('self', '_tdata')):
                        v = op.stmt.value if isinstance(op.stmt, ast.Assign) \
                            else None
                        if isinstance(v, ast.Dict) and not v.keys or (
                                isinstance(v, ast.Call) and isinstance(
                                    v.func, ast.Name) and v.func.id == 'dict'
                                and not v.args):
                            done = True
                    if op.kind == 'call' and path_is(
                            op.path, ('self', '_tdata', 'clear')):
                        done = True
                    if op.kind == 'del' and path_is(op.path,
                                                    ('self', '_tdata')):
                        done = True
            return (matched, done)

        bad = []

        def at2(node, st):
            if node.id == gg.exit_return and st[0] is not False and \
                    not st[1]:
                bad.append(1)
            return st

        explore(gg, (None, False), at=at2, edge=edge2)
        return not bad

    R.instance('MappingStorage staging area')
    if not (resets('tpc_begin') or (resets('tpc_abort') and
                                    resets('tpc_finish'))):
        m = R.method(ms, 'tpc_begin')
        R.violation((m.module.relpath, m.qualname, 'staging emptied'),
                    'MappingStorage does not start a transaction with an '
                    'empty staging dictionary (neither tpc_begin resets it, '
                    'nor both tpc_abort and tpc_finish): data stored by a '
                    'transaction that failed with a conflict is committed by '
                    'the next, unrelated transaction')


# ----------------------------------------------------------------- C05.R5
@rule('C05.R5', 'the undo data manager registers everything its tpc_abort '
      'needs before it calls the storage\'s tpc_begin (which may fail with '
      'the commit lock already taken)', props=['C06'], min_instances=1)
def r5(R):
    cls = R.prog.cls('ZODB.DB.TransactionalUndo')
    beg = R.method(cls, 'tpc_begin')
    ab = R.method(cls, 'tpc_abort')
    # what tpc_abort reads before it reaches the storage's tpc_abort
    needs_data = any(isinstance(c, ast.Call) and isinstance(
        c.func, ast.Attribute) and c.func.attr == 'data'
        for c in ast.walk(ab.node))
    g, b, F = R.cfg(beg, cls, max_depth=0)
    R.instance('TransactionalUndo.tpc_begin', abort_reads_txn_data=needs_data)
    seen = [0]

    def edge(node, st, lab, tgt):
        if lab in ('e', 'eb'):
            return st
        registered, storage = st
        for op in F.ops(node):
            if op.kind == 'call' and op.path and op.path[-1] == 'set_data':
                registered = True
            if op.kind == 'store' and path_is(op.path, ('self', '_storage')):
                storage = True
        return (registered, storage)

    def at(node, st):
        registered, storage = st
        for op in F.ops(node):
            if op.kind == 'call' and path_is(
                    op.path, ('self', '_storage', 'tpc_begin')):
                seen[0] += 1
                if needs_data and not registered:
                    return Violation(
                        'the storage\'s tpc_begin is called before '
                        'transaction.set_data(self, ...): if it fails after '
                        'taking the commit lock (over-long metadata), '
                        'tpc_abort dies on transaction.data(self), the '
                        'storage\'s tpc_abort is never called and the commit '
                        'lock stays held for ever')
                if not storage:
                    return Violation(
                        'the storage\'s tpc_begin is called before '
                        'self._storage is set')
        return st

    vs, stats = explore(g, (False, False), at=at, edge=edge)
    R.count(stats)
    R.require(seen[0] or vs, 'TransactionalUndo.tpc_begin no longer begins '
              'a storage transaction')
    for v in vs:
        R.violation(v.node, v.message, g, v.path)


# ----------------------------------------------------------------- C05.R6
@rule('C05.R6', 'the MVCC adapter changes its own bookkeeping for a 2PC '
      'call only after the storage has accepted that call (the storage '
      'checks the transaction; a call with another transaction is rejected '
      'without effect)', min_instances=4)
def r6(R):
    n = 0
    for q in ('ZODB.mvccadapter.MVCCAdapterInstance',
              'ZODB.mvccadapter.UndoAdapterInstance'):
        cls = R.prog.cls(q)
        for meth in ('store', 'storeBlob', 'deleteObject', 'restore',
                     'restoreBlob', 'undo', 'tpc_vote', 'tpc_finish',
                     'checkCurrentSerialInTransaction'):
            f = cls.methods.get(meth)
            if f is None:
                continue
            g, b, F = R.cfg(f, cls, max_depth=0)
            n += 1
            R.instance('%s.%s' % (cls.name, meth))

            def edge(node, st, lab, tgt, F=F, meth=meth):
                if lab in ('e', 'eb'):
                    return st
                for op in F.ops(node):
                    if op.kind == 'call' and op.path and len(
                            op.path) == 3 and op.path[:2] == (
                                'self', '_storage'):
                        return 'accepted'
                return st

            def at(node, st, F=F, meth=meth, cls=cls):
                if st == 'accepted' or node.frame.parent is not None:
                    return st
                for op in F.ops(node):
                    if op.kind in ('store', 'aug', 'setitem', 'del',
                                   'delitem') and op.path and \
                            op.path[0] == 'self':
                        return Violation(
                            '%s.%s changes `%s` before the storage has '
                            'accepted the call: when the call is made with '
                            'a transaction other than the one being '
                            'committed the storage rejects it, but the '
                            'adapter\'s state is already changed and the '
                            'transaction in progress then fails' % (
                                cls.name, meth,
                                '.'.join(str(x) for x in op.path)))
                    if op.kind == 'call' and op.path and op.path[0] == \
                            'self' and len(op.path) == 3 and op.path[1] in (
                                '_modified', '_undone') and op.path[2] in (
                                    'add', 'update', 'clear', 'discard',
                                    'remove'):
                        return Violation(
                            '%s.%s mutates `%s` before the storage has '
                            'accepted the call' % (
                                cls.name, meth, '.'.join(op.path[:2])))
                return st

            vs, stats = explore(g, 'start', at=at, edge=edge)
            R.count(stats)
            for v in vs:
                R.violation(v.node, v.message, g, v.path)
    R.require(n >= 4, 'adapter 2PC methods not found')


# ----------------------------------------------------------------- C05.R7
@rule('C05.R7', 'the undo data manager gives its storage instance up only '
      'after it has asked that storage to finish or abort (the transaction '
      'package calls abort() and then tpc_abort() when a commit fails: an '
      'instance dropped in between keeps the commit lock for ever)',
      props=['C06'], min_instances=2)
def r7(R):
    from ..flow import implied_atoms
    cls = R.prog.cls('ZODB.DB.TransactionalUndo')
    n = 0
    for name, f in sorted(cls.methods.items()):
        if name in ('__init__', 'close'):
            continue
        g, b, F = R.cfg(f, cls, max_depth=0)

        def gives_up(op):
            if op.kind == 'call' and (path_is(op.path, ('self', 'close')) or
                                      path_is(op.path, ('self', '_storage',
                                                        'release'))):
                return True
            if op.kind == 'store' and path_is(op.path, ('self', '_storage')):
                v = store_value(op)
                return v is not None and is_none_const(v)
            return False

        def ends(op):
            return op.kind == 'call' and op.path and len(op.path) == 3 and \
                tuple(op.path[:2]) == ('self', '_storage') and \
                op.path[2] in ('tpc_abort', 'tpc_finish')

        if not any(gives_up(op) for nid in g.reachable()
                   for op in F.ops(g.nodes[nid])):
            continue
        n += 1
        R.instance('TransactionalUndo.%s gives the instance up' % name)

        def edge(node, st, lab, tgt, F=F):
            if node.kind == 'test' and lab in ('T', 'F'):
                for e, truth in implied_atoms(node.ast, lab):
                    if isinstance(e, ast.Compare) and len(e.ops) == 1 and \
                            dotted(e.left) == ('self', '_storage') and \
                            is_none_const(e.comparators[0]):
                        if isinstance(e.ops[0], ast.Is) == truth:
                            return 'none'
                    elif dotted(e) == ('self', '_storage') and not truth:
                        return 'none'
            # asked, whether or not the storage's call succeeds
            if any(ends(op) for op in F.ops(node)):
                return 'ended'
            return st

        def at(node, st, name=name, F=F):
            if st == 'live' and node.kind != 'handler':
                for op in F.ops(node):
                    if gives_up(op):
                        return Violation(
                            'TransactionalUndo.%s releases the storage '
                            'instance on a path on which the storage was '
                            'asked neither to finish nor to abort: a later '
                            'tpc_abort() finds no instance, the storage '
                            'keeps its transaction and the commit lock, and '
                            'every later commit blocks' % name)
            return st

        def edge2(node, st, lab, tgt, edge=edge, F=F):
            # a failure BEFORE the storage could be asked (the manager's own
            # bookkeeping raising) is not a path the rule judges
            if lab in ('e', 'eb') and st == 'live' and not any(
                    op.kind == 'call' and op.path and tuple(
                        op.path[:2]) == ('self', '_storage')
                    for op in F.ops(node)):
                return PRUNE
            return edge(node, st, lab, tgt)

        vs, stats = explore(g, 'live', at=at, edge=edge2)
        R.count(stats)
        for v in vs:
            R.violation(v.node, v.message, g, v.path)
    R.require(n >= 2, 'the undo manager\'s release sites vanished')


# ------------------------------------------------------------------ C05.R8
@rule('C05.R8', 'the undo data manager talks to its storage about the '
      'transaction object the storage was BEGUN with (what '
      '`transaction.data(self)` gives), in every step alike -- the storage '
      'silently ignores an abort for a transaction it does not know',
      props=['C06'], min_instances=4)
def r8(R):
    cls = R.prog.cls('ZODB.DB.TransactionalUndo')
    n = 0
    for name in ('commit', 'tpc_vote', 'tpc_finish', 'tpc_abort'):
        f = R.method(cls, name)
        params = [p for p in f.params if p != 'self']
        if not params:
            continue
        txn = params[0]
        rebound = any(isinstance(a, ast.Assign) and any(
            isinstance(t, ast.Name) and t.id == txn for t in a.targets)
            for a in walk_local(f.node))
        derived = {t.id for a in walk_local(f.node)
                   if isinstance(a, ast.Assign) and isinstance(
                       a.value, ast.Call) and isinstance(
                           a.value.func, ast.Attribute) and
                   a.value.func.attr == 'data'
                   for t in a.targets if isinstance(t, ast.Name)}
        aliases = {t.id for a in walk_local(f.node)
                   if isinstance(a, ast.Assign) and dotted(a.value) == (
                       'self', '_storage')
                   for t in a.targets if isinstance(t, ast.Name)}
        for c in walk_local(f.node):
            if not (isinstance(c, ast.Call) and isinstance(
                    c.func, ast.Attribute) and (dotted(c.func.value) == (
                        'self', '_storage') or (isinstance(
                            c.func.value, ast.Name) and
                        c.func.value.id in aliases)) and c.func.attr in (
                            'tpc_vote', 'tpc_finish', 'tpc_abort', 'undo',
                            'tpc_begin')):
                continue
            n += 1
            R.instance('TransactionalUndo.%s: %s' % (
                name, ' '.join(ast.unparse(c).split())[:50]))
            for a in c.args:
                raw = isinstance(a, ast.Name) and a.id == txn and \
                    txn not in derived
                if raw:
                    R.violation(
                        (f.module.relpath, f.qualname,
                         ' '.join(ast.unparse(c).split()), c.lineno),
                        'TransactionalUndo.%s hands the transaction '
                        'manager\'s transaction itself to the storage, not '
                        'the object the storage was begun with: the '
                        'storage does not know it and ignores the call -- '
                        'after a failed undo the storage stays in the '
                        'transaction and keeps the commit lock; every '
                        'later commit blocks' % name,
                        key='storage called with the raw transaction')
    R.require(n >= 4, 'expected the undo data manager to call its storage '
              'in commit, vote, finish and abort; found %d call(s)' % n)
