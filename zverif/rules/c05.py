"""C05 -- an unfinished transaction leaves no trace and blocks no one."""

import ast

from ..engine import rule
from ..flow import PRUNE, Violation, explore, is_none_const, path_ends, \
    path_is, raising_node, store_value
from ..twopc import BLOBSTORAGE, DS, FS, MS, STORAGES, commit_lock_ops, \
    identity_guard


def owner_store(F, node):
    """-> True / False / None: node sets self._transaction to a transaction /
    clears it / does not touch it."""
    r = None
    for op in F.ops(node):
        if op.kind == 'store' and path_is(op.path, ('self', '_transaction')):
            v = store_value(op)
            r = not (v is not None and is_none_const(v))
    return r


def lock_after(F, node, level):
    """Commit-lock level after the lock operations of `node`; a Violation
    for a double acquire / release of a free lock."""
    for kind, op in commit_lock_ops(F, node):
        if kind == 'acq':
            if level == 1:
                return Violation('commit lock acquired while already held '
                                 '(self-deadlock)')
            level = 1
        else:
            if level == 0:
                return Violation('commit lock released while not held')
            level = 0
    return level


# --------------------------------------------------------------- tpc_begin

def check_begin(R, cls, g, F, name):
    def edge(node, st, lab, tgt):
        level, owner = st
        level = lock_after(F, node, level)
        if isinstance(level, Violation):
            return level
        if lab != 'e':
            o = owner_store(F, node)
            if o is True and level == 0:
                return Violation('the owner field is set to the caller\'s '
                                 'transaction before the commit lock is held')
            if o is not None:
                owner = o
        return (level, owner)

    def at(node, st):
        level, owner = st
        if node.id == g.exit_return and not (level == 1 and owner):
            return Violation('tpc_begin returns without holding the commit '
                             'lock for the registered transaction '
                             '(lock=%d, owner registered=%s)' % (level, owner))
        if node.id == g.exit_raise and level == 1 and not owner:
            return Violation(
                'tpc_begin can fail after acquiring the commit lock but '
                'before registering the caller\'s transaction as owner: the '
                'caller\'s tpc_abort will not match and the lock is never '
                'released')
        return st

    vs, stats = explore(g, (0, False), at=at, edge=edge)
    R.count(stats)
    for v in vs:
        n = raising_node(g, v.path) if v.node.id == g.exit_raise else v.node
        R.violation(n, v.message, g, v.path, instance=name)


# ------------------------------------------------- tpc_abort / tpc_finish

# A raising operation after which the class does not promise the release
# (observation O4 of DESIGN.md: outside "before the finish").  Each entry
# names a class, a method and the shape of the raising call.
LEAK_EXCEPTIONS = {
    (DS, 'tpc_abort'): ('delegate',
                        'the changes storage\'s own tpc_abort failed (O4)'),
    (DS, 'tpc_finish'): ('delegate',
                         'the changes storage\'s tpc_finish failed (O4)'),
    (MS, 'tpc_finish'): ('callback',
                         'the caller\'s callback raised inside finish (O4)'),
}


def raising_shape(F, node):
    """'delegate' if the node's fallible call goes to self.changes/self.base,
    'callback' if it calls a parameter; else None."""
    for op in F.ops(node):
        if op.kind == 'call' and op.path is not None:
            if op.path[0] == 'self' and len(op.path) >= 3 and \
                    op.path[1] in ('changes', 'base'):
                return 'delegate'
            if op.path[0] == '%param' and len(op.path) == 2:
                return 'callback'
    return None


def has_effect(F, node):
    """Does the node change storage state or release a lock?  (Used on the
    foreign-transaction branch, where nothing may happen.)"""
    if node.kind in ('rel', 'acq') and node.info.get('with'):
        return False        # leaving / entering the `with self._lock` region
    if any(fr.via == 'with' for fr in node.frame.chain()):
        return False        # enter/exit protocol of an inlined context manager
    for op in F.ops(node):
        if op.kind in ('store', 'aug', 'setitem', 'augitem', 'del',
                       'delitem') and op.path is not None and \
                op.path[0] == 'self':
            return True
        if op.kind == 'call':
            if op.path is None:
                return True
            if op.path[0] == 'self' and len(op.path) >= 2:
                return True
            if op.path[0].startswith('@os') or op.path[0].startswith(
                    '@shutil'):
                return True
    return False


def check_end(R, cls, g, F, name, meth, must_raise_foreign):
    """tpc_abort / tpc_finish.  State: (lock level, matched) with matched in
    {None: guard not yet evaluated, True, False}."""
    exc = LEAK_EXCEPTIONS.get((cls.qualname, meth))
    guards = [0]

    def edge(node, st, lab, tgt):
        level, matched = st
        same = identity_guard(node, F)
        if same is not None and lab in ('T', 'F'):
            guards[0] += 1
            matched = (lab == same)
            return (level, matched)
        if matched is False:
            if has_effect(F, node):
                return Violation('%s has an effect although the caller\'s '
                                 'transaction is not the one being '
                                 'committed' % meth)
            return st
        if matched is None and has_effect(F, node) and node.kind != 'precond':
            return Violation('%s has an effect before the transaction-'
                             'identity check' % meth)
        level = lock_after(F, node, level)
        if isinstance(level, Violation):
            return level
        return (level, matched)

    def at(node, st):
        level, matched = st
        if node.id == g.exit_return:
            if matched is True and level != 0:
                return Violation('%s returns normally with the commit lock '
                                 'still held' % meth)
            if matched is False and must_raise_foreign:
                return Violation('%s returns normally for a transaction '
                                 'that is not being committed' % meth)
            if matched is None:
                return Violation('%s can return without having compared the '
                                 'transaction' % meth)
        if node.id == g.exit_raise and matched is True and level != 0:
            return Violation('%s can leave through an exception with the '
                             'commit lock still held: every later commit '
                             'blocks for ever' % meth)
        return st

    vs, stats = explore(g, (1, None), at=at, edge=edge)
    R.count(stats)
    R.require(guards[0] > 0 or vs,
              '%s.%s: no transaction-identity guard recognised' % (
                  cls.name, meth))
    for v in vs:
        n = v.node
        if v.node.id == g.exit_raise:
            n = raising_node(g, v.path)
            if exc is not None and raising_shape(F, n) == exc[0]:
                R.named_exception('%s.%s' % (cls.name, meth), exc[1])
                R.observe('O4: %s.%s keeps the commit lock when `%s` raises '
                          '(%s)' % (cls.name, meth, n.text(60), exc[1]))
                continue
        R.violation(n, v.message, g, v.path, instance=name)


@rule('C05.R1', 'commit-lock typestate of tpc_begin / tpc_abort / tpc_finish',
      props=['C03'], min_instances=9)
def r1(R):
    for q in STORAGES:
        cls = R.prog.cls(q)
        for meth in ('tpc_begin', 'tpc_abort', 'tpc_finish'):
            f = R.method(cls, meth)
            g, b, F = R.cfg(f, cls)
            name = '%s.%s' % (cls.name, meth)
            R.instance(name, defined_in=f.qualname,
                       cfg_nodes=len(g.reachable()))
            if meth == 'tpc_begin':
                check_begin(R, cls, g, F, name)
            else:
                check_end(R, cls, g, F, name, meth,
                          must_raise_foreign=(meth == 'tpc_finish'))
